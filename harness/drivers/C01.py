"""C01 — exact GP posterior = closed-form Gaussian conditional.
Tie C: the implementation supplies its own joint prior (K, m on [X; X*]), train noise S and
targets; the Coq model (Models/C01_posterior.v, run with vm_compute over Qc) computes the
conditional exactly; the implementation's posterior under every prediction-relevant settings
combination is compared with it."""
import itertools
import json
import random

import torch

import gpytorch
from gpytorch import settings as gs
from harness.lib import common as C

COQ_TARGETS = ["Models/C01_posterior.vo"]
LEVEL_NOTE = ("theorems are about the Gallina model; tie to /repo is differential (public outputs, "
              "float64 vs exact rationals, tolerances in coverage.tolerances)")
IMPORTS = "From Coq Require Import List ZArith QArith Qcanon.\nFrom GPV Require Import Base.LinAlg Base.Exec Models.C01_posterior."
RUN_DEF = "Definition run := run_posterior."

torch.set_default_dtype(torch.float64)


class GP(gpytorch.models.ExactGP):
    def __init__(self, x, y, lik, mean, kern):
        super().__init__(x, y, lik)
        self.mean_module, self.covar_module = mean, kern

    def forward(self, x):
        return gpytorch.distributions.MultivariateNormal(self.mean_module(x), self.covar_module(x))


KERNELS = ["rbf", "matern05", "matern15", "matern25", "rq", "scale_rbf", "rbf+linear", "rbf*matern", "ard_rbf", "poly"]
MEANS = ["zero", "constant", "linear"]
LIKS = ["gaussian", "fixed", "fixed+learned"]


def make_kernel(name, d, rng):
    k = gpytorch.kernels
    ls = lambda: rng.uniform(0.4, 2.0)  # noqa: E731
    if name == "rbf":
        m = k.RBFKernel(); m.lengthscale = ls()
    elif name.startswith("matern"):
        m = k.MaternKernel(nu={"05": 0.5, "15": 1.5, "25": 2.5}[name[-2:]]); m.lengthscale = ls()
    elif name == "rq":
        m = k.RQKernel(); m.lengthscale = ls(); m.alpha = rng.uniform(0.5, 3)
    elif name == "scale_rbf":
        m = k.ScaleKernel(k.RBFKernel()); m.base_kernel.lengthscale = ls(); m.outputscale = rng.uniform(0.3, 3)
    elif name == "rbf+linear":
        a = k.RBFKernel(); a.lengthscale = ls(); b = k.LinearKernel(); b.variance = rng.uniform(0.2, 2); m = a + b
    elif name == "rbf*matern":
        a = k.RBFKernel(); a.lengthscale = ls(); b = k.MaternKernel(nu=1.5); b.lengthscale = ls(); m = a * b
    elif name == "ard_rbf":
        m = k.RBFKernel(ard_num_dims=d); m.lengthscale = torch.tensor([ls() for _ in range(d)])
    elif name == "poly":
        m = k.PolynomialKernel(power=2); m.offset = rng.uniform(0.2, 2)
    return m


def make_mean(name, d, rng):
    if name == "zero":
        return gpytorch.means.ZeroMean()
    if name == "constant":
        m = gpytorch.means.ConstantMean(); m.constant.data.fill_(rng.uniform(-2, 2)); return m
    m = gpytorch.means.LinearMean(d)
    m.weights.data = torch.tensor([[rng.uniform(-1, 1)] for _ in range(d)]); m.bias.data.fill_(rng.uniform(-1, 1))
    return m


def make_lik(name, n, rng):
    if name == "gaussian":
        l = gpytorch.likelihoods.GaussianLikelihood(); l.noise = rng.uniform(0.05, 0.8); return l
    noise = torch.tensor([rng.uniform(0.05, 0.8) for _ in range(n)])
    l = gpytorch.likelihoods.FixedNoiseGaussianLikelihood(noise, learn_additional_noise=(name == "fixed+learned"))
    if name == "fixed+learned":
        l.second_noise = rng.uniform(0.05, 0.5)
    return l


# prediction-relevant settings: name -> context-manager factory for the non-default choice
FLAGS = {
    "eager_kernels": lambda: gs.lazily_evaluate_kernels(False),
    "small_eager_threshold": lambda: gs.max_eager_kernel_size(1),
    "cg": lambda: _multi(gs.max_cholesky_size(0), gs.cg_tolerance(1e-12), gs.eval_cg_tolerance(1e-12),
                         gs.max_cg_iterations(2000), gs.min_preconditioning_size(10 ** 6)),
    "fast_pred_var": lambda: _multi(gs.fast_pred_var(True), gs.max_root_decomposition_size(100)),
    "attached_caches": lambda: gs.detach_test_caches(False),
    "skip_variances": lambda: gs.skip_posterior_variances(True),
}


class _multi:
    def __init__(self, *cms):
        self.cms = cms

    def __enter__(self):
        for c in self.cms:
            c.__enter__()

    def __exit__(self, *a):
        for c in reversed(self.cms):
            c.__exit__(*a)
        return False


def gen_case(rng, tier):
    nmax = 5 if tier == "quick" else 7
    n, t, d = rng.randint(1, nmax), rng.randint(1, 3), rng.randint(1, 3)
    grid = lambda: rng.randint(-24, 24) / 8.0  # noqa: E731   dyadic inputs
    # separated points (rejected otherwise) keep the problem well conditioned
    for _ in range(200):
        pts = [[grid() for _ in range(d)] for _ in range(n + t)]
        if all(max(abs(a - b) for a, b in zip(p, q)) >= 0.25 for p, q in itertools.combinations(pts, 2)):
            break
    return dict(n=n, t=t, d=d, X=pts[:n], Xs=pts[n:], y=[rng.randint(-16, 16) / 8.0 for _ in range(n)],
                kernel=rng.choice(KERNELS), mean=rng.choice(MEANS), lik=rng.choice(LIKS), hseed=rng.randint(0, 10 ** 9))


def build(case):
    rng = random.Random(case["hseed"])
    X = torch.tensor(case["X"]); y = torch.tensor(case["y"])
    lik = make_lik(case["lik"], case["n"], rng)
    model = GP(X, y, lik, make_mean(case["mean"], case["d"], rng), make_kernel(case["kernel"], case["d"], rng))
    test_noise = [rng.uniform(0.05, 0.5) for _ in range(case["t"])]
    return model, lik, X, y, torch.tensor(case["Xs"]), torch.tensor(test_noise)


def impl_inputs(case):
    """the model's own prior pieces, as exact rationals"""
    model, lik, X, y, Xs, _ = build(case)
    model.train(); lik.train()
    with torch.no_grad(), gs.debug(False):
        joint = model.forward(torch.cat([X, Xs], 0))
        KJ = joint.covariance_matrix
        mu = joint.mean
        A = lik(model.forward(X), X).covariance_matrix
    n = case["n"]
    S = [[C.frac(A[i, j].item()) - C.frac(KJ[i, j].item()) for j in range(n)] for i in range(n)]
    return KJ.tolist(), mu.tolist(), S


def impl_outputs(case, flags):
    model, lik, X, y, Xs, tn = build(case)
    model.eval(); lik.eval()
    cms = [FLAGS[f]() for f in flags]
    with torch.no_grad(), _multi(*cms):
        post = model(Xs)
        mean = post.mean.tolist()
        cov = post.covariance_matrix.tolist()
        var = post.variance.tolist()
        if case["lik"] == "gaussian":
            marg = lik(post).covariance_matrix
            noise = [lik.noise.item()] * case["t"]
        else:
            marg = lik(post, noise=tn).covariance_matrix
            extra = lik.second_noise.item() if case["lik"] == "fixed+learned" else 0.0
            noise = [v + extra for v in tn.tolist()]
        added = (marg - post.covariance_matrix).tolist()
    return dict(mean=mean, cov=cov, var=var, added=added, noise=noise)


def coq_case(case, KJ, mu, S):
    return "(%d%%nat, %d%%nat, %s, %s, %s, %s)" % (case["n"], case["t"], C.qc_mat(KJ), C.qc_vec(mu),
                                                     C.qc_mat(S), C.qc_vec(case["y"]))


ITERATIVE = {"cg", "fast_pred_var"}
COND_MAX = 300.0  # iterative paths (CG / Lanczos) are only compared on well-conditioned Kxx+S


def tol(flags):
    if ITERATIVE & set(flags):
        return 1e-5
    return 1e-8


def compare(out, case, flags, res, mm, mc):
    t = case["t"]
    a = tol(flags)
    desc = dict(case=case, flags=sorted(flags))
    path = "+".join(sorted(flags)) or "default"
    for i in range(t):
        if not C.close(res["mean"][i], mm[i], a, a):
            out.fail("posterior-mean:%s" % path, "posterior mean differs from the closed-form conditional",
                     desc, impl=res["mean"], model=[float(v) for v in mm])
            break
    if "skip_variances" in flags:
        if any(abs(v) > 0 for r in res["cov"] for v in r):
            out.fail("skip-variances:%s" % path, "skip_posterior_variances did not return a zero covariance", desc,
                     impl=res["cov"])
        return
    bad = False
    for i in range(t):
        for j in range(t):
            if not C.close(res["cov"][i][j], mc[i][j], a, a):
                bad = True
    if bad:
        out.fail("posterior-cov:%s" % path, "posterior covariance differs from K** - K*x (Kxx+S)^-1 Kx*", desc,
                 impl=res["cov"], model=[[float(v) for v in r] for r in mc])
    # variance = diag, clamped at min_variance (1e-10 in double)
    for i in range(t):
        if not C.close(res["var"][i], max(float(mc[i][i]), 1e-10), a, a):
            out.fail("posterior-var:%s" % path, "posterior variance differs from the diagonal of the conditional", desc,
                     impl=res["var"], model=[float(mc[k][k]) for k in range(t)])
            break
    # likelihood(posterior) adds exactly the observation noise, once
    for i in range(t):
        for j in range(t):
            want = res["noise"][i] if i == j else 0.0
            if not C.close(res["added"][i][j], want, 1e-9, 1e-9):
                out.fail("marginal-noise:%s:%s" % (case["lik"], path),
                         "likelihood(posterior) does not add exactly the observation noise", desc,
                         impl=res["added"], model=res["noise"])
                return


def run(out, ctx):
    tier, seed = ctx["tier"], ctx["seed"]
    rng = random.Random(seed * 7919 + 1)
    ncases = 60 if tier == "quick" else 600
    flagnames = sorted(FLAGS)
    cases = [gen_case(rng, tier) for _ in range(ncases)]
    prior = [impl_inputs(c) for c in cases]
    res = C.coq_run_cases("C01", IMPORTS, RUN_DEF, [coq_case(c, *p) for c, p in zip(cases, prior)], shard=8)
    out.rule = ("random exact-GP problems (n<=%d, t<=3, d<=3, 10 kernels x 3 means x 3 likelihoods), each under the "
                "default settings, every single non-default flag and random flag subsets; non-trivial = n>=2 and "
                "posterior covariance differs from the prior block by >1e-6" % (5 if tier == "quick" else 7))
    out.extra["tolerances"] = {"dense/cholesky": 1e-8, "cg or lanczos(full rank), cond<=%g" % COND_MAX: 1e-5,
                                "marginal noise": 1e-9}
    for case, (KJ, mu, S), r in zip(cases, prior, res):
        rd = C.Reader(r)
        if rd.int() != 1:
            out.fail("model:singular", "model could not invert Kxx+S (exact rational)", case, no_input=False)
            continue
        t, n = case["t"], case["n"]
        mm = rd.qs(t)
        mc = rd.qmat(t, t)
        nontrivial = n >= 2 and any(abs(float(mc[i][i]) - KJ[n + i][n + i]) > 1e-6 for i in range(t))
        A = torch.tensor([[KJ[i][j] + float(S[i][j]) for j in range(n)] for i in range(n)])
        cond = float(torch.linalg.cond(A))
        combos = [()] + [(f,) for f in flagnames]
        for _ in range(2 if tier == "quick" else 6):
            combos.append(tuple(f for f in flagnames if rng.random() < 0.4))
        for flags in combos:
            if cond > COND_MAX and ITERATIVE & set(flags):
                out.count("rejected: cond(Kxx+S)>%g on an iterative path" % COND_MAX)
                continue
            out.case(dict(n=n, t=t, d=case["d"], kernel=case["kernel"], mean=case["mean"], lik=case["lik"],
                          flags=sorted(flags)), nontrivial, label="flags=" + ("+".join(sorted(flags)) or "default"))
            out.count("kernel=" + case["kernel"]); out.count("lik=" + case["lik"]); out.count("n=%d" % n)
            try:
                got = impl_outputs(case, flags)
            except Exception as e:  # the implementation rejects a configuration the property covers
                out.fail("impl-exception:%s:%s" % (type(e).__name__, "+".join(sorted(flags))),
                         "implementation raised %r" % e, dict(case=case, flags=sorted(flags)))
                continue
            compare(out, case, set(flags), got, mm, mc)
    out.tested_not_proved = ["agreement of torch/linear_operator numerics (Cholesky, CG, Lanczos) with exact algebra"]


def replay(path):
    d = json.load(open(path))
    case, flags = d["case"]["case"], d["case"]["flags"]
    KJ, mu, S = impl_inputs(case)
    r = C.coq_run_cases("C01_replay", IMPORTS, RUN_DEF, [coq_case(case, KJ, mu, S)])[0]
    rd = C.Reader(r); rd.int()
    mm = rd.qs(case["t"]); mc = rd.qmat(case["t"], case["t"])
    got = impl_outputs(case, flags)
    print("flags", flags)
    print("impl mean ", got["mean"]); print("model mean", [float(v) for v in mm])
    print("impl cov  ", got["cov"]); print("model cov ", [[float(v) for v in r] for r in mc])
    out = C.Outcome("C01", "quick", 0)
    compare(out, case, set(flags), got, mm, mc)
    print("FAILS" if out.failures else "agrees")
    return 1 if out.failures else 0
