"""C01 — exact GP posterior = closed-form Gaussian conditional.
Tie C: the implementation supplies its own joint prior (K, m on [X; X*]), train noise S and
targets; the Coq model (Models/C01_posterior.v, run with vm_compute over Qc) computes the
conditional exactly; the implementation's posterior under every prediction-relevant settings
combination is compared with it."""
import itertools
import json
import random
from concurrent.futures import ThreadPoolExecutor

import torch
from linear_operator import to_linear_operator

import gpytorch
from gpytorch import settings as gs
from harness.lib import common as C

COQ_TARGETS = ["Models/C01_posterior.vo"]
LEVEL_NOTE = ("theorems are about the Gallina model; tie to /repo is differential (public outputs, "
              "float64 vs exact rationals, tolerances in coverage.tolerances)")
IMPORTS = "From Coq Require Import List ZArith QArith Qcanon.\nFrom GPV Require Import Base.LinAlg Base.Exec Models.C01_posterior."
RUN_DEF = "Definition run := run_posterior."

torch.set_default_dtype(torch.float64)


class GP(gpytorch.models.ExactGP):
    def __init__(self, x, y, lik, mean, kern):
        super().__init__(x, y, lik)
        self.mean_module, self.covar_module = mean, kern

    def forward(self, x):
        return gpytorch.distributions.MultivariateNormal(self.mean_module(x), self.covar_module(x))


KERNELS = ["rbf", "matern05", "matern15", "matern25", "rq", "scale_rbf", "rbf+linear", "rbf*matern", "ard_rbf", "poly",
           # kernels restricted to a subset of the input columns (active_dims); "[ad]" on the TOP-LEVEL kernel
           # (a ScaleKernel inherits the active_dims of its base kernel), "[ad]+[ad']" / "[ad]*[ad']" on the parts only
           "rbf[ad]", "scale_matern[ad]", "rbf[ad]+matern[ad']", "rq[ad]*linear[ad']"]
ACTIVE_DIM_KERNELS = {k for k in KERNELS if "[ad" in k}
# kernels that bring their OWN prediction strategy (family "structured"): random Fourier features (RFFPredictionStrategy),
# KISS-GP on a fixed grid (InterpolatedPredictionStrategy), inducing points (SGPRPredictionStrategy).  The property's K is
# "whatever the model's kernel evaluates to": for these the blocks of K are taken from the kernel's lazily evaluated joint
# on [X; X*] in evaluation mode (struct_blocks), the closed form is the same Coq term
STRUCT_KERNELS = ["rff", "scale_rff", "kiss", "scale_kiss", "sgpr", "scale_sgpr"]
GRID_BOUNDS = (-4.0, 4.0)   # inputs are dyadic points of [-3, 3]: two cells of margin for the cubic interpolation
MEANS = ["zero", "constant", "linear"]
LIKS = ["gaussian", "fixed", "fixed+learned"]


def make_kernel(name, d, rng, arch=None):
    k = gpytorch.kernels
    ls = lambda: rng.uniform(0.4, 2.0)  # noqa: E731
    if name == "rbf":
        m = k.RBFKernel(); m.lengthscale = ls()
    elif name.startswith("matern"):
        m = k.MaternKernel(nu={"05": 0.5, "15": 1.5, "25": 2.5}[name[-2:]]); m.lengthscale = ls()
    elif name == "rq":
        m = k.RQKernel(); m.lengthscale = ls(); m.alpha = rng.uniform(0.5, 3)
    elif name == "scale_rbf":
        m = k.ScaleKernel(k.RBFKernel()); m.base_kernel.lengthscale = ls(); m.outputscale = rng.uniform(0.3, 3)
    elif name == "rbf+linear":
        a = k.RBFKernel(); a.lengthscale = ls(); b = k.LinearKernel(); b.variance = rng.uniform(0.2, 2); m = a + b
    elif name == "rbf*matern":
        a = k.RBFKernel(); a.lengthscale = ls(); b = k.MaternKernel(nu=1.5); b.lengthscale = ls(); m = a * b
    elif name == "ard_rbf":
        m = k.RBFKernel(ard_num_dims=d); m.lengthscale = torch.tensor([ls() for _ in range(d)])
    elif name == "poly":
        m = k.PolynomialKernel(power=2); m.offset = rng.uniform(0.2, 2)
    elif name in STRUCT_KERNELS:
        base = name.split("_")[-1]
        if base == "rff":
            # the random features are drawn at construction: seeded, so that every build of the case has the same ones
            torch.manual_seed(rng.randint(0, 2 ** 31 - 1))
            m = k.RFFKernel(num_samples=arch["D"], num_dims=d); m.lengthscale = ls()
        elif base == "kiss":
            inner = k.RBFKernel() if arch["inner"] == "rbf" else k.MaternKernel(nu=2.5)
            inner.lengthscale = ls()
            m = k.GridInterpolationKernel(inner, grid_size=list(arch["grid"]), grid_bounds=[GRID_BOUNDS] * d)
        else:
            m = k.RBFKernel(); m.lengthscale = ls()
        if name.startswith("scale_"):
            m = k.ScaleKernel(m); m.outputscale = rng.uniform(0.3, 3)
        # (sgpr: build() wraps m into an InducingPointKernel, which needs the likelihood)
    elif name in ACTIVE_DIM_KERNELS:
        # a non-empty PROPER subset of the columns (d >= 2 is forced by gen_case), in random order of choice
        ad = sorted(rng.sample(range(d), rng.randint(1, d - 1)))
        ad2 = sorted(rng.sample(range(d), rng.randint(1, d - 1)))
        if name == "rbf[ad]":
            m = k.RBFKernel(active_dims=ad); m.lengthscale = ls()
        elif name == "scale_matern[ad]":
            b = k.MaternKernel(nu=2.5, active_dims=ad); b.lengthscale = ls()
            m = k.ScaleKernel(b); m.outputscale = rng.uniform(0.3, 3)
        elif name == "rbf[ad]+matern[ad']":
            a = k.RBFKernel(active_dims=ad); a.lengthscale = ls()
            b = k.MaternKernel(nu=1.5, active_dims=ad2); b.lengthscale = ls(); m = a + b
        else:
            a = k.RQKernel(active_dims=ad); a.lengthscale = ls(); a.alpha = rng.uniform(0.5, 3)
            b = k.LinearKernel(active_dims=ad2); b.variance = rng.uniform(0.2, 2); m = a * b
    return m


def make_mean(name, d, rng):
    if name == "zero":
        return gpytorch.means.ZeroMean()
    if name == "constant":
        m = gpytorch.means.ConstantMean(); m.constant.data.fill_(rng.uniform(-2, 2)); return m
    m = gpytorch.means.LinearMean(d)
    m.weights.data = torch.tensor([[rng.uniform(-1, 1)] for _ in range(d)]); m.bias.data.fill_(rng.uniform(-1, 1))
    return m


def make_lik(name, n, rng):
    if name == "gaussian":
        l = gpytorch.likelihoods.GaussianLikelihood(); l.noise = rng.uniform(0.05, 0.8); return l
    noise = torch.tensor([rng.uniform(0.05, 0.8) for _ in range(n)])
    l = gpytorch.likelihoods.FixedNoiseGaussianLikelihood(noise, learn_additional_noise=(name == "fixed+learned"))
    if name == "fixed+learned":
        l.second_noise = rng.uniform(0.05, 0.5)
    return l


# prediction-relevant settings: name -> context-manager factory for the non-default choice
FLAGS = {
    "eager_kernels": lambda: gs.lazily_evaluate_kernels(False),
    "small_eager_threshold": lambda: gs.max_eager_kernel_size(1),
    "cg": lambda: _multi(gs.max_cholesky_size(0), gs.cg_tolerance(1e-12), gs.eval_cg_tolerance(1e-12),
                         gs.max_cg_iterations(2000), gs.min_preconditioning_size(10 ** 6)),
    # the EVALUATION-time tolerance alone is tight; the training-time knob settings.cg_tolerance stays at its default
    # (ExactGP.__call__ installs eval_cg_tolerance for everything a prediction solves, caches included)
    "cg_eval_tol_only": lambda: _multi(gs.max_cholesky_size(0), gs.eval_cg_tolerance(1e-12),
                                       gs.max_cg_iterations(2000), gs.min_preconditioning_size(10 ** 6)),
    "fast_pred_var": lambda: _multi(gs.fast_pred_var(True), gs.max_root_decomposition_size(100)),
    "debug_off": lambda: gs.debug(False),
    "attached_caches": lambda: gs.detach_test_caches(False),
    "skip_variances": lambda: gs.skip_posterior_variances(True),
}


class _multi:
    def __init__(self, *cms):
        self.cms = cms

    def __enter__(self):
        for c in self.cms:
            c.__enter__()

    def __exit__(self, *a):
        for c in reversed(self.cms):
            c.__exit__(*a)
        return False


BATCH_PATTERNS = ["params+data", "params-only", "data-only", "data-only,test-shared", "params(2,1)xdata(3)"]


PRELUDES = ["targets", "inputs+targets", "inputs", "predict-other", "load"]


def gen_case(rng, tier, family="single", idx=0):
    nmax = 5 if tier == "quick" else 7
    n, t, d = rng.randint(1, nmax), rng.randint(1, 3), rng.randint(1, 3)
    if family == "structured":
        n, d = rng.randint(2, nmax), rng.randint(1, 2)
    if family == "multitask":
        n, t = rng.randint(1, 3), rng.randint(1, 2)
    if family == "batch":
        n = rng.randint(1, 4)
    kernel = rng.choice(KERNELS)
    if family == "structured":
        kernel = STRUCT_KERNELS[idx % len(STRUCT_KERNELS)]     # every structured kernel in every run
    if family == "multitask":
        kernel = rng.choice(["rbf", "matern25", "rq", "rbf[ad]"])
    if family == "batch":
        kernel = rng.choice(["rbf", "matern15", "rq", "scale_rbf", "rbf[ad]"])
    if kernel in ACTIVE_DIM_KERNELS:
        d = rng.randint(2, 3)  # a proper subset of the columns needs at least two of them
    grid = lambda: rng.randint(-24, 24) / 8.0  # noqa: E731   dyadic inputs
    # separated points (rejected otherwise) keep the problem well conditioned; with active_dims the points must be
    # separated in EVERY single column (any subset of columns may be the active one)
    sep = (lambda p, q: min(abs(a - b) for a, b in zip(p, q))) if kernel in ACTIVE_DIM_KERNELS else \
          (lambda p, q: max(abs(a - b) for a, b in zip(p, q)))
    for _ in range(2000):
        pts = [[grid() for _ in range(d)] for _ in range(n + t)]
        if all(sep(p, q) >= 0.25 for p, q in itertools.combinations(pts, 2)):
            break
    c = dict(family=family, n=n, t=t, d=d, X=pts[:n], Xs=pts[n:], y=[rng.randint(-16, 16) / 8.0 for _ in range(n)],
             kernel=kernel, mean=rng.choice(MEANS), lik=rng.choice(LIKS), hseed=rng.randint(0, 10 ** 9))
    if family == "single":
        # the property is about the CURRENT training data and the CURRENT test inputs: some cases first predict
        # (mean and covariance evaluated) on other data and then install the case's data with set_train_data
        # (targets only / inputs only / both), or first predict at OTHER test inputs on the same model object,
        # before the compared prediction
        c["prelude"] = rng.choice([None, None] + PRELUDES)
    elif family == "structured":
        # the first round of the structured kernels has a prior mean that is NOT zero at the training inputs
        if idx < len(STRUCT_KERNELS):
            c["mean"] = rng.choice(["constant", "linear"])
        c["prelude"] = rng.choice([None, None, "predict-other", "load", "targets", "inputs+targets"])
        # what fixes the SHAPES of the state_dict entries (number of random features, grid sizes) belongs to the case
        c["arch"] = dict(D=rng.randint(1, 4), inner=rng.choice(["rbf", "matern25"]),
                         grid=[rng.randint(8, 11) if d == 1 else rng.randint(7, 8) for _ in range(d)])
        if kernel.endswith("sgpr"):
            m = rng.randint(2, 3)
            for _ in range(2000):
                Z = [[grid() for _ in range(d)] for _ in range(m)]
                if all(sep(p, q) >= 0.5 for p, q in itertools.combinations(Z, 2)):
                    break
            c["Z"] = Z
            c["lik"] = rng.choice(["gaussian", "fixed"])
    else:
        c["prelude"] = rng.choice([None, None, "predict-other", "load"])
    if family == "multitask":
        c.update(tasks=2, rank=rng.choice([0, 1]), noise_rank=rng.choice([0, 1]),
                 y=[[rng.randint(-16, 16) / 8.0 for _ in range(2)] for _ in range(n)])
    if family == "batch":
        c.update(pattern=rng.choice(BATCH_PATTERNS),
                 mean=rng.choice(["zero", "constant"]), lik=rng.choice(["gaussian", "fixed"]))
    return c


class DyadicKernel(gpytorch.kernels.Kernel):
    """k(x, x') = a * sum_j min(x_j, x'_j) + b * <x, x'> on positive inputs (Brownian-motion + linear; PSD).  With a, b
    and the inputs small dyadic rationals every entry of every matrix it produces is an exact small dyadic rational, so
    the exact rational model stays cheap at training-set sizes where the iterative solvers no longer terminate by
    exhausting the dimension (linear_cg looks at its tolerance only from its 11th iteration on)."""
    has_lengthscale = False

    def __init__(self, a, b, **kw):
        super().__init__(**kw)
        self.a, self.b = a, b

    def forward(self, x1, x2, diag=False, **params):
        if diag:
            return self.a * torch.minimum(x1, x2).sum(-1) + self.b * (x1 * x2).sum(-1)
        return (self.a * torch.minimum(x1.unsqueeze(-2), x2.unsqueeze(-3)).sum(-1)
                + self.b * (x1 @ x2.transpose(-1, -2)))


LARGE_SCALE = 2.0   # common factor of kernel and noise: balances linear_cg's stagnation floor (updates stop once
#                     p^T A p < 1e-10) between mean and covariance, both well below the comparison tolerance


def gen_large(rng, tier):
    """n_train above linear_cg's 10 unconditional iterations: the solver tolerances decide when CG stops.  Problems are
    drawn until Kxx+S passes the iterative-path guards (cond <= COND_MAX, relative eigenvalue gap >= MIN_EIG_GAP)."""
    n, t, d = rng.randint(13, 16 if tier == "quick" else 18), rng.randint(1, 2), rng.randint(1, 2)
    for _ in range(600):
        pts = set()
        while len(pts) < n + t:
            pts.add(tuple(rng.randint(1, 40) / 8.0 for _ in range(d)))
        pts = [list(p) for p in pts]
        rng.shuffle(pts)
        a, b = rng.choice([0.25, 0.5, 1.0, 2.0]), rng.choice([0.0, 0.0625, 0.125, 0.25])
        sp = rng.choice([0.25, 0.375, 0.5])
        noise = [LARGE_SCALE * (0.25 + sp * i) for i in range(n)]
        rng.shuffle(noise)
        X = torch.tensor(pts[:n])
        A = LARGE_SCALE * (a * torch.minimum(X.unsqueeze(-2), X.unsqueeze(-3)).sum(-1) + b * X @ X.T) + torch.diag(torch.tensor(noise))
        ev = torch.linalg.eigvalsh(A)
        if float((ev[1:] - ev[:-1]).min() / ev.abs().max()) >= 1.5 * MIN_EIG_GAP and float(ev.max() / ev.min()) <= 0.8 * COND_MAX:
            break
    return dict(family="large", n=n, t=t, d=d, X=pts[:n], Xs=pts[n:], y=[rng.randint(-16, 16) / 8.0 for _ in range(n)],
                kernel="dyadic(min+dot)", ka=LARGE_SCALE * a, kb=LARGE_SCALE * b, noise=noise, mean=rng.choice(["zero", "constant"]),
                mean_const=rng.randint(-8, 8) / 8.0, lik="fixed", hseed=rng.randint(0, 10 ** 9),
                prelude=rng.choice([None, None, "predict-other"]))


def build_large(case):
    X = torch.tensor(case["X"]); y = torch.tensor(case["y"])
    lik = gpytorch.likelihoods.FixedNoiseGaussianLikelihood(torch.tensor(case["noise"]))
    if case["mean"] == "zero":
        mean = gpytorch.means.ZeroMean()
    else:
        mean = gpytorch.means.ConstantMean(); mean.constant.data.fill_(case["mean_const"])
    model = GP(X, y, lik, mean, DyadicKernel(case["ka"], case["kb"]))
    return model, lik, X, y, torch.tensor(case["Xs"]), None


class MTGP(gpytorch.models.ExactGP):
    def __init__(self, x, y, lik, T, rank, kern):
        super().__init__(x, y, lik)
        self.mean_module = gpytorch.means.MultitaskMean(gpytorch.means.ConstantMean(), num_tasks=T)
        self.covar_module = gpytorch.kernels.MultitaskKernel(kern, num_tasks=T, rank=rank)

    def forward(self, x):
        return gpytorch.distributions.MultitaskMultivariateNormal(self.mean_module(x), self.covar_module(x))


def build_multitask(case):
    rng = random.Random(case["hseed"])
    torch.manual_seed(case["hseed"] % (2 ** 31))
    T = case["tasks"]
    X = torch.tensor(case["X"]); y = torch.tensor(case["y"])
    lik = gpytorch.likelihoods.MultitaskGaussianLikelihood(num_tasks=T, rank=case["noise_rank"])
    lik.noise = rng.uniform(0.05, 0.5)
    if case["noise_rank"] == 0:
        lik.task_noises = torch.tensor([rng.uniform(0.05, 0.5) for _ in range(T)])
    else:
        lik.task_noise_covar_factor.data = torch.tensor([[rng.uniform(-0.7, 0.7)] for _ in range(T)])
    model = MTGP(X, y, lik, T, case["rank"], make_kernel(case["kernel"], case["d"], rng))
    for bm in model.mean_module.base_means:
        bm.constant.data.fill_(rng.uniform(-1, 1))
    model.covar_module.task_covar_module.covar_factor.data = torch.tensor(
        [[rng.uniform(-1, 1) for _ in range(case["rank"])] for _ in range(T)]).reshape(T, case["rank"])
    model.covar_module.task_covar_module.var = torch.tensor([rng.uniform(0.2, 1.5) for _ in range(T)])
    return model, lik, X, y, torch.tensor(case["Xs"]), None


def build_batch(case):
    """batched exact GP: parameters and/or data carry batch dimensions that broadcast"""
    rng = random.Random(case["hseed"])
    pat = case["pattern"]
    pshape, dshape = {"params+data": ((2,), (2,)), "params-only": ((2,), ()), "data-only": ((), (2,)),
                      "data-only,test-shared": ((), (2,)), "params(2,1)xdata(3)": ((2, 1), (3,))}[pat]
    n, t, d = case["n"], case["t"], case["d"]
    full = torch.broadcast_shapes(pshape, dshape)
    k = gpytorch.kernels
    bs = torch.Size(pshape)
    par = lambda lo, hi: torch.tensor([rng.uniform(lo, hi) for _ in range(max(1, bs.numel()))]).reshape(*bs, 1, 1) if bs else rng.uniform(lo, hi)  # noqa: E731
    nm = case["kernel"]
    if nm == "rbf":
        kern = k.RBFKernel(batch_shape=bs); kern.lengthscale = par(0.4, 2.0)
    elif nm == "rbf[ad]":
        kern = k.RBFKernel(batch_shape=bs, active_dims=sorted(rng.sample(range(d), rng.randint(1, d - 1))))
        kern.lengthscale = par(0.4, 2.0)
    elif nm == "matern15":
        kern = k.MaternKernel(nu=1.5, batch_shape=bs); kern.lengthscale = par(0.4, 2.0)
    elif nm == "rq":
        kern = k.RQKernel(batch_shape=bs); kern.lengthscale = par(0.4, 2.0)
        kern.alpha = par(0.5, 3).reshape(*bs, 1) if bs else par(0.5, 3)
    else:
        base = k.RBFKernel(batch_shape=bs); base.lengthscale = par(0.4, 2.0)
        kern = k.ScaleKernel(base, batch_shape=bs)
        kern.outputscale = par(0.3, 3).reshape(bs) if bs else par(0.3, 3)
    if case["mean"] == "zero":
        mean = gpytorch.means.ZeroMean(batch_shape=bs)
    else:
        mean = gpytorch.means.ConstantMean(batch_shape=bs)
        mean.constant.data = torch.tensor([rng.uniform(-2, 2) for _ in range(max(1, bs.numel()))]).reshape(bs)
    # data: element-wise perturbed copies of the base inputs so that batch elements differ
    def expand_pts(pts, shape):
        base = torch.tensor(pts)
        if not shape:
            return base
        reps = [base + 0.125 * i for i in range(torch.Size(shape).numel())]
        return torch.stack(reps).reshape(*shape, *base.shape)
    X = expand_pts(case["X"], dshape)
    Xs = torch.tensor(case["Xs"]) if pat == "data-only,test-shared" else expand_pts(case["Xs"], dshape)
    y = torch.tensor([[rng.randint(-16, 16) / 8.0 for _ in range(n)] for _ in range(torch.Size(full).numel())]).reshape(*full, n)
    if case["lik"] == "gaussian":
        lik = gpytorch.likelihoods.GaussianLikelihood(batch_shape=bs)
        lik.noise = par(0.05, 0.8).reshape(*bs, 1) if bs else par(0.05, 0.8)
    else:
        lik = gpytorch.likelihoods.FixedNoiseGaussianLikelihood(
            torch.tensor([rng.uniform(0.05, 0.8) for _ in range(torch.Size(full).numel() * n)]).reshape(*full, n))
    model = GP(X, y, lik, mean, kern)
    return model, lik, X, y, Xs, None


def build(case):
    if case.get("family") == "multitask":
        return build_multitask(case)
    if case.get("family") == "batch":
        return build_batch(case)
    if case.get("family") == "large":
        return build_large(case)
    rng = random.Random(case["hseed"])
    X = torch.tensor(case["X"]); y = torch.tensor(case["y"])
    lik = make_lik(case["lik"], case["n"], rng)
    mean, kern = make_mean(case["mean"], case["d"], rng), make_kernel(case["kernel"], case["d"], rng, case.get("arch"))
    if case["kernel"].endswith("sgpr"):
        kern = gpytorch.kernels.InducingPointKernel(kern, torch.tensor(case["Z"]), lik)
    model = GP(X, y, lik, mean, kern)
    test_noise = [rng.uniform(0.05, 0.5) for _ in range(case["t"])]
    return model, lik, X, y, torch.tensor(case["Xs"]), torch.tensor(test_noise)


def _joint_inputs(model, X, Xs):
    """[X; X*] with batch shapes broadcast exactly as ExactGP.__call__ does"""
    bshape = torch.broadcast_shapes(X.shape[:-2], Xs.shape[:-2])
    Xe = X.expand(*bshape, *X.shape[-2:]); Xse = Xs.expand(*bshape, *Xs.shape[-2:])
    return torch.cat([Xe, Xse], -2)


def struct_blocks(case):
    """kernels with their own prediction strategy: the blocks of K from the kernel's lazily evaluated joint on [X; X*]
    in EVALUATION mode (what ExactGP.__call__ hands to the strategy).  SGPR (Titsias; documented): train/train =
    Q_xx (+ the diagonal correction, a setting that is on by default), test/train = Q_*x, and the prior covariance of
    the test points is the BASE kernel's K_** (SGPRPredictionStrategy.exact_prediction)."""
    model, lik, X, y, Xs, _ = build(case)
    model.eval(); lik.eval()
    n = case["n"]
    with torch.no_grad():
        joint = model.covar_module(torch.cat([X, Xs], -2))     # LazyEvaluatedKernelTensor
        Kxx = joint[..., :n, :n].to_dense()
        Ksx = joint[..., n:, :n].to_dense()
        if case["kernel"].endswith("sgpr"):
            Kss = model.covar_module.base_kernel(Xs).to_dense()
        else:
            Kss = joint[..., n:, n:].to_dense()
        KJ = torch.cat([torch.cat([Kxx, Ksx.transpose(-1, -2)], -1), torch.cat([Ksx, Kss], -1)], -2)
        mu = model.mean_module(torch.cat([X, Xs], -2))
        A = lik(gpytorch.distributions.MultivariateNormal(mu[:n], to_linear_operator(Kxx)), X).covariance_matrix
    S = [[C.frac(A[i, j].item()) - C.frac(Kxx[i, j].item()) for j in range(n)] for i in range(n)]
    return [(KJ.tolist(), mu.tolist(), S, y.tolist())]


def impl_inputs(case):
    """the model's own prior pieces as exact rationals, one entry per element of the broadcast batch"""
    if case.get("family") == "structured":
        return struct_blocks(case)
    model, lik, X, y, Xs, _ = build(case)
    model.train(); lik.train()
    with torch.no_grad(), gs.debug(False):
        joint = model.forward(_joint_inputs(model, X, Xs))
        KJ = joint.covariance_matrix
        mu = joint.loc
        tp = model.forward(X)
        A = lik(tp, X).covariance_matrix
        Kxx = tp.covariance_matrix
    bshape = torch.broadcast_shapes(KJ.shape[:-2], A.shape[:-2], y.shape[:-(2 if case.get("family") == "multitask" else 1)])
    N, ntr = KJ.shape[-1], A.shape[-1]
    KJ = KJ.expand(*bshape, N, N).reshape(-1, N, N); mu = mu.expand(*bshape, N).reshape(-1, N)
    A = A.expand(*bshape, ntr, ntr).reshape(-1, ntr, ntr); Kxx = Kxx.expand(*bshape, ntr, ntr).reshape(-1, ntr, ntr)
    yy = y.reshape(*y.shape[:-2], -1) if case.get("family") == "multitask" else y
    yy = yy.expand(*bshape, ntr).reshape(-1, ntr)
    res = []
    for b in range(KJ.shape[0]):
        S = [[C.frac(A[b, i, j].item()) - C.frac(Kxx[b, i, j].item()) for j in range(ntr)] for i in range(ntr)]
        res.append((KJ[b].tolist(), mu[b].tolist(), S, yy[b].tolist()))
    return res


def other_state(case):
    """state_dict of the same architecture at OTHER hyperparameter values: every entry of the state_dict (kernel, mean
    and likelihood parameters, RFF feature weights, inducing points) of a model built from another hyperparameter seed,
    except what belongs to the architecture (active_dims, entries whose shape differs)"""
    o = dict(case, hseed=case["hseed"] + 1)
    if "Z" in case:
        o["Z"] = [[v + 0.1875 for v in z] for z in case["Z"]]
    mine = build(case)[0].state_dict()
    theirs = build(o)[0].state_dict()
    return {k: (theirs[k] if k in theirs and theirs[k].shape == v.shape and not k.endswith("active_dims") else v).detach().clone()
            for k, v in mine.items()}


def impl_outputs(case, flags):
    model, lik, X, y, Xs, tn = build(case)
    if case.get("prelude") == "load":
        # the model object starts at other hyperparameter values (loaded before anything was computed), predicts in
        # eval mode, and receives the case's hyperparameters by load_state_dict while staying in eval mode
        mine = {k: v.detach().clone() for k, v in model.state_dict().items()}
        model.load_state_dict(other_state(case))
    model.eval(); lik.eval()
    cms = [FLAGS[f]() for f in flags]
    fam = case.get("family", "single")
    torch.manual_seed(case["hseed"] % (2 ** 31))   # Lanczos probe vectors: the same on replay
    with torch.no_grad(), _multi(*cms):
        pre = case.get("prelude")
        if pre == "load":
            p0 = model(Xs); p0.loc; p0.covariance_matrix
            model.load_state_dict(mine)
        elif pre == "predict-other":
            # an earlier prediction of the SAME model object at other test inputs (one point more, all moved)
            Xo = torch.cat([Xs + 0.3125, Xs[..., :1, :] - 0.4375], -2)
            p0 = model(Xo); p0.loc; p0.covariance_matrix
        elif pre:
            # start from different data, fill the prediction caches, then install the case's data
            y0 = y.flip(0) + 0.5
            other = dict(targets=dict(targets=y0), inputs=dict(inputs=X + 0.375))
            other["inputs+targets"] = dict(inputs=X + 0.375, targets=y0)
            model.set_train_data(strict=False, **other[pre])
            p0 = model(Xs); p0.loc; p0.covariance_matrix
            mine = dict(targets=dict(targets=y), inputs=dict(inputs=X))
            mine["inputs+targets"] = dict(inputs=X, targets=y)
            model.set_train_data(strict=False, **mine[pre])
        post = model(Xs)
        m = post.loc; cov = post.covariance_matrix
        var = post.variance
        if fam == "multitask":
            var = var.reshape(*var.shape[:-2], -1)
        N = m.shape[-1]
        bshape = torch.broadcast_shapes(m.shape[:-1], cov.shape[:-2])
        res = []
        mm = m.expand(*bshape, N).reshape(-1, N); cc = cov.expand(*bshape, N, N).reshape(-1, N, N)
        vv = var.expand(*bshape, N).reshape(-1, N)
        roots = None
        if lanczos_root_path(flags) and fam not in ("multitask", "structured"):   # (their covar_cache is another object)
            # the (already memoised) root the strategy holds: only used to DIAGNOSE a covariance disagreement
            R = model.prediction_strategy.covar_cache.detach()
            roots = R.expand(*bshape, *R.shape[-2:]).reshape(-1, *R.shape[-2:])
        for b in range(mm.shape[0]):
            res.append(dict(mean=mm[b].tolist(), cov=cc[b].tolist(), var=vv[b].tolist(), added=None, noise=None,
                            root=None if roots is None else roots[b].tolist()))
        if fam in ("single", "structured"):
            if case["lik"] == "gaussian":
                marg = lik(post).covariance_matrix
                noise = [lik.noise.item()] * case["t"]
            else:
                marg = lik(post, noise=tn).covariance_matrix
                extra = lik.second_noise.item() if case["lik"] == "fixed+learned" else 0.0
                noise = [v + extra for v in tn.tolist()]
            res[0]["added"] = (marg - post.covariance_matrix).tolist()
            res[0]["noise"] = noise
    return res


def coq_case(n, t, KJ, mu, S, y):
    return "(%d%%nat, %d%%nat, %s, %s, %s, %s)" % (n, t, C.qc_mat(KJ), C.qc_vec(mu), C.qc_mat(S), C.qc_vec(y))


ITERATIVE = {"cg", "cg_eval_tol_only", "fast_pred_var"}
COND_MAX = 300.0  # iterative paths (CG / Lanczos) are only compared on well-conditioned Kxx+S
MIN_EIG_GAP = 1e-2  # ... whose eigenvalues are separated (relative gap), else Lanczos cannot reach full rank


CG_FLAGS = {"cg", "cg_eval_tol_only"}   # Cholesky disabled: solves by CG, roots by Lanczos


def tol(flags):
    if ITERATIVE & set(flags):
        return 1e-5
    return 1e-8


# SGPR is a documented approximation whose prior covariance of the test points is the base kernel's only while the joint is
# a lazily evaluated kernel (SGPRPredictionStrategy.exact_prediction); with eager kernel evaluation the strategy is not
# selected at all.  Its closed form is compared on the lazy paths.
STRUCT_EXCLUDED = {"sgpr": ("eager_kernels",)}
# settings.skip_posterior_variances is documented to give a ZeroLinearOperator covariance; SGPRPredictionStrategy and the
# fast_pred_var branch of InterpolatedPredictionStrategy return the full covariance instead (recorded finding
# C01-skip-variances-structured, fixes_proposed/C01_skip_variances_structured.diff).  The covariance they return is still
# compared with the closed form, so that the finding does not hide anything else on those paths.


def lanczos_root_path(flags):
    """Cholesky disabled AND fast_pred_var: covar_cache is a Lanczos root R of (Kxx+S)^-1 from linear_operator"""
    return bool(CG_FLAGS & set(flags)) and "fast_pred_var" in flags and "skip_variances" not in flags


def inaccurate_lanczos_root(res, KJ, S, ntr):
    """Diagnosis of a covariance disagreement on the Lanczos-root path, on this very case: R = the root the prediction
    strategy holds.  Returns (relative error of R R^T against (Kxx+S)^-1, K** - (K*x R)(K*x R)^T).
    linear_operator's lanczos_tridiag re-orthogonalises only while an inner product exceeds 1e-5 (not at all for
    n = 2), so with an unlucky random probe vector its full-rank root is accurate to 1e-5..1e-4 only; that is outside
    /repo.  What /repo is responsible for on this path is the algebra around R (theorem c01_cov_root_correct: exact for
    ANY root), which is then checked against the root actually returned."""
    R = torch.tensor(res["root"])
    KJt = torch.tensor(KJ)
    A = KJt[:ntr, :ntr] + torch.tensor([[float(v) for v in r] for r in S])
    Ainv = torch.linalg.inv(A)
    rel = float((R @ R.T - Ainv).abs().max() / Ainv.abs().max())
    Q = KJt[ntr:, :ntr] @ R
    return rel, (KJt[ntr:, ntr:] - Q @ Q.T)


def external_kron_root_defect(case, flags):
    """True iff, on this very case, linear_operator's root_inv_decomposition of the train covariance is not a
    root of its inverse (checked densely) - i.e. the disagreement is caused outside /repo."""
    model, lik, X, y, Xs, _ = build(case)
    model.eval(); lik.eval()
    with torch.no_grad(), _multi(*[FLAGS[f]() for f in flags]):
        model(Xs)
        A = model.prediction_strategy.lik_train_train_covar
        R = A.root_inv_decomposition().root.to_dense()
        err = (R @ R.transpose(-1, -2) - torch.linalg.inv(A.to_dense())).abs().max().item()
    return err > 1e-6


def compare(out, case, flags, res, mm, mc, b=0, pr=None):
    t = len(mm)
    a = tol(flags)
    ac = a
    desc = dict(case=case, flags=sorted(flags), batch_element=b)
    path = "+".join(sorted(flags)) or "default"
    if case.get("prelude"):
        path = ("after-prediction-at-other-test-inputs:%s" % path if case["prelude"] == "predict-other" else
                "after-predict+load_state_dict:%s" % path if case["prelude"] == "load" else
                "after-set_train_data(%s):%s" % (case["prelude"], path))
    fam = case.get("family", "single")
    if fam != "single":
        path = fam + (":" + case["pattern"] if fam == "batch" else "") + (":" + case["kernel"] if fam == "structured" else "") + ":" + path
    for i in range(t):
        if not C.close(res["mean"][i], mm[i], a, a):
            out.fail("posterior-mean:%s" % path, "posterior mean differs from the closed-form conditional",
                     desc, impl=res["mean"], model=[float(v) for v in mm])
            break
    if "skip_variances" in flags:
        if any(abs(v) > 0 for r in res["cov"] for v in r):
            out.fail("skip-variances:%s" % path, "skip_posterior_variances did not return a zero covariance", desc,
                     impl=res["cov"])
            if fam == "structured" and any(not C.close(res["cov"][i][j], mc[i][j], ac, ac) for i in range(t) for j in range(t)):
                out.fail("posterior-cov:%s" % path, "posterior covariance (returned although skip_posterior_variances is on) "
                         "differs from K** - K*x (Kxx+S)^-1 Kx*", desc, impl=res["cov"], model=[[float(v) for v in r] for r in mc])
        return
    bad = False
    for i in range(t):
        for j in range(t):
            if not C.close(res["cov"][i][j], mc[i][j], ac, ac):
                bad = True
    if bad and fam == "multitask" and CG_FLAGS & set(flags) and "fast_pred_var" in flags and external_kron_root_defect(case, flags):
        # demonstrated cause outside /repo: linear_operator's root_inv_decomposition of the Kronecker+diag operator
        out.fail("external:linear_operator:KroneckerProductAddedDiag.root_inv_decomposition",
                 "installed linear_operator returns R with R R^T != (Kxx+S)^-1 for a Kronecker multitask train covariance "
                 "when Cholesky is disabled (max_cholesky_size(0)) and fast_pred_var is on; gpytorch's covar_cache inherits it",
                 desc, impl=res["cov"], model=[[float(v) for v in r] for r in mc])
        return
    if bad and fam != "multitask" and lanczos_root_path(flags) and res.get("root") is not None and pr is not None:
        rel, cov_r = inaccurate_lanczos_root(res, pr[0], pr[1], len(pr[1]))
        if 1e-6 < rel < 1e-2 and all(C.close(res["cov"][i][j], cov_r[i, j].item(), 1e-8, 1e-8) for i in range(t) for j in range(t)):
            out.count("rejected: linear_operator's Lanczos root R of (Kxx+S)^-1 is off by 1e-6..1e-2 (relative) on this case; "
                      "the covariance agrees (1e-8) with K** - (K*x R)(K*x R)^T for that R")
            bad = False
            mc, ac = cov_r.tolist(), 1e-8
    if bad:
        out.fail("posterior-cov:%s" % path, "posterior covariance differs from K** - K*x (Kxx+S)^-1 Kx*", desc,
                 impl=res["cov"], model=[[float(v) for v in r] for r in mc])
    # variance = diag, clamped at min_variance (1e-10 in double)
    for i in range(t):
        if not C.close(res["var"][i], max(float(mc[i][i]), 1e-10), ac, ac):
            out.fail("posterior-var:%s" % path, "posterior variance differs from the diagonal of the conditional", desc,
                     impl=res["var"], model=[float(mc[k][k]) for k in range(t)])
            break
    if res.get("added") is None:
        return
    # likelihood(posterior) adds exactly the observation noise, once
    for i in range(t):
        for j in range(t):
            want = res["noise"][i] if i == j else 0.0
            if not C.close(res["added"][i][j], want, 1e-9, 1e-9):
                out.fail("marginal-noise:%s:%s" % (case["lik"], path),
                         "likelihood(posterior) does not add exactly the observation noise", desc,
                         impl=res["added"], model=res["noise"])
                return


def run(out, ctx):
    tier, seed = ctx["tier"], ctx["seed"]
    rng = random.Random(seed * 7919 + 1)
    nc = dict(single=40, batch=10, multitask=10, structured=12, large=5) if tier == "quick" else \
        dict(single=400, batch=120, multitask=100, structured=120, large=14)
    flagnames = sorted(FLAGS)
    cases = [gen_case(rng, tier, fam, i) for fam in ("single", "batch", "multitask", "structured") for i in range(nc[fam])]
    cases += [gen_large(rng, tier) for _ in range(nc["large"])]
    prior = [impl_inputs(c) for c in cases]
    coq_cases, owner = [], []
    for ci, (c, els) in enumerate(zip(cases, prior)):
        for b, (KJ, mu, S, y) in enumerate(els):
            ntr = len(S)
            coq_cases.append(coq_case(ntr, len(mu) - ntr, KJ, mu, S, y)); owner.append((ci, b))
    # the large cases (one exact 13..18-dimensional inversion each) get a coqc of their own, next to the small ones
    big = [k for k, (ci, _) in enumerate(owner) if cases[ci]["family"] == "large"]
    small = [k for k in range(len(owner)) if k not in set(big)]
    with ThreadPoolExecutor(max_workers=2) as ex:
        f_small = ex.submit(C.coq_run_cases, "C01", IMPORTS, RUN_DEF, [coq_cases[k] for k in small], 6)
        f_big = ex.submit(C.coq_run_cases, "C01_large", IMPORTS, RUN_DEF, [coq_cases[k] for k in big], 1)
        res = [None] * len(owner)
        for ks, f in ((small, f_small), (big, f_big)):
            for k, r in zip(ks, f.result()):
                res[k] = r
    out.rule = ("random exact-GP problems: single-output (n<=%d, t<=3, d<=3, %d kernels - %d of them restricted to a proper subset "
                "of the input columns by active_dims, on the top-level kernel or on the parts of a sum/product - x 3 means x 3 "
                "likelihoods), batched (5 parameter/data broadcast patterns, every batch element compared with its own closed "
                "form), Kronecker multitask (2 tasks, task-kernel rank 0/1, task-noise rank 0/1) and STRUCTURED kernels with a "
                "prediction strategy of their own (RFFKernel, GridInterpolationKernel on a fixed grid in 1-d/2-d, "
                "InducingPointKernel, each bare and inside ScaleKernel, every one in every run, x 3 means - the first round "
                "with a prior mean that is not zero - x 3 likelihoods; K = the blocks of the kernel's own lazily evaluated "
                "joint in eval mode, for SGPR with the base kernel's K** as documented); two thirds of the "
                "single-output cases first predict on other data and then install the case's data with set_train_data "
                "(targets only / inputs only / inputs and targets) or first predict at other test inputs on the same model "
                "object, or first predict at OTHER hyperparameter values and then receive the case's by load_state_dict "
                "while staying in eval mode (half of the batched / multitask cases do one of the last two, the structured "
                "cases any but inputs-only); each under the default settings, every "
                "single non-default flag (incl. CG with only eval_cg_tolerance tight and cg_tolerance at its default, and "
                "settings.debug(False)) and random flag subsets; non-trivial = n_train>=2 and posterior variance differs "
                "from the prior by >1e-6; plus %d LARGE problems (n_train 13..%d, above the 10 iterations linear_cg runs before "
                "it looks at its tolerance, so that the CG tolerances decide when the solver stops): exact dyadic "
                "Brownian+linear kernel, dyadic fixed noise, drawn until Kxx+S passes the iterative-path guards; compared under "
                "the default (Cholesky) path, both CG variants and the evaluation-tolerance-only variant with random other flags"
                % (5 if tier == "quick" else 7, len(KERNELS), len(ACTIVE_DIM_KERNELS), nc["large"], 16 if tier == "quick" else 18))
    out.extra["tolerances"] = {"dense/cholesky": 1e-8, "cg or lanczos(full rank), cond<=%g, relative eigenvalue gap>=%g" % (COND_MAX, MIN_EIG_GAP): 1e-5,
                                "covariance from a Lanczos root R of (Kxx+S)^-1 (Cholesky disabled + fast_pred_var)":
                                    "1e-5 against the closed form; where linear_operator's R is itself off by 1e-6..1e-2: 1e-8 against K** - (K*x R)(K*x R)^T",
                                "marginal noise": 1e-9}
    model_by_case = {}
    for (ci, b), r in zip(owner, res):
        rd = C.Reader(r)
        KJ, mu, S, y = prior[ci][b]
        ntr = len(S); t = len(mu) - ntr
        if rd.int() != 1:
            out.fail("model:singular", "model could not invert Kxx+S (exact rational)", cases[ci])
            continue
        mm = rd.qs(t); mc = rd.qmat(t, t)
        A = torch.tensor([[KJ[i][j] + float(S[i][j]) for j in range(ntr)] for i in range(ntr)])
        ev = torch.linalg.eigvalsh((A + A.T) / 2)
        gap = float(((ev[1:] - ev[:-1]).min() / ev.abs().max())) if ntr >= 2 else 1.0
        # Lanczos/CG reach full rank in n steps only when the spectrum of Kxx+S is separated: a (nearly) repeated
        # eigenvalue makes the Krylov space smaller than n, the root is then low rank and the path is not an exact
        # algorithm (the property compares iterative paths only "at full rank where they are exact algorithms").
        # Encoded as an infinite condition number so that the iterative flags are skipped for this case.
        cnd = float(torch.linalg.cond(A)) if gap >= MIN_EIG_GAP else float("inf")
        model_by_case.setdefault(ci, {})[b] = (mm, mc, cnd,
                                               ntr >= 2 and any(abs(float(mc[i][i]) - KJ[ntr + i][ntr + i]) > 1e-6 for i in range(t)))
    for ci, case in enumerate(cases):
        if ci not in model_by_case:
            continue
        els = model_by_case[ci]
        cond = max(v[2] for v in els.values())
        if case["family"] == "large":
            # the dense default, both CG variants, and the evaluation-tolerance-only variant with random other flags
            rest = [f for f in flagnames if f not in ITERATIVE]
            combos = [(), ("cg",), ("cg_eval_tol_only",)]
            for _ in range(2 if tier == "quick" else 4):
                combos.append(tuple(sorted(["cg_eval_tol_only"] + [f for f in rest if rng.random() < 0.4])))
        else:
            names = [f for f in flagnames if f not in STRUCT_EXCLUDED.get(case["kernel"].split("_")[-1], ())]
            combos = [()] + [(f,) for f in names]
            for _ in range(2 if tier == "quick" else 6):
                combos.append(tuple(f for f in names if rng.random() < 0.4))
        for flags in combos:
            if cond > COND_MAX and ITERATIVE & set(flags):
                out.count("rejected: cond(Kxx+S)>%g or relative eigenvalue gap<%g on an iterative path" % (COND_MAX, MIN_EIG_GAP))
                continue
            fam = case["family"]
            out.case(dict(family=fam, n=case["n"], t=case["t"], d=case["d"], kernel=case["kernel"], mean=case["mean"],
                          lik=case["lik"], pattern=case.get("pattern"), prelude=case.get("prelude"), flags=sorted(flags)),
                     any(v[3] for v in els.values()), label="flags=" + ("+".join(sorted(flags)) or "default"))
            out.count("family=" + fam); out.count("kernel=" + case["kernel"]); out.count("lik=" + case["lik"])
            out.count("n=%d" % case["n"])
            if fam == "batch":
                out.count("pattern=" + case["pattern"])
            if case.get("prelude"):
                out.count("prelude=" + case["prelude"])
            try:
                got = impl_outputs(case, flags)
            except Exception as e:  # the implementation rejects a configuration the property covers
                out.fail("impl-exception:%s:%s:%s" % (fam, type(e).__name__, "+".join(sorted(flags))),
                         "implementation raised %r" % e, dict(case=case, flags=sorted(flags)))
                continue
            if len(got) != len(els):
                out.fail("batch-shape:%s" % fam, "posterior batch size %d differs from the broadcast batch %d" % (len(got), len(els)),
                         dict(case=case, flags=sorted(flags)))
                continue
            for b, (mm, mc, _, _) in els.items():
                compare(out, case, set(flags), got[b], mm, mc, b, prior[ci][b][0::2])
    out.tested_not_proved = ["agreement of torch/linear_operator numerics (Cholesky, CG, Lanczos) with exact algebra",
                             "which solver tolerance is in force when a train-only cache is filled (eval_cg_tolerance inside "
                             "ExactGP.__call__, cg_tolerance left at its default): tested on the n_train 13..16 problems, where "
                             "linear_cg consults its tolerance",
                             "set_train_data / earlier predictions leave nothing behind that the compared prediction uses "
                             "(proved for the cache state machine in C03; here tested on values)"]


def replay(path):
    d = json.load(open(path))
    case, flags, b = d["case"]["case"], d["case"]["flags"], d["case"].get("batch_element", 0)
    KJ, mu, S, y = impl_inputs(case)[b]
    ntr = len(S); t = len(mu) - ntr
    r = C.coq_run_cases("C01_replay", IMPORTS, RUN_DEF, [coq_case(ntr, t, KJ, mu, S, y)])[0]
    rd = C.Reader(r); rd.int()
    mm = rd.qs(t); mc = rd.qmat(t, t)
    got = impl_outputs(case, flags)[b]
    print("flags", flags, "batch element", b)
    print("impl mean ", got["mean"]); print("model mean", [float(v) for v in mm])
    print("impl cov  ", got["cov"]); print("model cov ", [[float(v) for v in r] for r in mc])
    out = C.Outcome("C01", "quick", 0)
    compare(out, case, set(flags), got, mm, mc, b, (KJ, S))
    print("FAILS" if out.failures else "agrees")
    return 1 if out.failures else 0
