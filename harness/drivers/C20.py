"""C20 — global settings are scoped (ties T + C).

Tie T: `pregen` regenerates coq/Gen/Settings_gen.v from the current sources with the fail-closed
translator; Proofs/C20_gen.v re-computes the per-class restore obligation on it, Props/C20.v lifts it
to all programs.  Tie C / search (this file): programs of with-blocks are executed
  (I) on the REAL classes (gpytorch.settings, gpytorch.beta_features, linear_operator.settings),
  (M) on the Coq model of the regenerated table (Models/C20_run.v: run_case, vm_compute),
  (S) on a 60-line reference semantics of the property itself (dynamic scoping: a block shows what
      its arguments request, everything else shows the enclosing value, after the block -- normal or
      exceptional exit -- the enclosing value is back, outside all blocks the documented default),
and compared on the public queries on()/off()/value(..)/num_probe_vectors() before, inside and after
every block.  I vs M validates the translation the theorems are about; I vs S is the property-level
search that produces the replay program when a source change breaks scoping (the model, being a
translation of the changed source, would faithfully reproduce the leak).

Besides with-blocks a program may contain
  ("esc", b, body)   with warnings.catch_warnings(): warnings.simplefilter("error" if b else "ignore"); body
  ("try", body)      try: body  except Exception: pass
(model: PEsc / PTry).  `warnings.warn` in a settings class is a potential raise point: with warnings turned
into errors the header of a with-statement (constructor, __enter__) may raise, and Python then runs NO
__exit__ -- whatever the header wrote stays.  Every with-header that raises, for whatever reason, is checked
directly: every query of the group answers afterwards as before the with-statement."""
import fractions
import importlib
import inspect
import itertools
import json
import os
import random
import types
import warnings

import torch

from harness.lib import common as C

COQ_TARGETS = ["Models/C20_run.vo", "Models/C20_request.vo"]
LEVEL_NOTE = ("theorems are about the class table regenerated from the Python sources by an ast translator "
              "(trusted: its reading of attribute lookup / with-statement semantics, validated on every run by "
              "executing the same programs on the real classes and on the model)")
IMPORTS = ("From Coq Require Import List String ZArith Bool.\n"
           "From GPV Require Import Models.C20_ir Models.C20_check Models.C20_run Gen.Settings_gen.\n"
           "Open Scope string_scope.")

MODS = [("lo", "linear_operator.settings"), ("gp", "gpytorch.settings"), ("bf", "gpytorch.beta_features")]
# documented composites (same table as Models/C20_check.v: doc_composites)
COMPOSITES = {
    "lo.fast_computations": ["lo._fast_covar_root_decomposition", "lo._fast_log_prob", "lo._fast_solves"],
    "lo.linalg_dtypes": ["lo._linalg_dtype_symeig", "lo._linalg_dtype_cholesky"],
}
DT = {"float32": torch.float32, "float64": torch.float64, "float16": torch.float16}
DT_INV = {v: k for k, v in DT.items()}
RAISED = "<raised>"


class Boom(Exception):
    """the exception a program raises at a block boundary"""


# --------------------------------------------------------------------------- translator (tie T)

LAST_GOOD = os.path.join(C.BUILD, "C20_last_good_Settings_gen.v")
GEN = os.path.join(C.COQ, "Gen", "Settings_gen.v")


def pregen(out):
    from harness.translators import settings_tr
    try:
        info = settings_tr.generate(C.REPO)          # raises common.Unparsed outside the subset
    except C.Unparsed:
        # no model of the current source: the theorem files must not be judged on whatever table an earlier
        # run left behind -> put back the last table whose obligations were discharged
        if os.path.exists(LAST_GOOD) and open(LAST_GOOD).read() != open(GEN).read():
            open(GEN, "w").write(open(LAST_GOOD).read())
        raise
    if out is not None:
        out.extra["translated_classes"] = len(info["classes"])
        out.extra["translated_exports"] = len(info["exports"])
    return info


# --------------------------------------------------------------------------- values

def jval(v):
    """python value -> JSON-able description (used in programs / replays)"""
    if isinstance(v, torch.dtype):
        return {"dtype": DT_INV.get(v, str(v))}
    return v


def pyval(j):
    if isinstance(j, dict):
        return DT[j["dtype"]]
    return j


def enc(v):
    """encode a python value exactly as Models/C20_run.v: ser_val encodes the model's value"""
    if v is None:
        return [0]
    if v is True or v is False:
        return [1, int(v)]
    if isinstance(v, (int, float)) and not isinstance(v, bool):
        if v != v or v in (float("inf"), float("-inf")):
            return [7]
        f = fractions.Fraction(repr(v)) if isinstance(v, float) else fractions.Fraction(v)
        return [2, f.numerator, f.denominator]
    if isinstance(v, str):
        if v == RAISED:
            return [6, 6] + [ord(c) for c in "raised"]
        return [3, len(v)] + [ord(c) for c in v]
    if isinstance(v, torch.dtype) and v in DT_INV:
        s = DT_INV[v]
        return [4, len(s)] + [ord(c) for c in s]
    return [7]


def split_vals(ints, i, k):
    """read k serialised values starting at ints[i]; returns (list of token lists, new index)"""
    vals = []
    for _ in range(k):
        t = ints[i]
        n = {0: 1, 1: 2, 2: 3, 7: 1}.get(t)
        if n is None:
            n = 2 + ints[i + 1]
        vals.append(ints[i:i + n])
        i += n
    return vals, i


def show(tok):
    t = tok[0]
    if t == 0:
        return "None"
    if t == 1:
        return str(bool(tok[1]))
    if t == 2:
        return str(fractions.Fraction(tok[1], tok[2]))
    if t in (3, 4, 5, 6):
        s = "".join(chr(c) for c in tok[2:])
        return {3: repr(s), 4: "torch." + s, 5: "<class %s>" % s, 6: "<%s>" % s}[t]
    return "<other>"


def coq_str(s):
    return '"' + s.replace('"', '""') + '"'


def coq_const(j):
    v = pyval(j)
    if v is None:
        return "KNone"
    if v is True or v is False:
        return "(KBool %s)" % ("true" if v else "false")
    if isinstance(v, (int, float)):
        f = fractions.Fraction(repr(v)) if isinstance(v, float) else fractions.Fraction(v)
        return "(KNum %s %d)" % (C.z_lit(f.numerator), f.denominator)
    if isinstance(v, str):
        return "(KStr %s)" % coq_str(v)
    if isinstance(v, torch.dtype):
        return "(KDtype %s)" % coq_str(DT_INV[v])
    raise ValueError("no model constant for %r" % (v,))


_NAMES = {}


def nm(s):
    """short Coq identifier standing for the string s (defined once per file: see name_defs)"""
    if s not in _NAMES:
        _NAMES[s] = "s%d" % len(_NAMES)
    return _NAMES[s]


def name_defs():
    return "\n".join("Definition %s : string := %s." % (v, coq_str(k)) for k, v in _NAMES.items())


def coq_prog(items):
    ts = []
    for it in items:
        if it[0] == "obs":
            ts.append("PObserve")
        elif it[0] == "raise":
            ts.append("PRaise")
        elif it[0] == "esc":
            ts.append("(PEsc %s %s)" % ("true" if it[1] else "false", coq_prog(it[2])))
        elif it[0] == "try":
            ts.append("(PTry %s)" % coq_prog(it[1]))
        else:
            _, cid, args, body = it
            a = "; ".join("(%s, VK %s)" % (nm(p), coq_const(v)) for p, v in args)
            ts.append("(PWith %s [%s] %s)" % (nm(cid), a, coq_prog(body)))
    if not ts:
        return "PSkip"
    t = ts[-1]
    for x in reversed(ts[:-1]):
        t = "(PSeq %s %s)" % (x, t)
    return t


def coq_queries(qs):
    return "[" + "; ".join("(%s, %s, [%s])" % (coq_str(c), coq_str(m), "; ".join("KDtype " + coq_str(a) for a in args))
                           for c, m, args in qs) + "]"


def prog_text(items, ind=0):
    """the program as python source (for reports)"""
    L = []
    for it in items:
        if it[0] == "obs":
            continue
        if it[0] == "raise":
            L.append(" " * ind + "raise Boom()")
        elif it[0] == "esc":
            L.append(" " * ind + "with warnings.catch_warnings():")
            L.append(" " * (ind + 4) + "warnings.simplefilter(%r)" % ("error" if it[1] else "ignore"))
            inner = prog_text(it[2], ind + 4)
            if inner:
                L.append(inner)
        elif it[0] == "try":
            L.append(" " * ind + "try:")
            inner = prog_text(it[1], ind + 4)
            L.append(inner if inner else " " * (ind + 4) + "pass")
            L.append(" " * ind + "except Exception:")
            L.append(" " * (ind + 4) + "pass")
        else:
            _, cid, args, body = it
            pre, nm = cid.split(".", 1)
            mod = dict(MODS)[pre]
            a = ", ".join("%s=%s" % (p, ("torch." + v["dtype"]) if isinstance(v, dict) else repr(v)) for p, v in args)
            L.append(" " * ind + "with %s.%s(%s):" % (mod, nm, a))
            inner = prog_text(body, ind + 4)
            L.append(inner if inner else " " * (ind + 4) + "pass")
    return "\n".join(L)


# --------------------------------------------------------------------------- the real classes

class World:
    """the real classes, their pristine state, queries, kinds and argument sets"""

    def __init__(self):
        self.real = {}
        for pre, mn in MODS:
            m = importlib.import_module(mn)
            for nm, obj in list(vars(m).items()):
                if inspect.isclass(obj) and obj.__module__ == mn:
                    self.real["%s.%s" % (pre, nm)] = obj
        cls = self.real
        self.usable = [c for c, k in cls.items()
                       if hasattr(k, "__enter__") and hasattr(k, "__exit__")
                       and not any(o is not k and issubclass(o, k) for o in cls.values())]
        self.pristine = {c: self._state(k) for c, k in cls.items()}
        self.queries = {c: self._queries(c, cls[c]) for c in self.usable}
        self.all_queries = [q for c in self.usable for q in self.queries[c]]
        self.reset(all_classes=True)
        self.default = {q: self.ask(q) for q in self.all_queries}
        self.kind = {c: self._kind(c, cls[c]) for c in self.usable}
        self.special = [c for c in self.usable
                        if any(isinstance(v, (types.FunctionType, classmethod, staticmethod))
                               for v in vars(cls[c]).values())]

    @staticmethod
    def _is_state(k, v):
        return not (k.startswith("__") or isinstance(v, (types.FunctionType, classmethod, staticmethod, property)))

    def _state(self, k):
        return {a: v for a, v in vars(k).items() if self._is_state(a, v)}

    def reset(self, classes=None, all_classes=False):
        for c in (self.real if all_classes else classes):
            k = self.real[c]
            want = self.pristine[c]
            cur = vars(k)
            for a in [a for a, v in cur.items() if self._is_state(a, v) and a not in want]:
                delattr(k, a)
            for a, v in want.items():
                if cur.get(a, World) is not v:
                    setattr(k, a, v)

    def _queries(self, cid, k):
        qs = []
        if hasattr(k, "on"):
            qs += [(cid, "on", ()), (cid, "off", ())]
        if hasattr(k, "is_default"):
            qs.append((cid, "is_default", ()))
        if hasattr(k, "num_probe_vectors"):
            qs.append((cid, "num_probe_vectors", ()))
        if hasattr(k, "value"):
            try:
                ps = list(inspect.signature(k.value).parameters)
            except (TypeError, ValueError):
                ps = []
            if "dtype" in ps:
                qs += [(cid, "value", (d,)) for d in ("float32", "float64", "float16")]
            else:
                qs.append((cid, "value", ()))
        return qs

    def ask(self, q):
        c, m, args = q
        try:
            return getattr(self.real[c], m)(*[DT[a] for a in args])
        except Exception:
            return RAISED

    def snapshot(self, qs):
        return [self.ask(q) for q in qs]

    def _kind(self, cid, k):
        try:
            sig = inspect.signature(k.__init__)
        except (TypeError, ValueError):
            return "unknown"
        ps = [p for p in list(sig.parameters.values())[1:]]
        if any(p.kind in (p.VAR_POSITIONAL, p.VAR_KEYWORD) for p in ps):
            return "unknown"
        names = [p.name for p in ps]
        bases = [b.__name__ for b in k.__mro__]
        if "_feature_flag" in bases:
            if names == ["state"]:
                return "flag"
            if names == ["state", "num_probe_vectors"] and hasattr(k, "num_probe_vectors"):
                return "flag_npv"
            return "unknown"
        if "_value_context" in bases:
            if names != ["value"]:
                return "unknown"
            d = self.default.get((cid, "value", ()))
            if isinstance(d, str):
                return "value_str"
            if isinstance(d, torch.dtype):
                return "value_dtype"
            return "value"
        if "_dtype_value_context" in bases:
            return "dtype" if names == ["float_value", "double_value", "half_value"] else "unknown"
        if cid == "lo.fast_computations" and names == ["covar_root_decomposition", "log_prob", "solves"]:
            return "fastcomp"
        if cid == "lo.linalg_dtypes" and names == ["default", "symeig", "cholesky"]:
            return "linalg"
        return "unknown"

    def ctor_params(self, cid):
        try:
            return [p for p in list(inspect.signature(self.real[cid].__init__).parameters)[1:]]
        except (TypeError, ValueError):
            return []

    # argument sets: `core` (3 per class, used in the exhaustive product) and `ext` (every parameter
    # omitted / default / two other values / None / one invalid value, an unknown keyword)
    def argsets(self, cid):
        k = self.kind[cid]
        f32, f64, f16 = {"dtype": "float32"}, {"dtype": "float64"}, {"dtype": "float16"}
        if k == "flag":
            core = [{"state": False}, {"state": True}, {"state": None}]
            ext = [{}, {"state": "x"}, {"bogus": 1}]
        elif k == "flag_npv":
            core = [{"state": True, "num_probe_vectors": 5}, {"state": False, "num_probe_vectors": 9}, {"state": None}]
            ext = [{}, {"num_probe_vectors": 7}, {"num_probe_vectors": None}, {"state": "x", "num_probe_vectors": 3},
                   {"state": True}, {"state": False, "num_probe_vectors": 1}, {"bogus": 1}]
        elif k == "value":
            d = self.default.get((cid, "value", ()))
            core = [{"value": 3}, {"value": 11}, {"value": None}]
            ext = [{}, {"value": jval(d)}, {"value": 0.5}, {"value": "bogus"}, {"value": 3, "bogus": 1}]
        elif k == "value_str":
            core = [{"value": "mask"}, {"value": "fill"}, {"value": "ignore"}]
            ext = [{}, {"value": None}, {"value": "bogus"}, {"value": 3}, {"value": "mask", "bogus": 1}]
        elif k == "value_dtype":
            core = [{"value": f32}, {"value": f16}, {"value": None}]
            ext = [{}, {"value": f64}, {"value": "bogus"}]
        elif k == "dtype":
            core = [{"float_value": 0.5, "half_value": 0.25}, {"double_value": 0.125, "half_value": None},
                    {"half_value": 0.5, "float_value": None}]
            ext = [{}, {"float_value": 0.5}, {"double_value": 0.25}, {"half_value": 0.125},
                   {"float_value": None, "double_value": None, "half_value": None},
                   {"float_value": 2, "double_value": 3, "half_value": 4}, {"half_value": "x"}, {"bogus": 1}]
        elif k == "fastcomp":
            core = [{"covar_root_decomposition": False, "log_prob": True, "solves": False},
                    {"covar_root_decomposition": True, "log_prob": False}, {"solves": None, "covar_root_decomposition": False}]
            ext = [{}, {"covar_root_decomposition": False}, {"log_prob": False}, {"solves": False},
                   {"covar_root_decomposition": False, "log_prob": False, "solves": False}, {"bogus": 1}]
        elif k == "linalg":
            core = [{"default": f32}, {"default": f16, "symeig": f64}, {"cholesky": f32}]
            ext = [{}, {"symeig": f16, "cholesky": f16}, {"default": None}, {"default": f32, "symeig": None, "cholesky": f16},
                   {"bogus": 1}]
        else:
            ps = self.ctor_params(cid)
            core = [{p: True for p in ps}, {p: 3 for p in ps}, {p: None for p in ps}]
            ext = [{}, {"bogus": 1}]
        return core, ext


def footprint(items):
    fp = []
    for it in items:
        if it[0] == "with":
            for c in [it[1]] + COMPOSITES.get(it[1], []):
                if c not in fp:
                    fp.append(c)
            for c in footprint(it[3]):
                if c not in fp:
                    fp.append(c)
        elif it[0] in ("esc", "try"):
            for c in footprint(it[-1]):
                if c not in fp:
                    fp.append(c)
    return fp


def run_real(W, items, qs, extra_qs=(), info=None):
    """execute on the real classes.  Returns (outcome, [snapshot at every obs], final snapshot,
    [bystander snapshot at every obs]).  info (a dict, optional) receives
      hdr   : per with-statement reached, in execution order: did its header (constructor / __enter__) raise
      leaks : (class, args, query, before, after) for every query of qs that a raising header changed"""
    trace, by, hdr, leaks = [], [], [], []

    def go(its):
        for it in its:
            if it[0] == "obs":
                trace.append(W.snapshot(qs))
                if extra_qs:
                    by.append(W.snapshot(extra_qs))
            elif it[0] == "raise":
                raise Boom()
            elif it[0] == "esc":
                with warnings.catch_warnings():
                    warnings.simplefilter("error" if it[1] else "ignore")
                    go(it[2])
            elif it[0] == "try":
                try:
                    go(it[1])
                except Exception:
                    pass
            else:
                _, cid, args, body = it
                before = W.snapshot(qs)
                i = len(hdr)
                hdr.append(True)
                try:
                    with W.real[cid](**{p: pyval(v) for p, v in args}):
                        hdr[i] = False
                        go(body)
                except Exception:
                    if hdr[i]:
                        for q, x, y in zip(qs, before, W.snapshot(qs)):
                            if not same(x, y):
                                leaks.append((cid, args, q, x, y))
                    raise
    try:
        go(items)
        o = 0
    except Exception:
        o = 1
    if info is not None:
        info["hdr"], info["leaks"] = hdr, leaks
    return o, trace, W.snapshot(qs), by


# --------------------------------------------------------------------------- the property as a reference semantics

class NoSpec(Exception):
    pass


class CtorError(Exception):
    pass


def spec_enter(W, cid, kw, vis):
    """what the block `with cid(**kw)` requests, as an update of the visible values (query -> value)"""
    k = W.kind[cid]
    new = dict(vis)

    def only(*names):
        if any(p not in names for p in kw):
            raise CtorError()

    def flag(c, state):
        on = W.default[(c, "on", ())] if state is None else state
        new[(c, "on", ())] = on
        new[(c, "off", ())] = not on
        if (c, "is_default", ()) in new:
            new[(c, "is_default", ())] = state is None
    if k in ("flag", "flag_npv"):
        only("state", "num_probe_vectors") if k == "flag_npv" else only("state")
        flag(cid, kw.get("state", True))
        if k == "flag_npv":
            new[(cid, "num_probe_vectors", ())] = kw.get("num_probe_vectors", 1)
    elif k in ("value", "value_str", "value_dtype"):
        only("value")
        if "value" not in kw:
            raise CtorError()
        if k == "value_str" and not (isinstance(kw["value"], str) and kw["value"] in ("ignore", "mask", "fill")):
            raise CtorError()
        new[(cid, "value", ())] = kw["value"]
    elif k == "dtype":
        only("float_value", "double_value", "half_value")
        for p, d in (("float_value", "float32"), ("double_value", "float64"), ("half_value", "float16")):
            if kw.get(p) is not None:
                new[(cid, "value", (d,))] = kw[p]
    elif k == "fastcomp":
        only("covar_root_decomposition", "log_prob", "solves")
        for p, c in zip(("covar_root_decomposition", "log_prob", "solves"), COMPOSITES[cid]):
            flag(c, kw.get(p, True))
    elif k == "linalg":
        only("default", "symeig", "cholesky")
        d = kw.get("default", torch.float64)
        for p, c in zip(("symeig", "cholesky"), COMPOSITES[cid]):
            new[(c, "value", ())] = d if kw.get(p) is None else kw[p]
    else:
        raise NoSpec(cid)
    return new


def run_spec(W, items, qs, hdr=()):
    """hdr: which with-headers raised on the real classes (execution order).  The property does not say WHICH
    classes emit warnings; where warnings are errors a header that raised is taken as given -- what the property
    requires then is that nothing has changed (the body is not run, the enclosing values stay visible)."""
    trace = []
    hdr = iter(hdr)

    def go(its, vis, esc):
        for it in its:
            if it[0] == "obs":
                trace.append([vis[q] for q in qs])
            elif it[0] == "raise":
                raise Boom()
            elif it[0] == "esc":
                go(it[2], vis, bool(it[1]))
            elif it[0] == "try":
                try:
                    go(it[1], vis, esc)
                except (Boom, CtorError):
                    pass
            else:
                _, cid, args, body = it
                h = next(hdr, False)
                new = spec_enter(W, cid, {p: pyval(v) for p, v in args}, vis)
                if h and esc:
                    raise CtorError()
                go(body, new, esc)
    vis0 = dict(W.default)
    try:
        go(items, vis0, False)
        o = 0
    except (Boom, CtorError):
        o = 1
    return o, trace, [vis0[q] for q in qs]


# --------------------------------------------------------------------------- program enumeration

def forests(n, d):
    """ordered forests with n nodes and depth <= d; a tree is the list of its children"""
    if n == 0:
        yield []
        return
    if d == 0:
        return
    for k in range(1, n + 1):
        for ch in forests(k - 1, d - 1):
            for rest in forests(n - k, d):
                yield [ch] + rest


def instantiate(forest, labels, raise_at):
    """labels: iterator of (cid, argdict) in pre-order; an observation at the start of every body and after
    every block; raise_at = index of the in-body boundary after which the exception is raised (or None)"""
    cnt = [0]
    lab = iter(labels)

    def seq(trees, inside):
        its = [("obs",)]
        if inside:
            if cnt[0] == raise_at:
                its.append(("raise",))
            cnt[0] += 1
        for t in trees:
            cid, kw = next(lab)
            its.append(("with", cid, sorted(kw.items()), seq(t, True)))
            its.append(("obs",))
            if inside:
                if cnt[0] == raise_at:
                    its.append(("raise",))
                cnt[0] += 1
        return its
    return seq(forest, False)


def n_boundaries(forest):
    """number of in-body boundaries (start of every body + after every non-top-level block)"""
    def cnt(trees, inside):
        return (1 if inside else 0) + sum((1 if inside else 0) + cnt(t, True) for t in trees)
    return cnt(forest, False)


def size(forest):
    return sum(1 + size(t) for t in forest)


def programs_for_group(labels, nmax, depth, rng=None, sample=None):
    """all labelled forests with <= nmax nodes over `labels`, every raise position (and none)"""
    for n in range(1, nmax + 1):
        fs = list(forests(n, depth))
        combos = [(f, lab) for f in fs for lab in itertools.product(labels, repeat=n)]
        if sample is not None and len(combos) > sample:
            combos = rng.sample(combos, sample)
        for f, lab in combos:
            for r in [None] + list(range(n_boundaries(f))):
                yield instantiate(f, lab, r)


def _has_raise(items):
    return any(it[0] == "raise" for it in _flatten(items))


def _is_variant(items):
    return any(it[0] in ("esc", "try") for it in _flatten(items))


def _replace_block(items, j, f):
    """copy of items with the j-th with-block (pre-order) replaced by f(block)"""
    cnt = [0]

    def go(its):
        out = []
        for it in its:
            if it[0] == "with":
                k = cnt[0]
                cnt[0] += 1
                out.append(f(it) if k == j else ("with", it[1], it[2], go(it[3])))
            elif it[0] == "esc":
                out.append(("esc", it[1], go(it[2])))
            elif it[0] == "try":
                out.append(("try", go(it[1])))
            else:
                out.append(it)
        return out
    return go(items)


def variants(items, deep=False):
    """programs derived from a program of with-blocks that change the warning filter and / or catch the exception:
      - warnings are errors around the whole program (and: warnings ignored, for 1-block programs);
      - for every block B:  try: (warnings are errors: B) except: pass   -- a header that raises because of a
        warning is caught inside the enclosing block, whose remaining observations must show ITS values;
      - for every block B that contains a raise (all blocks when deep):  try: B except: pass;
      - deep: warnings are errors around B only, exception not caught."""
    blocks = list(_blocks(items))
    out = [[("esc", True, items)]]
    if len(blocks) == 1 or deep:
        out.append([("esc", False, items)])
    for j, b in enumerate(blocks):
        out.append(_replace_block(items, j, lambda x: ("try", [("esc", True, [x])])))
        if deep or len(blocks) == 1 or _has_raise(b[3]):
            out.append(_replace_block(items, j, lambda x: ("try", [x])))
        if deep and j > 0:
            out.append(_replace_block(items, j, lambda x: ("esc", True, [x])))
    return out


def generate(W, tier, rng, focus=(), warners=()):
    """list of (group name, queries, program).  Interference groups: every class on its own (same-class
    nesting), fast_computations with its three flags, linalg_dtypes with its two contexts."""
    thorough = tier == "thorough"
    progs = []
    comp_members = {m for ms in COMPOSITES.values() for m in ms}
    groups = []
    for c in W.usable:
        if c in COMPOSITES and all(m in W.usable for m in COMPOSITES[c]):
            groups.append((c, [c] + COMPOSITES[c]))
        else:
            groups.append((c, [c]))
    for name, members in groups:
        qs = [q for c in members for q in W.queries[c]]
        deep = thorough or name in focus
        if len(members) == 1:
            core, ext = W.argsets(name)
            labels = [(name, a) for a in core]
            progs += [(name, qs, p) for p in programs_for_group(labels, 4 if deep else 3, 3)]
            if not deep:   # length 4: a seeded sample of labelled forests
                f4 = [(f, lab) for f in forests(4, 3) for lab in itertools.product(labels, repeat=4)]
                for f, lab in rng.sample(f4, 25):
                    progs.append((name, qs, instantiate(f, lab, rng.choice([None] + list(range(n_boundaries(f)))))))
            # every argument value: alone, and nested in / around a core block
            allsets = core + ext
            for a in allsets:
                progs += [(name, qs, p) for p in programs_for_group([(name, a)], 1, 1)]
            for a in ext:
                for b in (core if not deep else allsets):
                    for lab in ([(name, a), (name, b)], [(name, b), (name, a)]):
                        f = [[[]]]
                        for r in [None] + list(range(n_boundaries(f))):
                            progs.append((name, qs, instantiate(f, lab, r)))
        else:
            core, ext = W.argsets(name)
            labels = [(name, a) for a in core] + [(m, a) for m in members[1:] for a in W.argsets(m)[0][:2]]
            progs += [(name, qs, p) for p in programs_for_group(labels, 2, 3)]
            n3 = None if deep else 1500
            progs += [(name, qs, p) for p in programs_for_group(labels, 3, 3, rng, n3) if sum(1 for i in _blocks(p)) == 3]
            for a in ext:
                progs += [(name, qs, p) for p in programs_for_group([(name, a)], 1, 1)]
                for b in core:
                    for lab in ([(name, a), (name, b)], [(name, b), (name, a)]):
                        progs.append((name, qs, instantiate([[[]]], lab, None)))
    # warning filter / caught exceptions: variants of every program with <= 2 blocks (<= 3 blocks for the classes
    # whose translated source contains a warnings.warn)
    # (other classes, quick tier: every 1-block program and a seeded sample of 60 of the 2-block programs per class)
    by_group = {}
    for name, qs, p in progs:
        by_group.setdefault(name, []).append((qs, p, sum(1 for _ in _blocks(p))))
    for name, lst in by_group.items():
        deep = name in warners or any(m in warners for m in COMPOSITES.get(name, []))
        if deep:
            base = [(qs, p) for qs, p, nb in lst if nb <= 3]
        else:
            two = [(qs, p) for qs, p, nb in lst if nb == 2]
            base = [(qs, p) for qs, p, nb in lst if nb == 1] + (two if thorough or len(two) <= 60 else rng.sample(two, 60))
        for qs, p in base:
            progs += [(name, qs, v) for v in variants(p, deep=name in warners)]
    # pairs across groups: nested both ways and in sequence, exception inside / after the inner block
    reps = {}
    for c in W.usable:
        reps.setdefault((W.kind[c], c.split(".")[0]), c)
    hot = sorted(set(W.special) | set(reps.values()) | set(COMPOSITES) | set(focus) | set(warners))
    pairs = set()
    for a in W.usable:
        for b in W.usable:
            if a < b and not _same_group(a, b) and (thorough or a in hot or b in hot):
                pairs.add((a, b))
    if not thorough:
        rest = [(a, b) for a in W.usable for b in W.usable if a < b and not _same_group(a, b) and (a, b) not in pairs]
        pairs |= set(rng.sample(rest, min(150, len(rest))))
    for a, b in sorted(pairs):
        qs = [q for c in _closure(a) + _closure(b) for q in W.queries.get(c, [])]
        la, lb = (a, W.argsets(a)[0][0]), (b, W.argsets(b)[0][0])
        for lab in ([la, lb], [lb, la]):
            for f in ([[[]]], [[], []]):
                rs = [None] + list(range(n_boundaries(f)))
                if not thorough and a not in hot and b not in hot:
                    rs = [None, rng.choice(rs[1:])] if len(rs) > 1 else rs
                for r in rs:
                    p = instantiate(f, lab, r)
                    progs.append(("pair", qs, p))
                    if a in warners or b in warners:
                        # warnings are errors around everything / around the second block only (caught)
                        progs.append(("pair", qs, [("esc", True, p)]))
                        progs.append(("pair", qs, _replace_block(p, 1, lambda x: ("try", [("esc", True, [x])]))))
                    elif r is None and len(f) == 1:
                        progs.append(("pair", qs, _replace_block(p, 1, lambda x: ("try", [("esc", True, [x])]))))
    return progs


def _blocks(items):
    for it in items:
        if it[0] == "with":
            yield it
            yield from _blocks(it[3])
        elif it[0] in ("esc", "try"):
            yield from _blocks(it[-1])


def _closure(c):
    return [c] + COMPOSITES.get(c, [])


def _same_group(a, b):
    return a == b or b in COMPOSITES.get(a, []) or a in COMPOSITES.get(b, [])


# --------------------------------------------------------------------------- model side

def model_run(tag, cases):
    """cases: list of (queries, program).  Distinct query lists become named definitions."""
    qdefs, qname = [], {}
    terms = []
    for qs, p in cases:
        key = tuple(qs)
        if key not in qname:
            qname[key] = "qs%d" % len(qname)
            qdefs.append("Definition %s : list query := %s." % (qname[key], coq_queries(qs)))
        terms.append("(%s, %s)" % (qname[key], coq_prog(p)))
    run_def = name_defs() + "\n" + "\n".join(qdefs) + "\nDefinition run := run_case."
    shard = max(200, min(1500, (len(terms) + C.NPROC - 1) // C.NPROC))
    return C.coq_run_cases(tag, IMPORTS, run_def, terms, shard=shard)


AUX_DEF = r"""
Local Open Scope list_scope.
Fixpoint fb2 {A} (n : nat) (f : list fact -> res A) (k : list fact -> res A -> witness) (fs : list fact) : witness :=
  match f fs with
  | Need (x, p) => match n with
                   | O => WPath fs "too many questions"
                   | S n' => match fb2 n' f k ((x, p, true) :: fs) with
                             | WNone => fb2 n' f k ((x, p, false) :: fs)
                             | w => w end
                   end
  | Stuck s => WPath fs s
  | r => k fs r
  end.
Definition wit (c : string) : witness :=
  fb2 QFUEL (fun fs => symA gen_table fs c)
    (fun fs r => match r with
       | Ok (AEntered o WA) =>
           if footprint_ok gen_table doc_composites c WA then
             fb2 QFUEL (fun fs' => symB gen_table fs' c o)
               (fun fs' rb => if chkB gen_table doc_composites doc_caches c WA fs' rb then WNone
                              else WPath fs' "__exit__ does not restore every slot written by the block (or raises / swallows)") fs
           else WPath fs "__enter__ writes outside the class and its documented composites"
       | _ => if chkA gen_table doc_composites doc_caches c fs r then WNone
              else WPath fs "a failing constructor / __enter__ has already written" end) [].
Definition ser_var (x : var) : list Z :=
  match x with XArg p => 0 :: ser_str 3 p | XCell t c a => 1 :: (if t then 1 else 0) :: ser_str 3 c ++ ser_str 3 a end.
Definition ser_pred (p : pred) : list Z :=
  match p with PAbsent => [0] | PNone => [1] | PEq k => 2 :: ser_const k end.
Definition ser_wit (w : witness) : list Z :=
  match w with
  | WNone => [0]
  | WPath fs s => 1 :: ser_str 3 s ++ Z.of_nat (List.length fs)
                    :: flat_map (fun f : fact => match f with (x, p, b) => ser_var x ++ ser_pred p ++ [if b then 1 else 0] end) fs
  end.
Definition ser_defaults : list Z :=
  flat_map (fun d : string * string * list const * const => match d with (c, m, args, k) =>
     ser_str 3 c ++ ser_str 3 m ++ Z.of_nat (List.length args) :: flat_map ser_const args ++ ser_const k end) doc_defaults.
Definition run (n : Z) : list Z :=
  if n =? 0 then failing_now tt else if n =? 1 then ser_defaults
  else flat_map (fun c => ser_str 3 c ++ ser_wit (wit c)) (failing_classes gen_table doc_composites doc_caches).
"""


REQ_IMPORTS = ("From Coq Require Import List String ZArith Bool.\n"
               "From GPV Require Import Models.C20_ir Models.C20_check Models.C20_request Models.C20_run Gen.Settings_gen.\n"
               "Import ListNotations.\nOpen Scope string_scope.")
REQ_DEF = r"""
Local Open Scope list_scope.
Definition ser_q (q : qry) : list Z :=
  match q with (c, m, a) => ser_str 3 c ++ ser_str 3 m ++ Z.of_nat (List.length a) :: flat_map ser_const a end.
Definition run (case : string * list (string * sval)) : list Z :=
  let '(c, args) := case in
  flat_map (fun qt : qry * rspec =>
              ser_q (fst qt) ++ ser_val (requested gen_table args (init_store gen_table) (snd qt))) (doc_requested c).
"""


def model_requested(cases):
    """cases: [(class, [(param, value)])] -> per case {query: encoded value}: what the documentation table of the
    proofs (Models/C20_request.v: doc_requested, the table c20_innermost_wins is stated with) says the block requests,
    evaluated by Coq outside all blocks"""
    terms = ["(%s, [%s])" % (coq_str(c), "; ".join("(%s, VK %s)" % (coq_str(p), coq_const(v)) for p, v in args))
             for c, args in cases]
    res = C.coq_run_cases("C20_req", REQ_IMPORTS, REQ_DEF, terms, shard=max(50, (len(terms) + 7) // 8))
    outl = []
    for a in res:
        d, i = {}, 0
        while i < len(a):
            c, i = _rd_str(a, i)
            m, i = _rd_str(a, i)
            n = a[i]
            qa, i = split_vals(a, i + 1, n)
            (v,), i = split_vals(a, i, 1)
            d[(c, m, tuple("".join(chr(x) for x in t[2:]) for t in qa))] = v
        outl.append(d)
    return outl


def _rd_str(ints, i):
    n = ints[i + 1]
    return "".join(chr(c) for c in ints[i + 2:i + 2 + n]), i + 2 + n


def model_aux(want_witness):
    """(failing classes, documented defaults table, witnesses) computed by Coq on the regenerated table"""
    res = C.coq_run_cases("C20_aux", IMPORTS, AUX_DEF, ["1"] + (["0", "2"] if want_witness else []), shard=1)
    failing, i = [], 0
    while want_witness and i < len(res[1]):
        s, i = _rd_str(res[1], i)
        failing.append(s)
    defaults, i, a = [], 0, res[0]
    while i < len(a):
        c, i = _rd_str(a, i)
        m, i = _rd_str(a, i)
        n = a[i]
        args, i = split_vals(a, i + 1, n)
        (k,), i = split_vals(a, i, 1)
        defaults.append((c, m, tuple("".join(chr(x) for x in t[2:]) for t in args), k))
    wits = {}
    if want_witness:
        a, i = res[2], 0
        while i < len(a):
            c, i = _rd_str(a, i)
            if a[i] == 0:
                wits[c] = None
                i += 1
                continue
            why, i = _rd_str(a, i + 1)
            n = a[i]
            i += 1
            facts = []
            for _ in range(n):
                if a[i] == 0:
                    p, i = _rd_str(a, i + 1)
                    var = "argument %s" % p
                else:
                    t = a[i + 1]
                    cc, i = _rd_str(a, i + 2)
                    aa, i = _rd_str(a, i)
                    var = "%s.%s at %s" % (cc, aa, "exit" if t else "entry")
                    if cc == "warnings":
                        var = "the warning issued at %s is turned into an exception (filter at %s)" % (aa, "exit" if t else "entry")
                if a[i] == 0:
                    pred, i = "omitted", i + 1
                elif a[i] == 1:
                    pred, i = "is None", i + 1
                else:
                    (k,), i = split_vals(a, i + 1, 1)
                    pred = "== " + show(k)
                facts.append("%s %s: %s" % (var, pred, bool(a[i])))
                i += 1
            wits[c] = dict(why=why, path=list(reversed(facts)))
    return failing, defaults, wits


# --------------------------------------------------------------------------- comparison

def flat(o, trace, final):
    out = [o, len(trace)]
    for snap in trace + [final]:
        for v in snap:
            out += enc(v)
    return out


def first_diff(qs, a, b):
    """a, b flattened results; returns (where, query, value a, value b) of the first difference"""
    if a[:2] != b[:2]:
        return ("outcome", None, a[:2], b[:2])
    n = a[1]
    try:
        va, _ = split_vals(a, 2, (n + 1) * len(qs))
        vb, _ = split_vals(b, 2, (n + 1) * len(qs))
    except Exception:
        return ("shape", None, a, b)
    for j, (x, y) in enumerate(zip(va, vb)):
        if x != y:
            k = j // len(qs)
            return ("after the program" if k == n else "observation %d" % k, qs[j % len(qs)], show(x), show(y))
    return ("shape", None, a, b)


def qname(q):
    c, m, args = q
    return "%s.%s(%s)" % (c, m, ",".join(args))


def same(v, d):
    return (type(v) is type(d) and v == d) or enc(v) == enc(d)


def check_program(W, out, name, qs, items, model, by_qs, counters, use_spec=True):
    """run one program on the real classes, compare with the model result (if any) and with the reference
    semantics; direct property checks on every other query.  Returns True if something failed."""
    fp = footprint(items)
    W.reset(fp)
    info = {}
    o, trace, final, by = run_real(W, items, qs, by_qs, info)
    full = W.snapshot(W.all_queries)
    impl = flat(o, trace, final)
    case = dict(group=name, program=items, queries=[list(q) for q in qs])
    bad = False
    dq = [W.default[q] for q in qs]
    nontrivial = any(not same(v, d) for snap in trace for v, d in zip(snap, dq))
    out.case(items, nontrivial, label=name if name == "pair" else W.kind.get(name, "?"))
    nb = "blocks_%d" % sum(1 for _ in _blocks(items))
    counters[nb] = counters.get(nb, 0) + 1
    if any(it[0] == "raise" for it in _flatten(items)):
        counters["with_exception"] = counters.get("with_exception", 0) + 1
    for kind, lab in (("esc", "warning_filter_changed"), ("try", "exception_caught")):
        if any(it[0] == kind for it in _flatten(items)):
            counters[lab] = counters.get(lab, 0) + 1
    if any(info["hdr"]):
        counters["header_raised"] = counters.get("header_raised", 0) + 1
    # failed header (direct): an exception escaping a with-statement header leaves every query unchanged
    for cid, args, q, x, y in info["leaks"][:1]:
        bad = True
        out.fail("header:%s" % qname(q),
                 "the header of `with %s(%s)` raised (no __exit__ runs) and left %s changed: %s before the with-statement, %s after\n%s"
                 % (cid, ", ".join("%s=%r" % (p, pyval(v)) for p, v in args), qname(q), show(enc(x)), show(enc(y)), prog_text(items)),
                 case, impl=show(enc(y)), model=show(enc(x)))
    # scoped (direct): after the program every public query answers as before it
    for q, v in zip(W.all_queries, full):
        if not same(v, W.default[q]):
            bad = True
            out.fail("scoped:%s" % qname(q),
                     "after the program %s returns %s, before it %s\n%s" % (qname(q), show(enc(v)), show(enc(W.default[q])), prog_text(items)),
                     case, impl=show(enc(v)), model=show(enc(W.default[q])))
            break
    # frame (direct): classes outside the footprint are never affected
    for snap in by:
        for q, v in zip(by_qs, snap):
            if q[0] not in fp and not same(v, W.default[q]):
                bad = True
                out.fail("frame:%s" % qname(q), "inside the program the unrelated query %s returns %s (default %s)\n%s"
                         % (qname(q), show(enc(v)), show(enc(W.default[q])), prog_text(items)), case,
                         impl=show(enc(v)), model=show(enc(W.default[q])))
                break
    # property as reference semantics: innermost block wins, restored on exit
    if use_spec:
        try:
            so, st, sf = run_spec(W, items, qs, info["hdr"])
            spec = flat(so, st, sf)
            if spec != impl:
                bad = True
                where, q, a, b = first_diff(qs, impl, spec)
                out.fail("prop:%s" % (qname(q) if q else where),
                         "%s: %s is %s on the real classes, the property requires %s\n%s"
                         % (where, qname(q) if q else "outcome", a, b, prog_text(items)), case, impl=a, model=b)
        except NoSpec:
            counters["no_reference_semantics"] = counters.get("no_reference_semantics", 0) + 1
    # tie C: the model of the regenerated table behaves as the real classes
    if model is not None and model != impl:
        bad = True
        where, q, a, b = first_diff(qs, impl, model)
        out.fail("corr:%s" % (qname(q) if q else where),
                 "%s: %s is %s on the real classes, %s in the model regenerated from the source\n%s"
                 % (where, qname(q) if q else "outcome", a, b, prog_text(items)), case, impl=a, model=b)
    if bad:
        W.reset(all_classes=True)
    return bad


def _flatten(items):
    for it in items:
        yield it
        if it[0] in ("with", "esc", "try"):
            yield from _flatten(it[-1])


# --------------------------------------------------------------------------- run

def run(out, ctx):
    tier, seed = ctx["tier"], ctx["seed"]
    rng = random.Random(seed)
    torch.manual_seed(seed)
    props_ok, unparsed = ctx.get("props_ok", True), ctx.get("unparsed", False)
    W = World()
    counters = {}
    out.rule = ("programs of with-blocks over the real settings classes: per class ALL labelled forests with <= 3 blocks "
                "(nesting depth <= 3; <= 4 blocks in the thorough tier, a seeded sample of 4-block programs in quick), 3 "
                "argument choices per class, an exception raised at every in-body block boundary (and none); every "
                "argument value {omitted, default, two others, None, invalid, unknown keyword} alone and nested in/around "
                "every core choice; composites with their members; pairs of classes across groups nested both ways and in "
                "sequence.  Every 1-block program and a sample of the 2-block programs (every program with <= 3 blocks for "
                "classes whose source calls warnings.warn) also "
                "with warnings turned into errors (around the whole program, and around each single block with the "
                "exception caught inside the enclosing block) and with try/except around each block; every with-header "
                "that raises is checked to leave all queries unchanged.  "
                "Observed: on()/off()/value(dtype)/num_probe_vectors() before, inside and after every block. "
                "Non-trivial = some observation inside differs from the default.")
    out.exhaustive = True
    out.extra["exhaustive_bound"] = ("per class: all programs with <= %d blocks, depth <= 3, 3 argument choices, every raise "
                                     "position" % (4 if tier == "thorough" else 3))
    out.tested_not_proved = [
        "the Python reading of the sources by the translator (attribute lookup, with-statement protocol): tested by executing the generated programs on the real classes and on the model",
        "that the hand-written documentation table of c20_innermost_wins (Models/C20_request.v: doc_requested) says what the property means: compared on every run with the driver's reference semantics for every class and argument set",
        "arguments that are tensors / arbitrary objects (the value domain of the model has constants only)"]
    # ---- what the regenerated table says (failing classes, documented defaults)
    failing, doc_defaults, wits = [], [], {}
    model_ok = not unparsed
    if model_ok:
        if not props_ok:
            C.build_coq(targets=["Models/C20_run.vo", "Models/C20_request.vo"])
        try:
            failing, doc_defaults, wits = model_aux(want_witness=not props_ok)
        except Exception as e:
            model_ok = False
            out.notes.append("model unavailable: %s" % str(e)[-400:])
            if props_ok:
                raise
    known_external = {"lo.cholesky_jitter"}
    focus = [c for c in failing if c in W.usable]
    out.extra["classes_failing_restore_obligation"] = failing
    if wits:
        out.extra["obligation_witnesses"] = wits
    # ---- table vs real classes
    if model_ok:
        tbl = json.load(open(os.path.join(C.BUILD, "C20_table.json")))
        ids = {c["id"]: c for c in tbl["classes"]}
        def is_cm(c):
            while c is not None:
                ms = {m["name"] for m in ids[c]["methods"]}
                if "__enter__" in ms:
                    return True
                c = ids[c]["base"]
            return False
        t_usable = {c for c in ids if is_cm(c) and not any(o["base"] == c for o in ids.values())}
        if t_usable != set(W.usable):
            out.fail("table:classes", "context managers found by introspection and by the translator differ: %s"
                     % sorted(t_usable ^ set(W.usable)), case=dict(diff=sorted(t_usable ^ set(W.usable))))
        # documented defaults (hand table in Models/C20_check.v) on the real classes
        seen = set()
        for c, m, args, k in doc_defaults:
            q = (c, m, args)
            seen.add(c)
            out.count("default-query")
            if c not in W.real:
                out.fail("defaults:%s" % qname(q), "documented setting %s no longer exists" % c, case=dict(query=list(q)))
                continue
            W.reset([c])
            got = enc(W.ask(q))
            out.case(dict(default_query=qname(q)), True)
            if got != k:
                out.fail("defaults:%s" % qname(q), "outside all blocks %s returns %s, documented default %s"
                         % (qname(q), show(got), show(k)), case=dict(query=list(q), kind="default"), impl=show(got), model=show(k))
        undocumented = [c for c in W.usable if c not in seen and c not in COMPOSITES]
        out.extra["classes_without_documented_default"] = undocumented
    # ---- the documentation table behind c20_innermost_wins (Models/C20_request.v) vs the reference semantics
    # of the property used below: for every class and every argument set whose header the property lets complete,
    # both must request the same value for the same queries
    if model_ok:
        rcases = []
        for c in sorted(W.usable):
            core, ext = W.argsets(c)
            for kw in core + ext:
                args = [(p, jval(v) if not isinstance(v, dict) else v) for p, v in kw.items()]
                try:
                    want = spec_enter(W, c, {p: pyval(v) for p, v in args}, W.default)
                    [coq_const(v) for _, v in args]
                except (CtorError, NoSpec, ValueError):
                    continue
                rcases.append((c, args, want))
        try:
            got = model_requested([(c, a) for c, a, _ in rcases])
        except Exception as e:
            got = None
            out.notes.append("documentation table unavailable: %s" % str(e)[-400:])
            if props_ok:
                raise
        for (c, args, want), d in zip(rcases, got or []):
            out.count("doc-requested-case")
            out.case(dict(requested=c, args=args), True, label="doc-requested")
            mine = set(q for q in W.all_queries if q[0] in _closure(c))
            if set(d) != mine:
                out.fail("doctable:%s" % c, "the documentation table lists the queries %s for a block of %s, the driver observes %s"
                         % (sorted(qname(q) for q in d), c, sorted(qname(q) for q in mine)), case=dict(cls=c, kind="doctable"), no_input=True)
                continue
            for q, v in d.items():
                if enc(want[q]) != v:
                    out.fail("doctable:%s" % qname(q),
                             "`with %s(%s)`: the documentation table of the proofs requests %s = %s, the reference semantics of the property %s"
                             % (c, ", ".join("%s=%r" % (p, pyval(x)) for p, x in args), qname(q), show(v), show(enc(want[q]))),
                             case=dict(cls=c, args=args, kind="doctable"), impl=show(enc(want[q])), model=show(v), no_input=True)
                    break
    # ---- programs
    warners = []
    if model_ok:
        for site in tbl.get("warn_sites", []):
            wc = site.rsplit(".", 1)[0]
            warners += [c for c in W.usable if c == wc or (c in W.real and wc in W.real and issubclass(W.real[c], W.real[wc]))]
    warners = sorted(set(warners))
    out.extra["classes_with_warnings_warn"] = warners
    progs = generate(W, tier, rng, focus=focus, warners=warners)
    out.extra["programs_with_filter_or_try"] = sum(1 for _, _, p in progs if _is_variant(p))
    out.extra["programs"] = len(progs)
    out.extra["usable_classes"] = len(W.usable)
    out.extra["special_classes"] = W.special
    out.extra["kinds"] = {k: sum(1 for c in W.usable if W.kind[c] == k) for k in sorted(set(W.kind.values()))}
    models = [None] * len(progs)
    if model_ok:
        # tie C runs on a subset (the model costs ~20 ms per program): per group every 1-block program, a seeded
        # sample of the 2-block and of the >= 3-block programs; a sample of the pairs
        rm = random.Random(seed * 7919 + 1)
        scale = 5 if tier == "thorough" else 1
        buckets = {}
        for i, (name, qs, p) in enumerate(progs):
            nb = sum(1 for _ in _blocks(p))
            buckets.setdefault((name, min(nb, 3), _is_variant(p)), []).append(i)
        sel = []
        for (name, nb, var), idx in sorted(buckets.items()):
            if name == "pair":
                k = (400 if var else 1200) * scale
            else:
                k = {1: len(idx), 2: 40 * scale, 3: 25 * scale}[nb]
                if name in focus:
                    k *= 4
                if var and name in warners:
                    k = max(k, 400 * scale)
            sel += idx if len(idx) <= k else rm.sample(idx, k)
        sel.sort()
        out.extra["programs_on_model"] = len(sel)
        try:
            res = model_run("C20", [(progs[i][1], progs[i][2]) for i in sel])
            for i, r in zip(sel, res):
                models[i] = r
        except Exception as e:
            if props_ok:
                raise
            out.notes.append("model run unavailable: %s" % str(e)[-400:])
    W.reset(all_classes=True)
    usable_sorted = sorted(W.usable)
    nfail = {}
    for i, ((name, qs, p), m) in enumerate(zip(progs, models)):
        by_cls = [usable_sorted[(i * 7 + j * 13) % len(usable_sorted)] for j in range(3)]
        by_qs = [q for c in by_cls for q in W.queries[c]]
        before = len(out.failures)
        check_program(W, out, name, qs, p, m, by_qs, counters)
        # keep the report small: at most 3 stored failures per key
        for f in out.failures[before:]:
            nfail[f["key"]] = nfail.get(f["key"], 0) + 1
        if len(out.failures) > before:
            out.failures[before:] = [f for f in out.failures[before:] if nfail[f["key"]] <= 3]
    W.reset(all_classes=True)
    out.extra["failures_per_key"] = nfail
    for k, v in counters.items():
        out.count(k, v)
    # ---- a failed proof obligation must come with a program, or be reported without one
    if not props_ok:
        keys = [f["key"] for f in out.failures if not f.get("no_input")]
        for c in failing:
            if c in known_external:
                continue
            # exposed = some failing public query belongs to the class or to one of its documented composites
            if not any((":%s." % k) in key for key in keys for k in _closure(c)):
                w = wits.get(c) or {}
                out.fail("obligation:%s" % c,
                         "the restore obligation computed on the regenerated source fails for %s (%s; path: %s) but no program "
                         "over the public queries exposes it" % (c, w.get("why"), "; ".join(w.get("path", []))),
                         case=dict(cls=c, witness=w), no_input=True)
    out.extra["tolerances"] = "exact comparison of discrete values"
    if unparsed:
        out.ties["C"] = "ok (real classes vs reference semantics of the property; model skipped: no table for this source)" \
            if not out.failures else "disagreements"
    else:
        out.ties["C"] = "ok" if not any(f["key"].startswith(("corr:", "table:")) for f in out.failures) else "disagreements"
    if props_ok and not unparsed and os.path.exists(GEN):
        txt = open(GEN).read()
        if not os.path.exists(LAST_GOOD) or open(LAST_GOOD).read() != txt:
            open(LAST_GOOD, "w").write(txt)


# --------------------------------------------------------------------------- replay

def replay(path):
    d = json.load(open(path))
    case = d.get("case") or {}
    W = World()
    if "program" not in case:
        if case.get("kind") == "default":
            q = (case["query"][0], case["query"][1], tuple(case["query"][2]))
            print("query", qname(q), "->", show(enc(W.ask(q))), " recorded: impl", d.get("impl"), "documented", d.get("model"))
            return 1 if show(enc(W.ask(q))) != d.get("model") else 0
        print("no executable case stored:", d.get("what"))
        return 1

    def tup(its):
        out = []
        for it in its:
            if it[0] == "with":
                out.append(tuple(it[:2]) + ([tuple(a) for a in it[2]], tup(it[3])))
            elif it[0] == "esc":
                out.append(("esc", it[1], tup(it[2])))
            elif it[0] == "try":
                out.append(("try", tup(it[1])))
            else:
                out.append(tuple(it))
        return out
    items = tup(case["program"])
    qs = [(q[0], q[1], tuple(q[2])) for q in case["queries"]]
    print(prog_text(items))
    model = None
    try:
        pregen(None)
        ok, lg = C.build_coq(targets=["Models/C20_run.vo"])
        model = model_run("C20_replay", [(qs, items)])[0]
    except Exception as e:
        print("model unavailable:", str(e)[-300:])
    out = C.Outcome("C20", "quick", 0)
    W.reset(all_classes=True)
    info = {}
    o, trace, final, _ = run_real(W, items, qs, (), info)
    W.reset(all_classes=True)
    print("queries      :", [qname(q) for q in qs])
    if any(info["hdr"]):
        print("with-headers that raised (execution order):", info["hdr"])
    for cid, args, q, x, y in info["leaks"]:
        print("header of %s raised and changed %s: %s -> %s" % (cid, qname(q), show(enc(x)), show(enc(y))))
    print("impl  outcome:", o, " observations:", [[show(enc(v)) for v in s] for s in trace], " after:", [show(enc(v)) for v in final])
    try:
        so, st, sf = run_spec(W, items, qs, info["hdr"])
        print("prop. outcome:", so, " observations:", [[show(enc(v)) for v in s] for s in st], " after:", [show(enc(v)) for v in sf])
    except NoSpec:
        print("prop.: no reference semantics for this class")
    if model is not None:
        n = model[1]
        vals, _ = split_vals(model, 2, (n + 1) * len(qs))
        rows = [[show(v) for v in vals[k * len(qs):(k + 1) * len(qs)]] for k in range(n + 1)]
        print("model outcome:", model[0], " observations:", rows[:-1], " after:", rows[-1])
    check_program(W, out, case.get("group", "?"), qs, items, model, [], {})
    for f in out.failures:
        print("FAILS [%s]: %s" % (f["key"], f["what"].split("\n")[0]))
    print("FAILS" if out.failures else "agrees")
    return 1 if out.failures else 0
