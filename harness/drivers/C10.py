"""C10 — MultivariateNormal is the distribution it claims to be.

Model: coq/Models/C10_mvn.v ((mean, cov) pairs over a generic field; index normalisation of
__getitem__ on Z; log_prob / KL as Expr around exact rational quadratic form and determinant).
Theorems: Props/C10.v.  Tie C (this file): exhaustive index expressions on event sizes 1..4, batch
ranks 0..2 and six covariance representations; log_prob on broadcasting value shapes with the fast
path on and off; KL; rsample(base_samples); affine operations."""
import itertools
import json
import math
import random

import torch

from harness.lib import common as C
from harness.drivers.C11 import py_comp, py_idx, coq_comp, FULL, exc_name, all_ints

COQ_TARGETS = ["Models/C10_mvn.vo", "Proofs/C10_mvn.vo", "Models/C10_broadcast.vo", "Models/C10_seq.vo", "Proofs/C10_seq.vo"]
LEVEL_NOTE = ("theorems are about the Gallina model ((mean, cov) pairs, generic field); tie to /repo is differential: "
              "exact gathers for indexing, exact rationals + mpmath for densities (1e-8)")
IMPORTS = ("From Coq Require Import List ZArith QArith Qcanon.\n"
           "From GPV Require Import Base.LinAlg Base.Exec Base.Expr Base.PySlice Models.C11_mtmvn Models.C10_mvn.")
LO, HI = -5, 5
BOUNDS = [None] + list(range(LO, HI + 1))
STEPS = [None, 1, 2, 3]
REPS = ["dense", "diag", "root", "lazysum", "broadcast", "lazybroadcast"]
# + a lazy MVN whose MEAN has fewer batch dimensions than the covariance operator (methods only, not the index sweep)
# + structured operators (added after the second seeding round): RootLinearOperator with a WIDE root (n x (n+2)),
# LowRankRootAddedDiagLinearOperator, KroneckerProductLinearOperator, Kronecker + diagonal, lazy sum root + dense.
# (the TALL, rank-deficient root is "root" without full_rank: indexing / sampling / affine only, no density)
NEW_REPS = ["rootwide", "lowrankdiag", "kron", "kronsum", "rootsum"]
REPS_ALL = REPS + ["lazymeanbroadcast"] + NEW_REPS

torch.set_default_dtype(torch.float64)


def all_slices():
    return [["s", a, b, k] for a in BOUNDS for b in BOUNDS for k in STEPS]


def dyadic(g, *shape, den=4, rng=4):
    return torch.randint(-rng, rng + 1, shape, generator=g).double() / den


def kron_dense(K1, K2):
    """dense Kronecker product of (batches of) matrices, computed without linear_operator"""
    n1, n2 = K1.shape[-1], K2.shape[-1]
    return (K1[..., :, None, :, None] * K2[..., None, :, None, :]).reshape(*K1.shape[:-2], n1 * n2, n1 * n2)


def make(n, bshape, rep, seed=0, full_rank=False):
    """returns (dist, mean, dense covariance expanded to the batch shape of mean)"""
    from gpytorch.distributions import MultivariateNormal as MVN
    from linear_operator.operators import (DenseLinearOperator, DiagLinearOperator, RootLinearOperator, LowRankRootLinearOperator,
                                           LowRankRootAddedDiagLinearOperator, KroneckerProductLinearOperator)
    g = torch.Generator().manual_seed(seed * 7919 + 97 * n + 13 * len(bshape) + REPS_ALL.index(rep))
    bshape = tuple(bshape)
    mean = dyadic(g, *bshape, n)
    cb = bshape
    if rep == "lazymeanbroadcast":
        marg = dyadic(g, *bshape[1:], n)
        A = dyadic(g, *cb, n, n, den=2, rng=3)
        dense = A @ A.transpose(-1, -2) / 4 + torch.eye(n) * 1.5
        return MVN(marg, DenseLinearOperator(dense)), marg.expand(*bshape, n), dense
    if rep in ("broadcast", "lazybroadcast"):
        cb = bshape[1:] if len(bshape) else ()
        if len(bshape) == 2:
            cb = (1,) + bshape[1:]
    A = dyadic(g, *cb, n, n, den=2, rng=3)
    dense = A @ A.transpose(-1, -2) / 4 + torch.eye(n) * 1.5
    if rep in ("dense", "broadcast"):
        covarg, cov = dense, dense
    elif rep == "lazybroadcast":
        covarg, cov = DenseLinearOperator(dense), dense
    elif rep == "diag":
        dg = dyadic(g, *cb, n, den=8, rng=6).abs() + 0.5
        covarg, cov = DiagLinearOperator(dg), torch.diag_embed(dg)
    elif rep == "root":
        r = n if full_rank else max(1, n - 1)
        R = dyadic(g, *cb, n, r, den=2, rng=2)
        R = torch.where(R == 0, torch.full_like(R, 0.5), R)      # no zero rows: every variance is positive
        if full_rank:
            R = R + 3 * torch.eye(n)
        covarg, cov = RootLinearOperator(R), R @ R.transpose(-1, -2)
    elif rep in ("rootwide", "rootsum"):
        r = n + 2 if rep == "rootwide" else n + 1                 # more columns than rows: the root is not square
        R = dyadic(g, *cb, n, r, den=2, rng=2)
        R[..., :n] += 3 * torch.eye(n)
        if rep == "rootwide":
            covarg, cov = RootLinearOperator(R), R @ R.transpose(-1, -2)
        else:
            covarg, cov = RootLinearOperator(R) + DenseLinearOperator(dense), R @ R.transpose(-1, -2) + dense
    elif rep == "lowrankdiag":
        r = max(1, n - 1)
        R = dyadic(g, *cb, n, r, den=2, rng=2)
        R = torch.where(R == 0, torch.full_like(R, 0.5), R)      # no zero factor (a rank-0 "low-rank" part is a degenerate operator)
        dg = dyadic(g, *cb, n, den=8, rng=6).abs() + 0.5
        covarg = LowRankRootAddedDiagLinearOperator(LowRankRootLinearOperator(R), DiagLinearOperator(dg))
        cov = R @ R.transpose(-1, -2) + torch.diag_embed(dg)
    elif rep in ("kron", "kronsum"):
        n1 = 2 if n % 2 == 0 else 1
        n2 = n // n1
        A1, A2 = dyadic(g, *cb, n1, n1, den=2, rng=3), dyadic(g, *cb, n2, n2, den=2, rng=3)
        K1 = A1 @ A1.transpose(-1, -2) / 4 + torch.eye(n1) * 1.5
        K2 = A2 @ A2.transpose(-1, -2) / 4 + torch.eye(n2)
        covarg, cov = KroneckerProductLinearOperator(DenseLinearOperator(K1), DenseLinearOperator(K2)), kron_dense(K1, K2)
        if rep == "kronsum":
            dg = dyadic(g, *cb, n, den=8, rng=6).abs() + 0.5
            covarg, cov = covarg + DiagLinearOperator(dg), cov + torch.diag_embed(dg)
    else:
        dg = dyadic(g, *cb, n, den=8, rng=6).abs() + 0.25
        covarg, cov = DenseLinearOperator(dense) + DiagLinearOperator(dg), dense + torch.diag_embed(dg)
    d = MVN(mean, covarg)
    return d, mean, cov.expand(*bshape, n, n)


# --------------------------------------------------------------------------- indexing

PREFIXES = {
    0: [[]],
    1: [[0], [-1], [FULL], [["s", 1, None, None]], ["..."]],
    2: [[0, 1], [FULL, -1], [1, FULL], [FULL, FULL], ["..."], [0, "..."], [["s", 0, 1, None], ["s", None, None, 2]]],
}
BSHAPES = {0: (), 1: (2,), 2: (2, 3)}


def coq_idx_list(idx):
    return "[%s]" % "; ".join(coq_comp(c) for c in idx)


def check_getitem(out, d, mean, cov, n, brank, idx, mres, rep, label):
    case = dict(n=n, batch_rank=brank, idx=idx, rep=rep)
    bshape = BSHAPES[brank]
    pidx = py_idx(idx)
    ids = torch.arange(int(math.prod(bshape)) * n).reshape(*bshape, n)
    try:
        sel = ids[pidx]
        want_mean = mean[pidx]
        terr = None
    except Exception as e:
        terr = exc_name(e)
    if sum(1 for c in idx if c == "...") > 1:
        return
    last = idx[-1] if idx else None
    if last == "..." and len(idx) == brank + 2:
        last = idx[-2]          # a trailing Ellipsis that matches no dimension: the component before it addresses the event dimension
    lk = "int" if isinstance(last, int) else ("ellipsis" if last == "..." else ("slice" if last[0] == "s" else "tensor")) \
        if last is not None else "none"
    key = lambda what: "getitem:last-%s:rank%d:%s:%s" % (lk, brank, rep, what)  # noqa: E731
    if terr is None and sel.dim() == 0:
        out.count("excluded: index leaves no dimension")
        return
    try:
        r = d[pidx]
        cm = r.covariance_matrix
        rm = r.mean
        ierr = None
    except Exception as e:
        ierr = exc_name(e)
    out.case(case, terr is None and sel.numel() > 0, label=label)
    # model vs torch (batch components are torch's business: the model does not know the batch sizes)
    batch_ok = True
    if terr is not None and brank > 0:
        try:
            torch.zeros(*bshape)[py_idx([c for c in idx[:-1]])] if len(idx) > 1 else None
        except Exception:
            batch_ok = False
    if (mres[0] == 0) != (terr is not None) and batch_ok:
        if mres[0] == 0 and terr is None and ierr is None and sel.numel() == 0:
            out.count("torch-skips-bounds-check-on-empty-result")
            return
        if (ierr is not None) == (terr is not None):
            out.fail("model:acceptance", "Coq model and torch disagree on whether the index is valid", case, impl=ierr, model=mres)
            return
    if terr is not None:
        if ierr is None:
            out.fail(key("accepts-invalid-index"), "d[idx] succeeds although mean[idx] raises %s" % terr, case)
        return
    if ierr is not None:
        out.fail(key("raises-" + ierr), "d[idx] raises %s on an index valid for the mean" % ierr, case, impl=ierr)
        return
    if not (rm.shape == want_mean.shape and torch.equal(rm, want_mean)):
        out.fail(key("mean"), "d[idx].mean != mean[idx]", case, impl=rm, model=want_mean)
        return
    if mres[0] == 1:
        want = cov[pidx]
    else:
        kind, k = mres[2], mres[3]
        pos_model = mres[4:4 + k]
        if kind == 0:
            var = cov.diagonal(dim1=-1, dim2=-2)
            want = torch.diag_embed(var[pidx])
            if sel.reshape(-1).numel() and not all(int(v) % n == pos_model[0] for v in sel.reshape(-1)):
                out.fail("model:positions", "model position differs from torch", case, model=pos_model)
                return
        else:
            ksz = sel.shape[-1]
            P = int(math.prod(sel.shape[:-1]))
            s2 = sel.reshape(P, ksz)
            covb = cov.reshape(-1, n, n)
            blocks = []
            for p in range(P):
                if ksz == 0:
                    blocks.append(torch.zeros(0, 0))
                    continue
                if (s2[p] % n).tolist() != pos_model or len(set((s2[p] // n).tolist())) != 1:
                    out.fail("model:positions", "model positions differ from torch's selection", case,
                             impl=(s2[p] % n).tolist(), model=pos_model)
                    return
                b = int(s2[p][0]) // n
                pm = torch.tensor(pos_model, dtype=torch.long)
                blocks.append(covb[b][pm][:, pm])
            want = torch.stack(blocks).reshape(*sel.shape[:-1], ksz, ksz) if P else torch.zeros(*sel.shape[:-1], ksz, ksz)
    if not (cm.shape == want.shape and torch.allclose(cm, want, atol=1e-12)):
        out.fail(key("cov"), "covariance of d[idx] is not the marginal covariance of the selected components", case,
                 impl=cm, model=want)


ELL_BATCH = [0, FULL, ["s", 1, None, None], -1, ["t", [1, 0]]]


def ell_event_forms(n):
    """every component form that can stand in the event position (None = the index has no event component)"""
    forms = [None, 0, -1, n, FULL, ["s", 1, None, None], ["s", None, None, 2], ["s", -2, None, None], ["s", None, n - 1, None],
             ["t", [n - 1, 0]], ["t", list(range(n - 1, -1, -1))], ["t", [0, 0, n - 1]], ["t", [n]]]
    seen, res = set(), []
    for f in forms:
        if json.dumps(f) not in seen:
            seen.add(json.dumps(f))
            res.append(f)
    return res


def ellipsis_grammar(tier, rng):
    """The index grammar with an Ellipsis at EVERY position of the tuple: base tuples b_1 .. b_j [, e] with j = 0 .. batch rank batch
    components (int / negative int / full slice / slice / index tensor) and every event component form e (int, out-of-range int,
    slices, index tensors: pair, full permutation, repetition, out of range; or none), and the Ellipsis inserted before, between
    and after the components, so that it matches zero dimensions (len(idx) = mean.dim() + 1: leading, middle and TRAILING), one or
    two dimensions; plus over-long tuples (one component too many) with an Ellipsis at every position, which must raise.
    Exhaustive for the dense representation, a strided sample (random offset) for every other one."""
    items = []
    for n in range(1, 5):
        evs = ell_event_forms(n)
        for brank in (0, 1, 2):
            bases = []
            for j in range(brank + 1):
                for bt in itertools.product(ELL_BATCH, repeat=j):
                    # index tensors: one per tuple and only in the first batch position (several index tensors / a tensor behind
                    # a slice follow torch's "advanced indexing" transposition rules, which __getitem__ does not claim to follow)
                    if any(isinstance(c, list) and c[0] == "t" for c in bt[1:]):
                        continue
                    # -1 only in the last batch position (same code path as 0; keeps the family small)
                    if any(c == -1 for c in bt[:-1]):
                        continue
                    for ev in evs:
                        if ev is not None and isinstance(ev, list) and ev[0] == "t" and any(isinstance(c, list) and c[0] == "t" for c in bt):
                            continue
                        bases.append((list(bt) + ([ev] if ev is not None else []), "ellipsis-grammar", ev is not None))
                        if j == brank and ev is not None and ev in (0, FULL, ["t", [n - 1, 0]]):
                            bases.append((list(bt) + [ev, 0], "ellipsis-grammar-too-many", False))
            for base, lab, has_ev in bases:
                # an event component form stays in the event position: behind a shorter batch part the Ellipsis goes before it
                # (batch-only tuples b_1 .. b_j get the Ellipsis everywhere, also at the end)
                npos = len(base) if (has_ev and len(base) < brank + 1) else len(base) + 1
                for pos in range(npos):
                    idx = base[:pos] + ["..."] + base[pos:]
                    where = "lead" if pos == 0 and len(base) else ("trail" if pos == len(base) else "mid")
                    zero = "zero" if len(base) == brank + 1 else ("over" if len(base) > brank + 1 else "some")
                    items.append((n, brank, idx, "%s:%s-%s" % (lab, where, zero)))
    res = []
    for rep in REPS + NEW_REPS:
        stride = 1 if rep == "dense" else ((9 if tier == "quick" else 3) if rep in REPS else (13 if tier == "quick" else 4))
        off = rng.randrange(stride)
        for (n, brank, idx, lab) in items[off::stride]:
            res.append((n, brank, idx, rep, lab + ":" + rep))
    return res


def run_getitem(out, ctx):
    tier, seed = ctx["tier"], ctx["seed"]
    rng = random.Random(seed * 65537 + 3)
    S = all_slices()
    fam_cases, fam_meta = [], []
    for n in range(1, 5):
        for brank in (0, 1, 2):
            for pre in PREFIXES[brank]:
                fam_cases.append("(%d, %d, %s, %d, %d)" % (brank + 1, n, coq_idx_list(pre), LO, HI))
                fam_meta.append((n, brank, pre))
    fam_res = C.coq_run_cases("C10_fam", IMPORTS, "Definition run := run_mvn_family.", fam_cases, shard=4)
    dists = {}

    def dist(n, brank, rep):
        if (n, brank, rep) not in dists:
            dists[(n, brank, rep)] = make(n, BSHAPES[brank], rep, seed=0)
        return dists[(n, brank, rep)]

    extra = []
    for (n, brank, pre), res in zip(fam_meta, fam_res):
        lasts = all_ints(n) + S
        if len(lasts) != len(res):
            raise RuntimeError("family enumeration out of step with the Coq model")
        for rep in REPS + NEW_REPS:
            stride = 1 if rep == "dense" else ((5 if tier == "quick" else 2) if rep in REPS else (11 if tier == "quick" else 3))
            off = rng.randrange(stride)
            d, mean, cov = dist(n, brank, rep)
            for j in range(off, len(lasts), stride):
                check_getitem(out, d, mean, cov, n, brank, pre + [lasts[j]], res[j], rep, "last-int/slice:" + rep)
        # tensors, ellipsis, batch-only, malformed
        tl = [["t", v] for v in ([0], [n - 1, 0], [-1], [0, -n], [0, 0, n - 1], list(range(n - 1, -1, -1)), [n], [])]
        for rep in REPS + NEW_REPS:
            for last in tl + ["..."]:
                if last == "..." and "..." in pre:
                    continue
                extra.append((n, brank, pre + [last], rep, "last-tensor/ellipsis:" + rep))
            if pre and "..." not in pre:
                extra.append((n, brank, pre, rep, "batch-only:" + rep))
                extra.append((n, brank, pre[:1], rep, "batch-only:" + rep))
            extra.append((n, brank, pre + [0, 0, 0], rep, "too-many:" + rep))
            if "..." not in pre:
                extra.append((n, brank, ["..."] + pre + [0, 0], rep, "too-many-ellipsis:" + rep))
                if brank:
                    extra.append((n, brank, [["t", [1, 0]]] + pre[1:], rep, "batch-tensor:" + rep))
    extra += ellipsis_grammar(tier, rng)
    cq = ["(%d, %d, %s)" % (brank + 1, n, coq_idx_list(idx)) for (n, brank, idx, rep, lab) in extra]
    res = C.coq_run_cases("C10_idx", IMPORTS, "Definition run := run_mvn_getitem.", cq, shard=max(200, len(cq) // 16 + 1))
    for (n, brank, idx, rep, lab), mres in zip(extra, res):
        d, mean, cov = dist(n, brank, rep)
        check_getitem(out, d, mean, cov, n, brank, idx, mres, rep, lab)


# --------------------------------------------------------------------------- densities

def bidx_iter(bshape):
    return list(itertools.product(*[range(s) for s in bshape])) if bshape else [()]


def run_density(out, ctx):
    import gpytorch
    from torch.distributions import kl_divergence
    tier, seed = ctx["tier"], ctx["seed"]
    lp_jobs, lp_cases = [], []
    nseeds = 1 if tier == "quick" else 4
    for n in range(1, 5):
        for bshape in ((), (2,), (2, 1)):
            for rep in REPS_ALL:
                for sd in range(nseeds):
                    d, mean, cov = make(n, bshape, rep, seed=seed * 10 + sd + 1, full_rank=True)
                    g = torch.Generator().manual_seed(n * 31 + len(bshape) + sd)
                    vshapes = [bshape + (n,), (n,), (3,) + bshape + (n,), (3,) + (1,) * len(bshape) + (n,)]
                    if bshape == (2, 1):
                        vshapes.append((2, 3, n))       # value batch larger than the distribution's in a size-1 dim
                    for vs in vshapes:
                        v = dyadic(g, *vs)
                        full = torch.broadcast_shapes(vs[:-1], bshape)
                        vb = v.expand(*full, n)
                        mb = mean.expand(*full, n)
                        cb = cov.expand(*full, n, n)
                        for fast in (True, False):
                            case = dict(n=n, batch_shape=list(bshape), rep=rep, value_shape=list(vs), fast=fast, seed=sd)
                            try:
                                with gpytorch.settings.fast_computations(log_prob=fast), gpytorch.settings.max_cholesky_size(10 ** 6):
                                    got = d.log_prob(v)
                            except Exception as e:
                                out.case(case, True, label="log_prob")
                                out.fail("log_prob:%s:raises-%s:%s" % (rep, exc_name(e), "fast" if fast else "cholesky"),
                                         "log_prob raised %r for a broadcastable value" % e, case)
                                continue
                            lp_jobs.append((case, got, full, len(lp_cases)))
                        for b in bidx_iter(full):
                            lp_cases.append("(%d%%nat, %s, %s, %s)" % (n, C.qc_vec(mb[b].tolist()), C.qc_mat(cb[b].tolist()),
                                                                      C.qc_vec(vb[b].tolist())))
    res = C.coq_run_cases("C10_lp", IMPORTS, "Definition run := run_logprob.", lp_cases, shard=max(8, len(lp_cases) // 16 + 1))
    vals = []
    for r in res:
        rd = C.Reader(r)
        vals.append(float(rd.expr()) if rd.int() == 1 else None)
    for case, got, full, start in lp_jobs:
        bl = bidx_iter(full)
        want = torch.tensor([vals[start + i] for i in range(len(bl))]).reshape(full)
        out.case(case, case["n"] > 1, label="log_prob")
        if not (got.shape == want.shape and torch.allclose(got, want, atol=1e-8, rtol=1e-9)):
            out.fail("log_prob:%s:%s" % (case["rep"], "fast" if case["fast"] else "cholesky"),
                     "log_prob differs from the Gaussian log density (value shape %s, batch %s)" % (case["value_shape"], case["batch_shape"]),
                     case, impl=got, model=want)
    # KL
    kl_jobs, kl_cases = [], []
    for n in range(1, 5):
        for (bp, bq) in (((), ()), ((2,), (2,)), ((2,), ()), ((), (2,))):
            # structured operators on BOTH sides: with themselves, with the dense tensor, and with a rotating partner
            rot = lambda x, k: (REPS + NEW_REPS)[(NEW_REPS.index(x) + n + len(bp) + seed + k) % (len(REPS) + len(NEW_REPS))]  # noqa: E731
            new_pairs = []
            for x in NEW_REPS:
                new_pairs += [(x, x), (x, "dense"), ("dense", x), (x, rot(x, 0)), (rot(x, 3), x)]
                if tier != "quick":
                    new_pairs += [(x, y) for y in REPS + NEW_REPS] + [(y, x) for y in REPS]
            for rp, rq in list(itertools.product(REPS, REPS)) + [("lazymeanbroadcast", "dense"), ("dense", "lazymeanbroadcast"),
                                                                  ("lazymeanbroadcast", "lazymeanbroadcast")] + sorted(set(new_pairs)):
                if tier == "quick" and rp in REPS and rq in REPS and (REPS.index(rp) + REPS.index(rq) + n) % 2:
                    continue
                p, mp, cp = make(n, bp, rp, seed=seed + 11, full_rank=True)
                q, mq, cq_ = make(n, bq, rq, seed=seed + 23, full_rank=True)
                case = dict(n=n, p=rp, q=rq, batch_p=list(bp), batch_q=list(bq))
                full = torch.broadcast_shapes(bp, bq)
                try:
                    got = kl_divergence(p, q)
                    got_self = kl_divergence(p, p)
                except Exception as e:
                    out.case(case, True, label="kl")
                    out.fail("kl:%s-%s:raises-%s" % (rp, rq, exc_name(e)), "kl_divergence raised %r" % e, case)
                    continue
                if not torch.allclose(got_self, torch.zeros_like(got_self), atol=1e-9):
                    out.fail("kl:self:%s" % rp, "KL(p || p) != 0", case, impl=got_self)
                kl_jobs.append((case, got, full, len(kl_cases)))
                for b in bidx_iter(full):
                    kl_cases.append("(%d%%nat, %s, %s, %s, %s)" % (
                        n, C.qc_vec(mp.expand(*full, n)[b].tolist()), C.qc_mat(cp.expand(*full, n, n)[b].tolist()),
                        C.qc_vec(mq.expand(*full, n)[b].tolist()), C.qc_mat(cq_.expand(*full, n, n)[b].tolist())))
    res = C.coq_run_cases("C10_kl", IMPORTS, "Definition run := run_kl.", kl_cases, shard=max(8, len(kl_cases) // 16 + 1))
    vals = []
    for r in res:
        rd = C.Reader(r)
        vals.append(float(rd.expr()) if rd.int() == 1 else None)
    for case, got, full, start in kl_jobs:
        bl = bidx_iter(full)
        want = torch.tensor([vals[start + i] for i in range(len(bl))]).reshape(full)
        out.case(case, case["n"] > 1, label="kl")
        if not (got.shape == want.shape and torch.allclose(got, want, atol=1e-8, rtol=1e-9)):
            out.fail("kl:%s-%s" % (case["p"], case["q"]), "kl_divergence differs from the closed form", case, impl=got, model=want)


# --------------------------------------------------------------------------- sampling and affine operations

def same(got, want, shape, atol=1e-12):
    """public value has exactly the documented shape and the expected entries"""
    return tuple(got.shape) == tuple(shape) and torch.allclose(got, want.expand(*shape), atol=atol)


def run_sampling_affine(out, ctx):
    from gpytorch.distributions import MultivariateNormal as MVN
    seed = ctx["seed"]
    rs_jobs, rs_cases = [], []
    af_jobs, af_cases = [], []
    for n in range(1, 5):
        for bshape in ((), (2,), (2, 3)):
            for rep in REPS_ALL:
                if rep in NEW_REPS and bshape == (2, 3) and ctx["tier"] == "quick" and (NEW_REPS.index(rep) + n + seed) % 3:
                    continue        # rank-2 batches of the structured operators: a rotating third per run
                d, mean, cov = make(n, bshape, rep, seed=seed + 5)
                case = dict(n=n, batch_shape=list(bshape), rep=rep)
                nt = n > 1
                # variance / stddev / confidence region
                out.case(dict(case, what="variance"), nt, label="variance")
                var = cov.diagonal(dim1=-1, dim2=-2)
                try:
                    full = tuple(bshape) + (n,)
                    if not (same(d.variance, var, full) and same(d.stddev, var.sqrt(), full)):
                        out.fail("variance:%s" % rep, "variance / stddev are not diag / sqrt(diag)", case, impl=d.variance, model=var)
                    lo, hi = d.confidence_region()
                    if not (same(lo, mean - 2 * var.sqrt(), full) and same(hi, mean + 2 * var.sqrt(), full)):
                        out.fail("confidence_region:%s" % rep, "confidence_region != mean -/+ 2 stddev", case,
                                 impl=[lo, hi], model=[mean - 2 * var.sqrt(), mean + 2 * var.sqrt()])
                    if not same(d.variance, var, full):
                        out.fail("confidence_region:%s:mutates" % rep, "confidence_region changed the variance it reports afterwards", case)
                    if not (torch.allclose(d.covariance_matrix, cov, atol=1e-12) and torch.equal(d.mean, mean)):
                        out.fail("ctor:%s" % rep, "mean / covariance_matrix are not the ones passed in", case)
                    if tuple(d.batch_shape) != tuple(bshape) or tuple(d.event_shape) != (n,):
                        out.fail("ctor:%s:shape" % rep, "batch_shape / event_shape are not those of the broadcast arguments", case,
                                 impl=[list(d.batch_shape), list(d.event_shape)])
                except Exception as ex:
                    out.fail("variance:%s:raises-%s" % (rep, exc_name(ex)), "variance / stddev / confidence_region raised %r" % ex, case)
                # rsample with base samples
                try:
                    root = d.lazy_covariance_matrix.root_decomposition().root.to_dense()
                    r = root.shape[-1]
                    bsz = d.base_sample_shape[-1]
                except Exception as ex:
                    out.fail("rsample:%s:root:raises-%s" % (rep, exc_name(ex)), "root_decomposition / base_sample_shape raised %r" % ex, case)
                    root = None
                g = torch.Generator().manual_seed(n + len(bshape))
                for ss in ((), (3,), (2, 2)) if root is not None else ():
                    e = dyadic(g, *ss, *bshape, bsz)
                    out.case(dict(case, what="rsample", sample_shape=list(ss)), nt, label="rsample")
                    try:
                        smp = d.rsample(base_samples=e)
                    except Exception as ex:
                        out.fail("rsample:%s:raises-%s" % (rep, exc_name(ex)), "rsample(base_samples) raised %r" % ex,
                                 dict(case, sample_shape=list(ss)))
                        continue
                    if smp.shape != tuple(ss) + tuple(bshape) + (n,):
                        out.fail("rsample:%s:shape" % rep, "rsample(base_samples) has shape %s" % (tuple(smp.shape),),
                                 dict(case, sample_shape=list(ss)))
                        continue
                    rootb = root.expand(*bshape, n, r)
                    if not torch.allclose(rootb @ rootb.transpose(-1, -2), cov, atol=1e-8):
                        out.fail("rsample:%s:root" % rep, "root_decomposition().root is not a root of the covariance", case)
                        continue
                    eb = e[..., :r] if r <= bsz else None
                    if eb is None:
                        continue
                    flat_e = eb.reshape(-1, *bshape, r)
                    flat_s = smp.reshape(-1, *bshape, n)
                    for si in range(min(flat_e.shape[0], 2)):
                        for b in bidx_iter(bshape)[:2]:
                            rs_jobs.append((dict(case, sample_shape=list(ss)), flat_s[si][b], len(rs_cases)))
                            rs_cases.append("(%d%%nat, %d%%nat, %s, %s, %s)" % (
                                n, r, C.qc_vec(mean[b].tolist()), C.qc_mat(rootb[b].tolist()), C.qc_vec(flat_e[si][b].tolist())))
                torch.manual_seed(seed)
                for ss in ((), (1,), (2,), (3,), (2, 2)):
                    out.case(dict(case, what="rsample-drawn", sample_shape=list(ss)), nt, label="rsample-drawn")
                    try:
                        s0 = d.rsample(torch.Size(ss))
                    except Exception as ex:
                        out.fail("rsample:%s:sample-shape:raises-%s" % (rep, exc_name(ex)),
                                 "rsample(sample_shape) raised %r" % ex, dict(case, sample_shape=list(ss)))
                        continue
                    if s0.shape != tuple(ss) + tuple(bshape) + (n,):
                        out.fail("rsample:%s:sample-shape" % rep, "rsample(sample_shape) has shape %s" % (tuple(s0.shape),),
                                 dict(case, sample_shape=list(ss)))
                # scalar ops, through the Coq model on batch element 0
                for op, (name, c, fn) in enumerate([("add", 2.5, lambda x, c: x + c), ("mul", -1.5, lambda x, c: x * c),
                                                    ("div", 4.0, lambda x, c: x / c), ("jitter", 0.125, lambda x, c: x.add_jitter(c))]):
                    out.case(dict(case, what=name), nt, label="affine:" + name)
                    try:
                        r2 = fn(d, c)
                        m2, c2, v2 = r2.mean, r2.covariance_matrix, r2.variance
                    except Exception as ex:
                        out.fail("%s:%s:raises-%s" % (name, rep, exc_name(ex)), "%s raised %r" % (name, ex), case)
                        continue
                    b0 = bidx_iter(bshape)[-1]
                    af_jobs.append((dict(case, what=name, c=c), m2.expand(*bshape, n)[b0], c2.expand(*bshape, n, n)[b0],
                                    v2.expand(*bshape, n)[b0], len(af_cases)))
                    af_cases.append("(%d%%nat, %d, %s, %s, %s)" % (n, op, C.qc_lit(c), C.qc_vec(mean[b0].tolist()), C.qc_mat(cov[b0].tolist())))
                try:
                    if (d * 1) is not d and not torch.equal((d * 1).mean, mean):
                        out.fail("mul:one", "d * 1 changes the distribution", case)
                except Exception as ex:
                    out.fail("mul:%s:raises-%s" % (rep, exc_name(ex)), "d * 1 raised %r" % ex, case)
                # sum of independent MVNs (every representation pair)
                for rep2 in REPS + [NEW_REPS[(n + len(bshape) + REPS_ALL.index(rep) + seed) % len(NEW_REPS)]]:
                    d2, mean2, cov2 = make(n, bshape, rep2, seed=seed + 17)
                    out.case(dict(case, what="sum", rep2=rep2), nt, label="affine:sum")
                    try:
                        s = d + d2
                        s.covariance_matrix
                    except Exception as e2:
                        out.fail("sum:%s+%s:raises-%s" % (rep, rep2, exc_name(e2)), "d1 + d2 raised %r" % e2, dict(case, rep2=rep2))
                        continue
                    if not (torch.allclose(s.mean, mean + mean2, atol=1e-12) and torch.allclose(s.covariance_matrix, cov + cov2, atol=1e-12)):
                        out.fail("sum:%s+%s" % (rep, rep2), "d1 + d2 is not (m1 + m2, C1 + C2)", dict(case, rep2=rep2),
                                 impl=s.covariance_matrix, model=cov + cov2)
                try:
                    if not torch.allclose(sum([d, d]).covariance_matrix, 2 * cov, atol=1e-12):
                        out.fail("sum:radd:%s" % rep, "sum([d, d]) is not (2m, 2C)", case)
                except Exception as e2:
                    out.fail("sum:%s+%s:raises-%s" % (rep, rep, exc_name(e2)), "sum([d, d]) raised %r" % e2, case)
                # expand / unsqueeze
                for tgt in ((3,) + tuple(bshape), (2,) + tuple(bshape)):
                    out.case(dict(case, what="expand", to=list(tgt)), nt, label="expand")
                    try:
                        ex = d.expand(torch.Size(tgt))
                        ok = ex.mean.shape == tgt + (n,) and torch.equal(ex.mean, mean.expand(*tgt, n)) and \
                            torch.allclose(ex.covariance_matrix, cov.expand(*tgt, n, n), atol=1e-12) and ex.batch_shape == torch.Size(tgt)
                    except Exception as e2:
                        out.fail("expand:%s:raises-%s" % (rep, exc_name(e2)), "expand raised %r" % e2, dict(case, to=list(tgt)))
                        continue
                    if not ok:
                        out.fail("expand:%s" % rep, "expand changes mean / covariance", dict(case, to=list(tgt)))
                for dim in range(-len(bshape) - 1, len(bshape) + 1):
                    out.case(dict(case, what="unsqueeze", dim=dim), nt, label="unsqueeze")
                    try:
                        u = d.unsqueeze(dim)
                        pd = dim if dim >= 0 else len(bshape) + dim + 1
                        ok = torch.equal(u.mean, mean.unsqueeze(pd)) and torch.allclose(u.covariance_matrix, cov.unsqueeze(pd), atol=1e-12) \
                            and list(u.batch_shape) == list(mean.unsqueeze(pd).shape[:-1])
                    except Exception as e2:
                        out.fail("unsqueeze:%s:raises-%s" % (rep, exc_name(e2)), "unsqueeze raised %r" % e2, dict(case, dim=dim))
                        continue
                    if not ok:
                        out.fail("unsqueeze:%s" % rep, "unsqueeze changes mean / covariance or the batch shape", dict(case, dim=dim))
                for dim in (len(bshape) + 1, -len(bshape) - 2):
                    try:
                        d.unsqueeze(dim)
                        out.fail("unsqueeze:accepts-invalid-dim", "unsqueeze accepts a dimension outside the batch dimensions", dict(case, dim=dim))
                    except IndexError:
                        pass
                    except Exception as e2:
                        out.fail("unsqueeze:invalid-dim:raises-%s" % exc_name(e2), "unsqueeze raised %r instead of IndexError" % e2, dict(case, dim=dim))
    res = C.coq_run_cases("C10_rs", IMPORTS, "Definition run := run_rsample.", rs_cases, shard=max(8, len(rs_cases) // 16 + 1))
    for (case, got, k), r in zip(rs_jobs, res):
        n = case["n"]
        rd = C.Reader(r)
        want = [float(x) for x in rd.qs(n)]
        if not all(C.close(got[i].item(), want[i], 1e-9, 1e-9) for i in range(n)):
            out.fail("rsample:%s" % case["rep"], "rsample(base_samples=e) != mean + L e for the operator's own root L", case,
                     impl=got, model=want)
    res = C.coq_run_cases("C10_af", IMPORTS, "Definition run := run_affine.", af_cases, shard=max(8, len(af_cases) // 16 + 1))
    for (case, m2, c2, v2, k), r in zip(af_jobs, res):
        n = case["n"]
        rd = C.Reader(r)
        wm = [float(x) for x in rd.qs(n)]
        wc = [[float(x) for x in row] for row in rd.qmat(n, n)]
        wv = [float(x) for x in rd.qs(n)]
        ok = all(C.close(m2[i].item(), wm[i], 1e-12, 1e-12) for i in range(n)) and \
            all(C.close(c2[i][j].item(), wc[i][j], 1e-12, 1e-12) for i in range(n) for j in range(n)) and \
            all(C.close(v2[i].item(), wv[i], 1e-12, 1e-12) for i in range(n))
        if not ok:
            out.fail("%s:%s" % (case["what"], case["rep"]), "%s by %s does not act on (mean, cov) as on the random vector" % (case["what"], case["c"]),
                     case, impl=[m2, c2], model=[wm, wc])


# --------------------------------------------------------------------------- broadcasting sweep (KL, log_prob, sums, expand)

SW_SIZES = (1, 2, 3)
SW_SHAPES = [()] + [(a,) for a in SW_SIZES] + [(a, b) for a in SW_SIZES for b in SW_SIZES]
SW_REPS = ["dense", "lazydense", "diag", "root", "lazysum"]


def broadcastable(s, t):
    try:
        return tuple(torch.broadcast_shapes(tuple(s), tuple(t)))
    except RuntimeError:
        return None


SW_PAIRS = [(s, t) for s in SW_SHAPES for t in SW_SHAPES if broadcastable(s, t) is not None]


def pool_index(shape, b):
    """position in the 3 x 3 pool of the slice that sits at batch index b of a distribution of batch shape `shape`
    (rank 0: pool[0,0]; rank 1 (a,): pool[0,:a]; rank 2 (a,b): pool[:a,:b])"""
    b = tuple(b)
    return (0,) * (2 - len(shape)) + b


def sub_index(shape, full, b):
    """batch index into a tensor of batch shape `shape` that broadcasting to `full` puts at position b of the result"""
    off = len(full) - len(shape)
    return tuple(0 if shape[i] == 1 else b[off + i] for i in range(len(shape)))


def pool_slice(shape):
    return (0, 0) if len(shape) == 0 else ((0, slice(0, shape[0])) if len(shape) == 1 else (slice(0, shape[0]), slice(0, shape[1])))


def pool(n, rep, seed):
    """ingredients of 9 different Gaussians of event size n (a 3 x 3 batch) in representation rep"""
    g = torch.Generator().manual_seed(seed * 104729 + 31 * n + SW_REPS.index(rep))
    ing = dict(mean=dyadic(g, 3, 3, n))
    A = dyadic(g, 3, 3, n, n, den=2, rng=3)
    dense = A @ A.transpose(-1, -2) / 4 + torch.eye(n) * 1.5
    if rep in ("dense", "lazydense"):
        ing.update(dense=dense, cov=dense)
    elif rep == "diag":
        dg = dyadic(g, 3, 3, n, den=8, rng=6).abs() + 0.5
        ing.update(dg=dg, cov=torch.diag_embed(dg))
    elif rep == "root":
        R = dyadic(g, 3, 3, n, n, den=2, rng=2) + 3 * torch.eye(n)
        ing.update(R=R, cov=R @ R.transpose(-1, -2))
    else:
        dg = dyadic(g, 3, 3, n, den=8, rng=6).abs() + 0.25
        ing.update(dense=dense, dg=dg, cov=dense + torch.diag_embed(dg))
    return ing


def pool_dist(ing, rep, shape):
    """the distribution of batch shape `shape` built from the pool (constructed from sliced ingredients, not by indexing
    a distribution); returns (dist, mean, dense covariance)"""
    from gpytorch.distributions import MultivariateNormal as MVN
    from linear_operator.operators import DenseLinearOperator, DiagLinearOperator, RootLinearOperator
    sl = pool_slice(shape)
    cut = lambda t: t[sl].clone()  # noqa: E731
    mean, cov = cut(ing["mean"]), cut(ing["cov"])
    if rep == "dense":
        arg = cut(ing["dense"])
    elif rep == "lazydense":
        arg = DenseLinearOperator(cut(ing["dense"]))
    elif rep == "diag":
        arg = DiagLinearOperator(cut(ing["dg"]))
    elif rep == "root":
        arg = RootLinearOperator(cut(ing["R"]))
    else:
        arg = DenseLinearOperator(cut(ing["dense"])) + DiagLinearOperator(cut(ing["dg"]))
    return MVN(mean, arg), mean, cov


def shape_class(s, t):
    """stable description of how two batch shapes relate (for failure keys)"""
    full = broadcastable(s, t)
    side = lambda x: "same" if tuple(x) == full else ("lower-rank" if len(x) < len(full) else "size1-expanded")  # noqa: E731
    return "p-%s:q-%s" % (side(s), side(t))


def run_broadcast(out, ctx):
    """every broadcastable pair of batch shapes of rank 0..2 with sizes in {1,2,3} (123 ordered pairs, different ranks on
    both sides included): KL(p || q), log_prob(value) and p + q, each element compared with the closed form of the two
    slices that broadcasting puts at that position; expand to every admissible target."""
    import gpytorch
    from torch.distributions import kl_divergence
    tier, seed = ctx["tier"], ctx["seed"]
    ns = (1, 2, 3)
    pools = {}

    # ---- the index map used below (which slice of which operand sits where) is the Coq model's (Models/C10_broadcast.v,
    # theorems c10_broadcast_*): every ordered pair of the 13 shapes, broadcastable or not, against torch.broadcast_shapes /
    # Tensor.expand and against sub_index
    allp = [(s_, t_) for s_ in SW_SHAPES for t_ in SW_SHAPES]
    res = C.coq_run_cases("C10_bc", IMPORTS + "\nFrom GPV Require Import Models.C10_broadcast.", "Definition run := run_broadcast.",
                          ["(%s, %s)" % (C.nat_list(list(s_)) if s_ else "(@nil nat)", C.nat_list(list(t_)) if t_ else "(@nil nat)")
                           for s_, t_ in allp], shard=32)
    for (s_, t_), r in zip(allp, res):
        full = broadcastable(s_, t_)
        case = dict(shape_p=list(s_), shape_q=list(t_), what="broadcast-model")
        out.case(case, s_ != t_, label="broadcast-model")
        rd = C.Reader(r)
        if rd.int() == 0:
            if full is not None:
                out.fail("model:broadcast:acceptance", "Coq model rejects a pair torch broadcasts", case, impl=list(full))
            continue
        if full is None:
            out.fail("model:broadcast:acceptance", "Coq model broadcasts a pair torch rejects", case)
            continue
        rank = rd.int()
        mshape = tuple(rd.int() for _ in range(rank))
        ids_s = torch.arange(int(math.prod(s_))).reshape(s_).expand(full) if len(full) else torch.arange(1).reshape(())
        ids_t = torch.arange(int(math.prod(t_))).reshape(t_).expand(full) if len(full) else torch.arange(1).reshape(())
        ok = mshape == tuple(full)
        for b in (bidx_iter(full) if ok else []):
            ms = tuple(rd.int() for _ in range(len(s_)))
            mt = tuple(rd.int() for _ in range(len(t_)))
            flat = lambda idx, shp: int(torch.arange(int(math.prod(shp))).reshape(shp)[idx]) if shp else 0  # noqa: E731
            if ms != sub_index(s_, full, b) or mt != sub_index(t_, full, b) or flat(ms, s_) != int(ids_s[b]) or flat(mt, t_) != int(ids_t[b]):
                ok = False
                break
        if not ok:
            out.fail("model:broadcast:index-map", "Coq broadcast model, sub_index and torch's expand disagree", case, model=list(mshape))

    def get_pool(n, rep, which):
        k = (n, rep, which)
        if k not in pools:
            pools[k] = pool(n, rep, seed * 3 + which + 1)
        return pools[k]

    def rep_pairs(n):
        if tier != "quick":
            return list(itertools.product(SW_REPS, SW_REPS))
        rot = [(SW_REPS[i], SW_REPS[(i + 1 + (seed + n) % 4) % 5]) for i in range(5)]
        return [("dense", "dense")] + [x for x in rot if x != ("dense", "dense")]

    # ---- KL
    memo, cases = {}, []

    def want_idx(kind, key, term):
        if (kind, key) not in memo:
            memo[(kind, key)] = len(cases)
            cases.append((kind, term))
        return memo[(kind, key)]

    kl_jobs = []
    for n in ns:
        for rp, rq in rep_pairs(n):
            ip, iq = get_pool(n, rp, 0), get_pool(n, rq, 1)
            for bp, bq in SW_PAIRS:
                full = broadcastable(bp, bq)
                p, mp, cp = pool_dist(ip, rp, bp)
                q, mq, cq_ = pool_dist(iq, rq, bq)
                case = dict(n=n, p=rp, q=rq, batch_p=list(bp), batch_q=list(bq), sweep=True)
                out.case(case, n > 1 and bp != bq, label="kl:broadcast-sweep")
                try:
                    got = kl_divergence(p, q)
                except Exception as e:
                    out.fail("kl:broadcast:%s:%s-%s:raises-%s" % (shape_class(bp, bq), rp, rq, exc_name(e)),
                             "kl_divergence raised %r for batch shapes %s and %s (broadcast: %s)" % (e, bp, bq, full), case)
                    continue
                refs = []
                for b in bidx_iter(full):
                    i, j = pool_index(bp, sub_index(bp, full, b)), pool_index(bq, sub_index(bq, full, b))
                    refs.append(want_idx("kl", (n, rp, rq, i, j), "(%d%%nat, %s, %s, %s, %s)" % (
                        n, C.qc_vec(ip["mean"][i].tolist()), C.qc_mat(ip["cov"][i].tolist()),
                        C.qc_vec(iq["mean"][j].tolist()), C.qc_mat(iq["cov"][j].tolist()))))
                kl_jobs.append((case, got, full, refs))
    kl_terms = [t for k, t in cases]
    res = C.coq_run_cases("C10_klb", IMPORTS, "Definition run := run_kl.", kl_terms, shard=max(8, len(kl_terms) // 16 + 1))
    vals = []
    for r in res:
        rd = C.Reader(r)
        vals.append(float(rd.expr()) if rd.int() == 1 else float("nan"))
    for case, got, full, refs in kl_jobs:
        want = torch.tensor([vals[i] for i in refs]).reshape(full)
        if not (tuple(got.shape) == tuple(full) and torch.allclose(got, want, atol=1e-8, rtol=1e-9)):
            bp, bq = tuple(case["batch_p"]), tuple(case["batch_q"])
            out.fail("kl:broadcast:%s:%s-%s" % (shape_class(bp, bq), case["p"], case["q"]),
                     "kl_divergence of batch shapes %s and %s is not the closed form of the broadcast slices (shape %s)" % (bp, bq, full),
                     case, impl=got, model=want)

    # ---- log_prob: distribution batch shape x value batch shape
    memo.clear()
    cases.clear()
    lp_jobs = []
    for n in (2, 3):
        g = torch.Generator().manual_seed(seed * 17 + n)
        V = dyadic(g, 3, 3, n)
        for rep in SW_REPS:
            ing = get_pool(n, rep, 0)
            for bd, bv in SW_PAIRS:
                full = broadcastable(bd, bv)
                d, mean, cov = pool_dist(ing, rep, bd)
                v = V[pool_slice(bv)].clone()
                refs = []
                for b in bidx_iter(full):
                    i, j = pool_index(bd, sub_index(bd, full, b)), pool_index(bv, sub_index(bv, full, b))
                    refs.append(want_idx("lp", (n, rep, i, j), "(%d%%nat, %s, %s, %s)" % (
                        n, C.qc_vec(ing["mean"][i].tolist()), C.qc_mat(ing["cov"][i].tolist()), C.qc_vec(V[j].tolist()))))
                for fast in (True, False):
                    case = dict(n=n, rep=rep, batch_shape=list(bd), value_shape=list(bv) + [n], fast=fast, sweep=True)
                    out.case(case, bd != bv, label="log_prob:broadcast-sweep")
                    try:
                        with gpytorch.settings.fast_computations(log_prob=fast), gpytorch.settings.max_cholesky_size(10 ** 6):
                            got = d.log_prob(v)
                    except Exception as e:
                        out.fail("log_prob:broadcast:%s:%s:raises-%s:%s" % (shape_class(bd, bv).replace("p-", "d-").replace("q-", "v-"), rep,
                                                                          exc_name(e), "fast" if fast else "cholesky"),
                                 "log_prob raised %r for distribution batch %s and value batch %s" % (e, bd, bv), case)
                        continue
                    lp_jobs.append((case, got, full, refs))
    lp_terms = [t for k, t in cases]
    res = C.coq_run_cases("C10_lpb", IMPORTS, "Definition run := run_logprob.", lp_terms, shard=max(8, len(lp_terms) // 16 + 1))
    vals = []
    for r in res:
        rd = C.Reader(r)
        vals.append(float(rd.expr()) if rd.int() == 1 else float("nan"))
    for case, got, full, refs in lp_jobs:
        want = torch.tensor([vals[i] for i in refs]).reshape(full)
        if not (tuple(got.shape) == tuple(full) and torch.allclose(got, want, atol=1e-8, rtol=1e-9)):
            bd, bv = tuple(case["batch_shape"]), tuple(case["value_shape"][:-1])
            out.fail("log_prob:broadcast:%s:%s:%s" % (shape_class(bd, bv).replace("p-", "d-").replace("q-", "v-"), case["rep"],
                                                       "fast" if case["fast"] else "cholesky"),
                     "log_prob with distribution batch %s and value batch %s is not the density of the broadcast slices" % (bd, bv),
                     case, impl=got, model=want)

    # ---- p + q and expand (exact copies: compared with torch broadcasting of the ingredients)
    for n in (1, 3):
        for rp, rq in rep_pairs(n):
            ip, iq = get_pool(n, rp, 0), get_pool(n, rq, 1)
            for bp, bq in SW_PAIRS:
                full = broadcastable(bp, bq)
                p, mp, cp = pool_dist(ip, rp, bp)
                q, mq, cq_ = pool_dist(iq, rq, bq)
                case = dict(n=n, p=rp, q=rq, batch_p=list(bp), batch_q=list(bq), what="sum", sweep=True)
                out.case(case, bp != bq, label="affine:sum:broadcast-sweep")
                try:
                    s = p + q
                    sm, sc, sv, sb = s.mean, s.covariance_matrix, s.variance, tuple(s.batch_shape)
                except Exception as e:
                    out.fail("sum:broadcast:%s:%s+%s:raises-%s" % (shape_class(bp, bq), rp, rq, exc_name(e)),
                             "p + q raised %r for batch shapes %s and %s" % (e, bp, bq), case)
                    continue
                wm, wc = (mp + mq).expand(*full, n), (cp + cq_).expand(*full, n, n)
                if not (sb == full and same(sm, wm, full + (n,)) and same(sc, wc, full + (n, n))
                        and same(sv, wc.diagonal(dim1=-1, dim2=-2), full + (n,))):
                    out.fail("sum:broadcast:%s:%s+%s" % (shape_class(bp, bq), rp, rq),
                             "p + q for batch shapes %s and %s is not (m1 + m2, C1 + C2) broadcast to %s" % (bp, bq, full), case,
                             impl=[sm, sc], model=[wm, wc])
        for rep in SW_REPS:
            ing = get_pool(n, rep, 0)
            for bd, tgt in SW_PAIRS:
                if broadcastable(bd, tgt) != tuple(tgt):
                    continue
                for lead in ((), (2,)):
                    to = lead + tuple(tgt)
                    d, mean, cov = pool_dist(ing, rep, bd)
                    case = dict(n=n, rep=rep, batch_shape=list(bd), what="expand", to=list(to), sweep=True)
                    out.case(case, tuple(bd) != to, label="expand:broadcast-sweep")
                    try:
                        ex = d.expand(torch.Size(to))
                        ok = tuple(ex.batch_shape) == to and same(ex.mean, mean, to + (n,)) and same(ex.covariance_matrix, cov, to + (n, n)) \
                            and same(ex.variance, cov.diagonal(dim1=-1, dim2=-2), to + (n,))
                    except Exception as e:
                        out.fail("expand:broadcast:%s:raises-%s" % (rep, exc_name(e)), "expand(%s) of batch shape %s raised %r" % (to, bd, e), case)
                        continue
                    if not ok:
                        out.fail("expand:broadcast:%s" % rep, "expand(%s) of batch shape %s changes mean / covariance / batch_shape" % (to, bd), case)


# --------------------------------------------------------------------------- variance clamp: dtype x default dtype x floors

DT = {"float32": torch.float32, "float64": torch.float64, "float16": torch.float16}
DT_CODE = {"float32": 0, "float64": 1, "float16": 2}
DT_RTOL = {"float32": 4e-6, "float64": 1e-12, "float16": 4e-3}
CLAMP_FORMS = ["tensor", "denseop", "diagop", "rootop", "lazysum", "broadcast"]
CLAMP_FLOORS = [None, dict(float_value=1e-5, double_value=1e-9, half_value=2e-3), dict(float_value=1e-8, double_value=1e-4, half_value=1e-3)]


def clamp_variances(rng, tdt, k):
    """k vectors (length 1..4) of marginal variances s^2, s = m 2^e with m in {1, 1.5, 2.5, 3} (so that standard deviations and
    covariance entries are exact in every dtype and short as rationals), spanning the min_variance floors of every dtype
    (1e-12 .. 1e-3) and O(1)"""
    lo = -20 if tdt != "float16" else -6
    sq = lambda m, e: (m * 2.0 ** e) ** 2  # noqa: E731
    #        1e-8 9e-10 1 4e-8                              3e-7 2e-11                  1e-12 5e-4 2e-3 0.5
    fixed = [[sq(1.5, -14), sq(1, -15), 1.0, sq(1.5, -13)], [sq(2.5, -12), sq(1.5, -18)], [sq(1, -20), sq(1.5, -6), sq(1.5, -5), sq(1.5, -1)],
             [4.0], [sq(1.5, -9), sq(2.5, -11), sq(1, -16), sq(3, -15)]]
    if tdt == "float16":
        fixed = [[sq(1.5, -6), sq(2.5, -6), 1.0, sq(1.5, -5) * 1.0], [sq(1, -6), 0.25]]
    out = fixed[:max(1, k // 2)]
    while len(out) < k:
        out.append([sq(rng.choice([1, 1.5, 2.5, 3]), rng.randint(lo, 0)) for _ in range(rng.randint(1, 4))])
    return out


def clamp_build(form, mean, var, dt):
    """(dist, model covariance rows or root rows (exact values of the tensors handed over), is_root, r) per batch element"""
    from gpytorch.distributions import MultivariateNormal as MVN
    from linear_operator.operators import DenseLinearOperator, DiagLinearOperator, RootLinearOperator
    n = var.shape[-1]
    sd = var.sqrt()
    corr = torch.full((n, n), 0.25, dtype=dt) + 0.75 * torch.eye(n, dtype=dt)
    cov = sd.unsqueeze(-1) * corr * sd.unsqueeze(-2)
    if form == "tensor":
        return MVN(mean, cov), cov, False
    if form == "denseop":
        return MVN(mean, DenseLinearOperator(cov)), cov, False
    if form == "diagop":
        return MVN(mean, DiagLinearOperator(var)), torch.diag_embed(var), False
    if form == "rootop":
        mix = torch.tensor([[1.0, 0.5, 0.0, 0.0, 0.25], [0.0, 1.0, 0.5, 0.0, 0.0], [0.5, 0.0, 1.0, 0.0, 0.0], [0.0, 0.0, 0.5, 1.0, 0.5]],
                           dtype=dt)[:n, :n + 1]
        R = sd.unsqueeze(-1) * mix
        return MVN(mean, RootLinearOperator(R)), R, True
    if form == "lazysum":
        half = cov * 0.5
        return MVN(mean, DenseLinearOperator(half) + DiagLinearOperator(half.diagonal(dim1=-1, dim2=-2))), \
            half + torch.diag_embed(half.diagonal(dim1=-1, dim2=-2)), False
    raise ValueError(form)


def run_clamp(out, ctx):
    """MultivariateNormal.variance / stddev / confidence_region / to_data_independent_dist against the Coq clamp model
    (Models/C10_seq.v run_variance) instantiated at the floor of the TENSOR's dtype, with the process default dtype set to
    float32 and to float64, float32 / float64 (/ float16 where torch has the kernels) distributions, default and overridden
    settings.min_variance floors, and variances on both sides of every floor"""
    import warnings
    from gpytorch import settings as gs
    tier, seed = ctx["tier"], ctx["seed"]
    rng = random.Random(seed * 7907 + 11)
    jobs, terms = [], []
    saved = torch.get_default_dtype()
    try:
        for ddt in ("float32", "float64"):
            torch.set_default_dtype(DT[ddt])
            for tdt in ("float64", "float32", "float16"):
                dt = DT[tdt]
                for fi, fl in enumerate(CLAMP_FLOORS):
                    forms = CLAMP_FORMS if tdt != "float16" else ["denseop", "diagop"]      # no Cholesky kernels for half on CPU
                    for vec in clamp_variances(rng, tdt, (4 if tier == "quick" else 12) if tdt != "float16" else 2):
                        n = len(vec)
                        for bshape in ((), (2,)):
                            for form in forms:
                                var = torch.tensor(vec, dtype=dt)
                                if bshape:
                                    var = torch.stack([var, var.flip(-1) * 2])
                                mean = torch.tensor([((i * 3 + 1) % 7 - 3) / 4 for i in range(n)], dtype=dt).expand(*bshape, n).clone()
                                case = dict(what="variance-clamp", default_dtype=ddt, dtype=tdt, floors=fi, variances=vec, batch_shape=list(bshape),
                                            form=form)
                                key = "clamp:%s:%s:default-%s" % (form, tdt, ddt)
                                out.case(case, True, label="clamp:%s/default-%s" % (tdt, ddt))
                                try:
                                    with warnings.catch_warnings(), (gs.min_variance(**fl) if fl else gs.min_variance()):
                                        warnings.simplefilter("ignore")
                                        floors = [gs.min_variance.value(torch.float), gs.min_variance.value(torch.double),
                                                  gs.min_variance.value(torch.half)]
                                        if form == "broadcast":
                                            d, marg, isroot = clamp_build("denseop", mean[0] if bshape else mean, var[0] if bshape else var, dt)
                                            from gpytorch.distributions import MultivariateNormal as MVN
                                            d = MVN(mean, d.lazy_covariance_matrix)
                                            marg = marg.expand(*bshape, *marg.shape[-2:])
                                        else:
                                            d, marg, isroot = clamp_build(form, mean, var, dt)
                                        got_var = d.variance
                                        got_sd = d.stddev
                                        lo, hi = d.confidence_region()
                                        var_after = d.variance
                                        ind = d.to_data_independent_dist()
                                        got = [got_var, got_sd, lo, hi, var_after, ind.mean, ind.stddev]
                                except Exception as e:
                                    out.fail(key + ":raises-" + exc_name(e), "variance / stddev / confidence_region raised %r" % e, case)
                                    continue
                                if any(tuple(t.shape) != tuple(bshape) + (n,) or t.dtype != dt for t in got):
                                    out.fail(key + ":shape", "variance / stddev / confidence_region do not have shape batch x n and the dtype of "
                                             "the distribution", case, impl=[[list(t.shape), str(t.dtype)] for t in got])
                                    continue
                                for b in bidx_iter(bshape):
                                    jobs.append((case, key, [t[b].double().tolist() for t in got], mean[b].double().tolist(), len(terms)))
                                    terms.append("(%d, %d, (%s, %s, %s), %d%%nat, %s, %d%%nat, %s)" % (
                                        DT_CODE[ddt], DT_CODE[tdt], C.qc_lit(floors[0]), C.qc_lit(floors[1]), C.qc_lit(floors[2]), n,
                                        "true" if isroot else "false", marg.shape[-1], C.qc_mat(marg[b].double().tolist())))
    finally:
        torch.set_default_dtype(saved)
    res = C.coq_run_cases("C10_clamp", IMPORTS + "\nFrom GPV Require Import Models.C10_seq.", "Definition run := run_variance.", terms,
                          shard=max(16, len(terms) // 16 + 1))
    for (case, key, got, mean, k), r in zip(jobs, res):
        n = len(mean)
        rd = C.Reader(r)
        floor = float(rd.q())
        wv = [float(x) for x in rd.qs(n)]
        wsd = [math.sqrt(x) for x in wv]
        wlo = [mean[i] - 2 * wsd[i] for i in range(n)]
        whi = [mean[i] + 2 * wsd[i] for i in range(n)]
        rt = DT_RTOL[case["dtype"]]
        names = ["variance", "stddev", "confidence_region-lower", "confidence_region-upper", "variance-after-confidence_region",
                 "to_data_independent_dist-mean", "to_data_independent_dist-stddev"]
        wants = [wv, wsd, wlo, whi, wv, mean, wsd]
        for nm, g_, w_ in zip(names, got, wants):
            scale = [max(abs(mean[i]), wsd[i]) if "confidence" in nm else 0.0 for i in range(n)]
            if not all(C.close(g_[i], w_[i], rt * scale[i] + 1e-300, rt) for i in range(n)):
                out.fail("%s:%s" % (key, nm), "%s of a %s distribution (process default dtype %s) is not the one of max(diag, min_variance(%s) = %g)"
                         % (nm, case["dtype"], case["default_dtype"], case["dtype"], floor), case, impl=g_, model=w_)
                break


# --------------------------------------------------------------------------- operation sequences on one object

SEQ_REPS = ["dense", "lazydense", "diag", "root", "lazysum", "rootwide", "lowrankdiag", "kron", "kronsum", "rootsum", "lazybroadcast"]
SEQ_OBS = ["scale_tril", "log_prob-cholesky", "log_prob-fast", "variance", "rsample", "covariance_matrix", "entropy", "precision_matrix",
           "confidence_region", "kl", "none"]
SEQ_OPS = ["mul-neg", "div-neg", "mul-pos", "div-pos", "add-const", "add-mvn", "expand", "unsqueeze", "getitem-event", "getitem-batch",
           "add_jitter", "mul-neg"]


def seq_make(n, bshape, rep, seed):
    from gpytorch.distributions import MultivariateNormal as MVN
    from linear_operator.operators import DenseLinearOperator
    if rep == "lazydense":
        d, mean, cov = make(n, bshape, "dense", seed=seed, full_rank=True)
        return MVN(mean, DenseLinearOperator(cov)), mean, cov
    return make(n, bshape, rep, seed=seed, full_rank=True)


class SeqObj:
    """one object of a sequence: the distribution, its batch shape / event size, and per batch element (row-major) the history
    (index of the start element, tuple of Coq operation terms) the Coq model replays"""

    def __init__(self, dist, bshape, n, elems, made_by, depth):
        self.dist, self.bshape, self.n, self.elems, self.made_by, self.depth = dist, tuple(bshape), n, elems, made_by, depth
        self.observed = []


def seq_refs(n, seed):
    g = torch.Generator().manual_seed(seed * 50021 + n)
    v = dyadic(g, n)
    mq = dyadic(g, n)
    A = dyadic(g, n, n, den=2, rng=3)
    return v, mq, A @ A.transpose(-1, -2) / 4 + torch.eye(n) * 1.5


def seq_observe(obj, kind, refs):
    """read something from the object (this is what fills its caches); returns {name: tensor}"""
    import gpytorch
    from gpytorch.distributions import MultivariateNormal as MVN
    from torch.distributions import kl_divergence
    d, n = obj.dist, obj.n
    v, mq, cq = refs[n]
    if kind == "scale_tril":
        return {"scale_tril": d.scale_tril}
    if kind in ("log_prob-cholesky", "log_prob-fast"):
        with gpytorch.settings.fast_computations(log_prob=(kind == "log_prob-fast")), gpytorch.settings.max_cholesky_size(10 ** 6):
            return {kind: d.log_prob(v)}
    if kind == "variance":
        return {"variance": d.variance, "stddev": d.stddev}
    if kind == "rsample":
        bs = d.base_sample_shape[-1]
        e = torch.cat([torch.zeros(1, bs), torch.eye(bs)]).reshape(bs + 1, *([1] * len(obj.bshape)), bs).expand(bs + 1, *obj.bshape, bs)
        s = d.rsample(base_samples=e.clone())
        cols = s[1:] - s[:1]                                   # columns of the root used: bs x batch x n
        return {"rsample-zero": s[0], "rsample-covariance": torch.einsum("k...i,k...j->...ij", cols, cols)}
    if kind == "covariance_matrix":
        return {"mean": d.mean, "covariance_matrix": d.covariance_matrix, "lazy_covariance_matrix": d.lazy_covariance_matrix.to_dense()}
    if kind == "entropy":
        return {"entropy": d.entropy()}
    if kind == "precision_matrix":
        return {"precision_matrix": d.precision_matrix}
    if kind == "confidence_region":
        lo, hi = d.confidence_region()
        return {"confidence_region-lower": lo, "confidence_region-upper": hi}
    if kind == "kl":
        ref = MVN(mq, cq)
        return {"kl-to-ref": kl_divergence(d, ref), "kl-from-ref": kl_divergence(ref, d)}
    if kind == "independent":
        ind = d.to_data_independent_dist()
        return {"to_data_independent_dist-mean": ind.mean, "to_data_independent_dist-stddev": ind.stddev}
    return {}


def seq_transform(obj, op, rng, seq_seed, force=None):
    """apply one public operation that yields a new object; returns the new SeqObj or None if the operation does not apply"""
    d, n, bshape = obj.dist, obj.n, obj.bshape
    numel = int(math.prod(bshape))
    ids = torch.arange(numel).reshape(bshape)
    pre = ("SObserve",) if obj.observed else ()
    hist = lambda i, *t: (obj.elems[i][0], obj.elems[i][1] + pre + tuple(t))  # noqa: E731
    if op in ("mul-neg", "mul-pos", "div-neg", "div-pos"):
        a = rng.choice([2.0, 0.5, 3.0, 1.5, 4.0, 2] if op.startswith("mul") else [2.0, 0.5, 4.0, 0.25, 2])
        if op.endswith("neg"):
            a = -a
        if rng.random() < 0.15 and op.endswith("neg"):
            a = -1.0 if isinstance(a, float) else -1
        new = d * a if op.startswith("mul") else d / a
        term = "%s %s" % ("SMul" if op.startswith("mul") else "SDiv", C.qc_lit(a))
        return SeqObj(new, bshape, n, [hist(i, term) for i in range(numel)], "%s(%r)" % (op, a), obj.depth + 1)
    if op == "add-const":
        c = rng.choice([2.5, -0.75, 1, -2])
        return SeqObj(d + c, bshape, n, [hist(i, "SAddC %s" % C.qc_lit(c)) for i in range(numel)], "add-const(%r)" % c, obj.depth + 1)
    if op == "add_jitter":
        eps = rng.choice([0.125, 0.5, 2.0 ** -10])
        return SeqObj(d.add_jitter(eps), bshape, n, [hist(i, "SJitter %s" % C.qc_lit(eps)) for i in range(numel)], "add_jitter(%r)" % eps,
                      obj.depth + 1)
    if op == "add-mvn":
        from linear_operator.operators import RootLinearOperator, KroneckerProductLinearOperator
        force = force or {}
        rep2 = force.get("rep2") or rng.choice(SEQ_REPS)
        ob = force["batch"] if "batch" in force else (bshape if rng.random() < 0.6 else bshape[1:])
        ob = tuple(ob)
        d2, m2, c2 = seq_make(n, ob, rep2, force["seed"] if "seed" in force else seq_seed * 31 + obj.depth + 7)
        m2b, c2b = m2.expand(*bshape, n).reshape(numel, n), c2.expand(*bshape, n, n).reshape(numel, n, n)
        swap = force["swap"] if "swap" in force else rng.random() < 0.3
        left, right = (d2, d) if swap else (d, d2)
        if not force and isinstance(right.lazy_covariance_matrix, RootLinearOperator):
            # known finding C10-linear-operator-add-low-rank (X + RootLinearOperator caches a wrong root of the sum): this operand class
            # is probed on its own, with its own keys, by the "sum-density" family below; sequences keep a root operand on the left
            left, right = right, left
            if isinstance(right.lazy_covariance_matrix, RootLinearOperator):
                return None
        if not force and all(isinstance(x.lazy_covariance_matrix, KroneckerProductLinearOperator) for x in (left, right)):
            # known finding C10-linear-operator-sum-kronecker-scaled (Kronecker + Kronecker, then * scalar: logdet raises): probed by the
            # "sum-density ... scaled" family below; kept out of the random sequences
            return None
        new = left + right
        return SeqObj(new, bshape, n, [hist(i, "SAddInd %s %s" % (C.qc_vec(m2b[i].tolist()), C.qc_mat(c2b[i].tolist()))) for i in range(numel)],
                      "add-mvn(%s, batch %s)" % (rep2, list(ob)), obj.depth + 1)
    if op == "expand":
        if numel > 3 or len(bshape) > 1:
            return None
        tgt = (2,) + bshape
        nid = ids.expand(tgt)
        return SeqObj(d.expand(torch.Size(tgt)), tgt, n, [hist(int(i), "SKeep") for i in nid.reshape(-1)], "expand(%s)" % list(tgt), obj.depth + 1)
    if op == "unsqueeze":
        if len(bshape) > 1:
            return None
        dim = rng.randint(-len(bshape) - 1, len(bshape))
        nid = ids.unsqueeze(dim if dim >= 0 else len(bshape) + dim + 1)
        return SeqObj(d.unsqueeze(dim), tuple(nid.shape), n, [hist(int(i), "SKeep") for i in nid.reshape(-1)], "unsqueeze(%d)" % dim, obj.depth + 1)
    if op == "getitem-batch":
        if not bshape:
            return None
        idx = rng.choice([0, -1, slice(0, 1), slice(None, None, 2), slice(None)] + ([(slice(None), 0)] if len(bshape) > 1 else []))
        nid = ids[idx]
        if nid.numel() == 0:
            return None
        return SeqObj(d[idx], tuple(nid.shape), n, [hist(int(i), "SRebuild") for i in nid.reshape(-1)], "getitem-batch(%s)" % C.jsonable(idx),
                      obj.depth + 1)
    if op == "getitem-event":
        if n < 2:
            return None
        choice = rng.choice(["head", "tail", "step", "perm", "perm-ellipsis"])
        last = {"head": slice(0, n - 1), "tail": slice(1, None), "step": slice(None, None, 2),
                "perm": torch.tensor(list(range(n - 1, -1, -1))), "perm-ellipsis": torch.tensor([n - 1] + list(range(n - 1)))}[choice]
        idx = (Ellipsis, last) if (choice != "perm" or not bshape) else tuple([slice(None)] * len(bshape)) + (last,)
        pos = torch.arange(n)[last].tolist()
        return SeqObj(d[idx], bshape, len(pos), [hist(i, "SGet %s" % C.nat_list(pos)) for i in range(numel)], "getitem-event(%s)" % choice,
                      obj.depth + 1)
    raise ValueError(op)


def seq_sign(made_by):
    return made_by.split("(")[0]


def seq_key(desc, name, rep, o, extra=""):
    if desc.get("family") == "sum-density":
        return "sum-density:%s:%s%s%s" % (desc["pair"], "scaled:" if o.depth == 2 else "", name, extra if extra.startswith(":raises") else "")
    return "seq:%s:%s:after-%s%s" % (name, rep, seq_sign(o.made_by), extra)


def run_sequences(out, ctx):
    """random operation sequences (2..5 object-producing operations, interleaved with reads that fill caches) applied to one
    object; EVERY object of the chain is then read completely (mean, covariance, variance, stddev, confidence region, log_prob on
    both paths, KL to and from a reference, entropy, scale_tril, precision, rsample(base_samples), independent marginals) and compared
    with the Coq state machine (Models/C10_seq.v run_seq: the affine law of the composed sequence, theorem c10_op_sequence_is_affine)"""
    import gpytorch
    tier, seed = ctx["tier"], ctx["seed"]
    nseq = 132 if tier == "quick" else 660
    mv = gpytorch.settings.min_variance.value(torch.float64)
    refs = {n: seq_refs(n, seed) for n in range(1, 5)}
    chains = []
    for i in range(nseq):
        rng = random.Random(seed * 1000003 + i)
        rep = SEQ_REPS[i % len(SEQ_REPS)]
        first_obs = SEQ_OBS[(i // len(SEQ_REPS)) % len(SEQ_OBS)]
        first_op = SEQ_OPS[(i + i // (len(SEQ_REPS) * len(SEQ_OBS)) + seed) % len(SEQ_OPS)]
        n = 2 + (i + seed) % 3
        bshape = [(), (2,), (), (2,), (2, 3)][(i // 3 + seed) % 5] if rep != "lazybroadcast" else [(2,), (2, 3)][i % 2]
        desc = dict(what="op-sequence", index=i, rep=rep, n=n, batch_shape=list(bshape), steps=[])
        try:
            d0, m0, c0 = seq_make(n, bshape, rep, seed * 13 + i)
        except Exception as e:
            out.fail("seq:ctor:%s:raises-%s" % (rep, exc_name(e)), "constructor raised %r" % e, desc)
            continue
        numel = int(math.prod(bshape))
        start = (n, m0.reshape(numel, n), c0.expand(*bshape, n, n).reshape(numel, n, n))
        objs = [SeqObj(d0, bshape, n, [(j, ()) for j in range(numel)], "ctor", 0)]
        length = rng.randint(2, 5)
        failed = False
        for step in range(length):
            cur = objs[-1]
            kinds = [first_obs] if step == 0 else [rng.choice(SEQ_OBS) for _ in range(rng.choice([0, 0, 1, 1, 2]))]
            for kind in kinds:
                if kind == "none":
                    continue
                desc["steps"].append("read " + kind)
                try:
                    cur.observed.append((kind, seq_observe(cur, kind, refs)))
                except Exception as e:
                    out.fail("seq:%s:%s:after-%s:raises-%s" % (kind, rep, seq_sign(cur.made_by), exc_name(e)),
                             "reading %s raised %r after the operations %s" % (kind, e, desc["steps"]), dict(desc))
                    failed = True
            if failed:
                break
            new = None
            for attempt in range(6):
                op = first_op if (step == 0 and attempt == 0) else rng.choice(SEQ_OPS)
                try:
                    new = seq_transform(cur, op, rng, seed * 977 + i)
                except Exception as e:
                    desc["steps"].append(op)
                    import traceback as _tb
                    if op == "add-mvn" and "received invalid diagonal" in str(e) and \
                            "kronecker_product_linear_operator.py" in "".join(_tb.format_tb(e.__traceback__)[-2:]):
                        # raised inside the installed linear_operator (outside /repo): KroneckerProductLinearOperator.__add__ of a
                        # DiagLinearOperator with a LARGER batch shape calls add_diagonal, which refuses to broadcast
                        out.fail("external:linear_operator:KroneckerProductLinearOperator.add_diagonal:diag-with-larger-batch",
                                 "Kronecker-covariance MVN + diagonal-covariance MVN of larger batch shape raised %r inside linear_operator" % e,
                                 dict(desc))
                        failed = True
                        break
                    out.fail("seq:%s:%s:after-%s:raises-%s" % (op, rep, seq_sign(cur.made_by), exc_name(e)),
                             "%s raised %r after the operations %s" % (op, e, desc["steps"][:-1]), dict(desc))
                    failed = True
                    break
                if new is not None:
                    break
            if failed or new is None:
                break
            desc["steps"].append(new.made_by)
            objs.append(new)
        chains.append((desc, objs, start, rep))
    # sum-density probe: d1 + d2 for EVERY ordered pair of representations (equal batch shapes at n = 3; batch (2,) + unbatched at
    # n = 2), then the complete read of the sum.  Data independent of the run's seed: the failures of the known finding
    # C10-linear-operator-add-low-rank (right operand with a RootLinearOperator covariance) are the same set in every run
    for n, bl, br in ([(3, (), ()), (2, (2,), ())] if tier == "quick" else [(n_, bl_, br_) for n_ in (1, 2, 3, 4) for bl_, br_ in (((), ()), ((2,), ()), ((2,), (2,)))]):
        for r1 in SEQ_REPS:
            for r2 in SEQ_REPS:
                if r1 == "lazybroadcast" and not bl:
                    continue
                if tier == "quick" and bl != br and r2 not in ("root", "rootwide", "kron", "kronsum", "lowrankdiag", "rootsum"):
                    continue        # broadcasting sums: structured right operands only (the others: run_broadcast)
                desc = dict(what="sum-density", family="sum-density", pair="%s+%s" % (r1, r2), rep=r1, n=n, batch_shape=list(bl), index=len(chains),
                            steps=[])
                try:
                    d0, m0, c0 = seq_make(n, bl, r1, 101)
                    numel = int(math.prod(bl))
                    start = (n, m0.reshape(numel, n), c0.expand(*bl, n, n).reshape(numel, n, n))
                    o0 = SeqObj(d0, bl, n, [(j, ()) for j in range(numel)], "ctor", 0)
                    o1 = seq_transform(o0, "add-mvn", None, 0, force=dict(rep2=r2, batch=br, swap=False, seed=202))
                except Exception as e:
                    out.fail("sum-density:%s+%s:raises-%s" % (r1, r2, exc_name(e)), "d1 + d2 raised %r" % e, desc)
                    continue
                desc["steps"].append(o1.made_by)
                objs = [o0, o1]
                structured = ("kron", "kronsum", "lowrankdiag", "root", "rootwide")
                if tier != "quick" or (r1 in structured and r2 in structured):
                    # ... and the sum scaled by a negative number (the sum operator of two structured operands has its own scaling code)
                    try:
                        objs.append(seq_transform(o1, "mul-neg", random.Random(len(chains)), 0))
                        desc["steps"].append(objs[-1].made_by)
                    except Exception as e:
                        out.fail("sum-density:%s+%s:scaled:raises-%s" % (r1, r2, exc_name(e)), "(d1 + d2) * a raised %r" % e, desc)
                chains.append((desc, objs, start, r1))
    # the model's answers: one Coq case per distinct element history
    memo, terms = {}, []

    def term_index(start, n_final, hist):
        j, ops = hist
        key = (id(start), j, ops, n_final)
        if key not in memo:
            v, mq, cq = refs[n_final]
            memo[key] = len(terms)
            terms.append("(%d%%nat, %s, %s, [%s], %s, %s, %s, %s)" % (start[0], C.qc_vec(start[1][j].tolist()), C.qc_mat(start[2][j].tolist()),
                                                                 "; ".join(ops), C.qc_lit(mv), C.qc_vec(v.tolist()), C.qc_vec(mq.tolist()),
                                                                 C.qc_mat(cq.tolist())))
        return memo[key]

    for desc, objs, start, rep in chains:
        for o in objs:
            o.tix = [term_index(start, o.n, h) for h in o.elems]
    res = C.coq_run_cases("C10_seq", IMPORTS + "\nFrom GPV Require Import Models.C10_seq.", "Definition run := run_seq.", terms,
                          shard=max(8, len(terms) // 32 + 1))
    dec = []
    for r in res:
        rd = C.Reader(r)
        k = rd.int()
        w = dict(n=k, mean=[float(x) for x in rd.qs(k)], cov=[[float(x) for x in row] for row in rd.qmat(k, k)], var=[float(x) for x in rd.qs(k)])
        for nm in ("log_prob", "kl-to-ref", "kl-from-ref"):
            w[nm] = float(rd.expr()) if rd.int() == 1 else float("nan")
        w["entropy"] = float(rd.expr())
        dec.append(w)
    for desc, objs, start, rep in chains:
        for oi, o in enumerate(objs):
            case = dict(desc, object=oi, made_by=o.made_by, steps=desc["steps"])
            if desc.get("family") == "sum-density":
                if oi == 0:
                    continue
                out.case(case, True, label="sum-density")
            else:
                out.case(case, oi > 0, label="op-sequence:object-%s" % ("start" if oi == 0 else seq_sign(o.made_by)))
            W = [dec[t] for t in o.tix]
            if any(w["n"] != o.n for w in W):
                out.fail("model:seq:event-size", "Coq model and driver disagree on the event size", case)
                continue
            b, n = o.bshape, o.n
            T = lambda name, *tail: torch.tensor([w[name] for w in W]).reshape(tuple(b) + tuple(tail))  # noqa: E731
            want = {"mean": T("mean", n), "covariance_matrix": T("cov", n, n), "variance": T("var", n), "log_prob": T("log_prob"),
                    "kl-to-ref": T("kl-to-ref"), "kl-from-ref": T("kl-from-ref"), "entropy": T("entropy")}
            primed = sorted(set(k for k, _ in o.observed))
            reads = list(o.observed)
            order = ["covariance_matrix", "variance", "log_prob-cholesky", "log_prob-fast", "kl", "entropy", "scale_tril", "precision_matrix",
                     "rsample", "confidence_region", "independent"]
            random.Random(seed * 7 + desc["index"] * 11 + oi).shuffle(order)
            for kind in order:
                try:
                    reads.append((kind, seq_observe(o, kind, refs)))
                except Exception as e:
                    out.fail(seq_key(desc, kind, rep, o, ":raises-" + exc_name(e)),
                             "reading %s of the object made by %s raised %r (operations %s; read earlier: %s)" % (kind, o.made_by, e, desc["steps"], primed),
                             case)
            if tuple(o.dist.batch_shape) != tuple(b) or tuple(o.dist.event_shape) != (n,):
                out.fail(seq_key(desc, "shape", rep, o), "batch_shape / event_shape are not those of the operation's result", case,
                         impl=[list(o.dist.batch_shape), list(o.dist.event_shape)], model=[list(b), [n]])
                continue
            bad = set()
            for kind, vals in reads:
                for name, got in vals.items():
                    sd = want["variance"].sqrt()
                    if name in ("mean", "covariance_matrix", "variance"):
                        w_, tol = want[name], (1e-12, 1e-12)
                    elif name == "lazy_covariance_matrix":
                        w_, tol = want["covariance_matrix"], (1e-12, 1e-12)
                    elif name == "rsample-zero":
                        w_, tol = want["mean"], (1e-12, 1e-12)
                    elif name == "rsample-covariance":
                        w_, tol = want["covariance_matrix"], (1e-9, 1e-9)
                    elif name in ("stddev", "to_data_independent_dist-stddev"):
                        w_, tol = sd, (1e-12, 1e-12)
                    elif name == "to_data_independent_dist-mean":
                        w_, tol = want["mean"], (1e-12, 1e-12)
                    elif name == "confidence_region-lower":
                        w_, tol = want["mean"] - 2 * sd, (1e-12, 1e-12)
                    elif name == "confidence_region-upper":
                        w_, tol = want["mean"] + 2 * sd, (1e-12, 1e-12)
                    elif name in ("log_prob-cholesky", "log_prob-fast"):
                        w_, tol = want["log_prob"], (1e-8, 1e-9)
                    elif name in ("kl-to-ref", "kl-from-ref", "entropy"):
                        w_, tol = want[name], (1e-8, 1e-9)
                    elif name == "scale_tril":
                        ok = tuple(got.shape) == tuple(b) + (n, n) and bool((got.triu(1) == 0).all()) and \
                            bool((got.diagonal(dim1=-1, dim2=-2) > 0).all()) and \
                            torch.allclose(got @ got.transpose(-1, -2), want["covariance_matrix"], atol=1e-9, rtol=1e-9)
                        w_ = None
                    elif name == "precision_matrix":
                        ok = tuple(got.shape) == tuple(b) + (n, n) and \
                            torch.allclose(got @ want["covariance_matrix"], torch.eye(n).expand(*b, n, n), atol=1e-7)
                        w_ = None
                    else:
                        continue
                    if w_ is not None:
                        ok = tuple(got.shape) == tuple(w_.shape) and torch.allclose(got, w_, atol=tol[0], rtol=tol[1])
                    if not ok and name not in bad:
                        bad.add(name)
                        out.fail(seq_key(desc, name, rep, o, ":primed" if primed else ""),
                                 "%s of the object made by %s is not that of the law the operations %s produce (read before the operation that "
                                 "followed: %s)" % (name, o.made_by, desc["steps"], primed), case, impl=got,
                                 model=w_ if w_ is not None else want["covariance_matrix"])


# --------------------------------------------------------------------------- entry points

def run(out, ctx):
    import traceback
    import time
    for part in (run_clamp, run_sequences, run_sampling_affine, run_density, run_broadcast, run_getitem):
        t0 = time.time()
        try:
            part(out, ctx)
            out.extra.setdefault("part_wall_s", {})[part.__name__] = round(time.time() - t0, 1)
        except Exception:       # an implementation exception outside a guarded call: report it, keep going with the other parts
            tb = traceback.format_exc()
            C.log(tb)
            out.fail("harness:%s:crash" % part.__name__, "this part of the check could not be completed on the current tree: " + tb[-1200:],
                     None, no_input=True)
    out.exhaustive = True
    out.rule = ("event sizes 1..4, batch shapes (), (2,), (2,3); covariance as dense tensor / DiagLinearOperator / RootLinearOperator "
                "(rank n-1) / lazy sum / broadcast (covariance batch smaller than the mean's; dense and lazy; for the methods also a lazy MVN whose "
                "mean has fewer batch dimensions than the covariance); indexing: under every batch prefix "
                "(ints, slices, ellipsis) every last component int -n-1..n and slice with start/stop in {None,-5..5}, step in "
                "{None,1,2,3} (exhaustive for dense, strided sample for the other representations), index tensors, trailing "
                "ellipsis, batch-only and malformed tuples; Ellipsis grammar: every tuple b_1..b_j [, e] (j = 0..batch rank batch components "
                "int / negative int / full slice / slice / index tensor; e = none or every event component form: ints, slices, index "
                "tensors with pair / full permutation / repetition / out of range) with the Ellipsis at EVERY position (leading, "
                "middle, trailing; matching zero, one or two dimensions) and over-long tuples with an Ellipsis at every position "
                "(exhaustive for dense, strided for the other representations); log_prob for 4-5 value shapes broadcasting both ways, fast path on/off; "
                "KL over representation pairs; rsample(base_samples) against the operator's own root; scalar +,*,/, add_jitter, "
                "sums, expand, unsqueeze; broadcasting sweep: ALL 123 ordered broadcastable pairs of batch shapes of rank 0..2 with "
                "sizes in {1,2,3} (different ranks and size-1 dimensions on both sides) for KL(p||q) (n 1..3, representation pairs "
                "dense-dense + 5 rotating, all 25 in the thorough tier), log_prob (distribution x value shape, fast path on/off, "
                "5 representations, n 2..3) and p + q, each element compared with the closed form of the two slices the Coq "
                "broadcast model puts there (slices drawn from a pool of 9 different Gaussians per side so that a misplaced "
                "slice changes the value); expand to every admissible target.  "
                "Structured operators (RootLinearOperator with a wide n x (n+2) root, LowRankRootAddedDiag, Kronecker, Kronecker + diag, "
                "lazy sum root + dense) in log_prob, KL on both sides (with themselves, the dense tensor and rotating partners), "
                "rsample, affine operations and (strided) the index sweep.  Variance clamp: process default dtype float32 and "
                "float64 x distribution dtype float64 / float32 / float16 x default and two overridden settings.min_variance "
                "floors x 6 covariance forms x batch (), (2,), marginal variances 1e-12 .. 4 on both sides of every floor, "
                "variance / stddev / confidence_region / to_data_independent_dist against the Coq clamp at the floor of the "
                "tensor's dtype.  Operation sequences: 132 (thorough 660) random sequences of 2..5 object-producing operations "
                "{* and / by positive and negative scalars, + constant, + independent MVN, expand, unsqueeze, event and batch "
                "indexing, add_jitter} on one object in 11 representations, interleaved with reads that fill caches (scale_tril, "
                "log_prob on both paths, variance, rsample, covariance, entropy, precision, confidence region, KL; the first read x "
                "representation x first operation are stratified), then EVERY object of the chain read completely and compared "
                "with the Coq state machine (run_seq); sum-density probe: d1 + d2 for every ordered representation pair, read "
                "completely, structured pairs also after scaling by a negative number (a right operand with a RootLinearOperator "
                "covariance and Kronecker + Kronecker sums are kept out of the random sequences: known findings "
                "C10-linear-operator-add-low-rank / -sum-kronecker-scaled in the installed linear_operator, reported by the probe "
                "under their own keys).  "
                "non-trivial = valid index selecting >= 1 entry (indexing), n >= 2 (others), shapes differ (sweep)")
    out.extra["tolerances"] = {"gather / affine (exact copies, dyadic data)": 1e-12, "log_prob, KL (float64 Cholesky vs exact rational + mpmath)": 1e-8,
                               "rsample": 1e-9, "clamp (relative, per dtype)": DT_RTOL}
    out.tested_not_proved = ["KL >= 0 for covariances that are only positive SEMI-definite / not symmetric (proved for ALL symmetric positive "
                             "definite P, Q without factor hypotheses: c10_kl_nonnegative_pd, c10_kl_closed_form_is_cholesky_form_pd; "
                             "KL = 0 ONLY IF the arguments coincide is not proved)", "log_prob / KL / + broadcasting against the batch (every broadcastable shape pair of rank <= 2, sizes <= 3, compared "
                             "element-wise with the exact density of the slices the proved index map selects)",
                             "sample moments converge (not tested: would be a flaky statistical check)",
                             "cache consistency of the real object along operation sequences (proved for the model: "
                             "c10_cache_consistent_along_sequences; the implementation is compared read by read on random sequences)",
                             "stddev = sqrt(variance), confidence_region = mean -/+ 2 stddev (formed by the driver from the model's clamped variance)",
                             "torch indexing semantics on batch components"]


def replay(path):
    d = json.load(open(path))
    case = d["case"]
    if "idx" not in case:
        print("non-index case; re-run ./check C10 (deterministic):", case, "\nimpl:", d.get("impl"), "\nmodel:", d.get("model"))
        return 1
    n, brank, idx, rep = case["n"], case["batch_rank"], case["idx"], case["rep"]
    mres = C.coq_run_cases("C10_replay", IMPORTS, "Definition run := run_mvn_getitem.",
                           ["(%d, %d, %s)" % (brank + 1, n, coq_idx_list(idx))])[0]
    dist, mean, cov = make(n, BSHAPES[brank], rep, seed=0)
    out = C.Outcome("C10", "quick", 0)
    print("index:", idx, "n=%d batch_rank=%d rep=%s" % (n, brank, rep), "\nmodel:", mres)
    try:
        r = dist[py_idx(idx)]
        print("impl : mean", r.mean.tolist(), "cov", r.covariance_matrix.tolist())
    except Exception as e:
        print("impl raises", repr(e))
    check_getitem(out, dist, mean, cov, n, brank, idx, mres, rep, "replay")
    for f in out.failures:
        print("FAILS:", f["key"], f["what"], "\nexpected:", C.jsonable(f.get("model")))
    print("FAILS" if out.failures else "agrees")
    return 1 if out.failures else 0
