"""C10 — MultivariateNormal is the distribution it claims to be.

Model: coq/Models/C10_mvn.v ((mean, cov) pairs over a generic field; index normalisation of
__getitem__ on Z; log_prob / KL as Expr around exact rational quadratic form and determinant).
Theorems: Props/C10.v.  Tie C (this file): exhaustive index expressions on event sizes 1..4, batch
ranks 0..2 and six covariance representations; log_prob on broadcasting value shapes with the fast
path on and off; KL; rsample(base_samples); affine operations."""
import itertools
import json
import math
import random

import torch

from harness.lib import common as C
from harness.drivers.C11 import py_comp, py_idx, coq_comp, FULL, exc_name, all_ints

COQ_TARGETS = ["Models/C10_mvn.vo", "Proofs/C10_mvn.vo", "Models/C10_broadcast.vo"]
LEVEL_NOTE = ("theorems are about the Gallina model ((mean, cov) pairs, generic field); tie to /repo is differential: "
              "exact gathers for indexing, exact rationals + mpmath for densities (1e-8)")
IMPORTS = ("From Coq Require Import List ZArith QArith Qcanon.\n"
           "From GPV Require Import Base.LinAlg Base.Exec Base.Expr Base.PySlice Models.C11_mtmvn Models.C10_mvn.")
LO, HI = -5, 5
BOUNDS = [None] + list(range(LO, HI + 1))
STEPS = [None, 1, 2, 3]
REPS = ["dense", "diag", "root", "lazysum", "broadcast", "lazybroadcast"]
# + a lazy MVN whose MEAN has fewer batch dimensions than the covariance operator (methods only, not the index sweep)
REPS_ALL = REPS + ["lazymeanbroadcast"]

torch.set_default_dtype(torch.float64)


def all_slices():
    return [["s", a, b, k] for a in BOUNDS for b in BOUNDS for k in STEPS]


def dyadic(g, *shape, den=4, rng=4):
    return torch.randint(-rng, rng + 1, shape, generator=g).double() / den


def make(n, bshape, rep, seed=0, full_rank=False):
    """returns (dist, mean, dense covariance expanded to the batch shape of mean)"""
    from gpytorch.distributions import MultivariateNormal as MVN
    from linear_operator.operators import DenseLinearOperator, DiagLinearOperator, RootLinearOperator
    g = torch.Generator().manual_seed(seed * 7919 + 97 * n + 13 * len(bshape) + REPS_ALL.index(rep))
    bshape = tuple(bshape)
    mean = dyadic(g, *bshape, n)
    cb = bshape
    if rep == "lazymeanbroadcast":
        marg = dyadic(g, *bshape[1:], n)
        A = dyadic(g, *cb, n, n, den=2, rng=3)
        dense = A @ A.transpose(-1, -2) / 4 + torch.eye(n) * 1.5
        return MVN(marg, DenseLinearOperator(dense)), marg.expand(*bshape, n), dense
    if rep in ("broadcast", "lazybroadcast"):
        cb = bshape[1:] if len(bshape) else ()
        if len(bshape) == 2:
            cb = (1,) + bshape[1:]
    A = dyadic(g, *cb, n, n, den=2, rng=3)
    dense = A @ A.transpose(-1, -2) / 4 + torch.eye(n) * 1.5
    if rep in ("dense", "broadcast"):
        covarg, cov = dense, dense
    elif rep == "lazybroadcast":
        covarg, cov = DenseLinearOperator(dense), dense
    elif rep == "diag":
        dg = dyadic(g, *cb, n, den=8, rng=6).abs() + 0.5
        covarg, cov = DiagLinearOperator(dg), torch.diag_embed(dg)
    elif rep == "root":
        r = n if full_rank else max(1, n - 1)
        R = dyadic(g, *cb, n, r, den=2, rng=2)
        R = torch.where(R == 0, torch.full_like(R, 0.5), R)      # no zero rows: every variance is positive
        if full_rank:
            R = R + 3 * torch.eye(n)
        covarg, cov = RootLinearOperator(R), R @ R.transpose(-1, -2)
    else:
        dg = dyadic(g, *cb, n, den=8, rng=6).abs() + 0.25
        covarg, cov = DenseLinearOperator(dense) + DiagLinearOperator(dg), dense + torch.diag_embed(dg)
    d = MVN(mean, covarg)
    return d, mean, cov.expand(*bshape, n, n)


# --------------------------------------------------------------------------- indexing

PREFIXES = {
    0: [[]],
    1: [[0], [-1], [FULL], [["s", 1, None, None]], ["..."]],
    2: [[0, 1], [FULL, -1], [1, FULL], [FULL, FULL], ["..."], [0, "..."], [["s", 0, 1, None], ["s", None, None, 2]]],
}
BSHAPES = {0: (), 1: (2,), 2: (2, 3)}


def coq_idx_list(idx):
    return "[%s]" % "; ".join(coq_comp(c) for c in idx)


def check_getitem(out, d, mean, cov, n, brank, idx, mres, rep, label):
    case = dict(n=n, batch_rank=brank, idx=idx, rep=rep)
    bshape = BSHAPES[brank]
    pidx = py_idx(idx)
    ids = torch.arange(int(math.prod(bshape)) * n).reshape(*bshape, n)
    try:
        sel = ids[pidx]
        want_mean = mean[pidx]
        terr = None
    except Exception as e:
        terr = exc_name(e)
    if sum(1 for c in idx if c == "...") > 1:
        return
    last = idx[-1] if idx else None
    lk = "int" if isinstance(last, int) else ("ellipsis" if last == "..." else ("slice" if last[0] == "s" else "tensor")) \
        if last is not None else "none"
    key = lambda what: "getitem:last-%s:rank%d:%s:%s" % (lk, brank, rep, what)  # noqa: E731
    if terr is None and sel.dim() == 0:
        out.count("excluded: index leaves no dimension")
        return
    try:
        r = d[pidx]
        cm = r.covariance_matrix
        rm = r.mean
        ierr = None
    except Exception as e:
        ierr = exc_name(e)
    out.case(case, terr is None and sel.numel() > 0, label=label)
    # model vs torch (batch components are torch's business: the model does not know the batch sizes)
    batch_ok = True
    if terr is not None and brank > 0:
        try:
            torch.zeros(*bshape)[py_idx([c for c in idx[:-1]])] if len(idx) > 1 else None
        except Exception:
            batch_ok = False
    if (mres[0] == 0) != (terr is not None) and batch_ok:
        if mres[0] == 0 and terr is None and ierr is None and sel.numel() == 0:
            out.count("torch-skips-bounds-check-on-empty-result")
            return
        if (ierr is not None) == (terr is not None):
            out.fail("model:acceptance", "Coq model and torch disagree on whether the index is valid", case, impl=ierr, model=mres)
            return
    if terr is not None:
        if ierr is None:
            out.fail(key("accepts-invalid-index"), "d[idx] succeeds although mean[idx] raises %s" % terr, case)
        return
    if ierr is not None:
        out.fail(key("raises-" + ierr), "d[idx] raises %s on an index valid for the mean" % ierr, case, impl=ierr)
        return
    if not (rm.shape == want_mean.shape and torch.equal(rm, want_mean)):
        out.fail(key("mean"), "d[idx].mean != mean[idx]", case, impl=rm, model=want_mean)
        return
    if mres[0] == 1:
        want = cov[pidx]
    else:
        kind, k = mres[2], mres[3]
        pos_model = mres[4:4 + k]
        if kind == 0:
            var = cov.diagonal(dim1=-1, dim2=-2)
            want = torch.diag_embed(var[pidx])
            if sel.reshape(-1).numel() and not all(int(v) % n == pos_model[0] for v in sel.reshape(-1)):
                out.fail("model:positions", "model position differs from torch", case, model=pos_model)
                return
        else:
            ksz = sel.shape[-1]
            P = int(math.prod(sel.shape[:-1]))
            s2 = sel.reshape(P, ksz)
            covb = cov.reshape(-1, n, n)
            blocks = []
            for p in range(P):
                if ksz == 0:
                    blocks.append(torch.zeros(0, 0))
                    continue
                if (s2[p] % n).tolist() != pos_model or len(set((s2[p] // n).tolist())) != 1:
                    out.fail("model:positions", "model positions differ from torch's selection", case,
                             impl=(s2[p] % n).tolist(), model=pos_model)
                    return
                b = int(s2[p][0]) // n
                pm = torch.tensor(pos_model, dtype=torch.long)
                blocks.append(covb[b][pm][:, pm])
            want = torch.stack(blocks).reshape(*sel.shape[:-1], ksz, ksz) if P else torch.zeros(*sel.shape[:-1], ksz, ksz)
    if not (cm.shape == want.shape and torch.allclose(cm, want, atol=1e-12)):
        out.fail(key("cov"), "covariance of d[idx] is not the marginal covariance of the selected components", case,
                 impl=cm, model=want)


def run_getitem(out, ctx):
    tier, seed = ctx["tier"], ctx["seed"]
    rng = random.Random(seed * 65537 + 3)
    S = all_slices()
    fam_cases, fam_meta = [], []
    for n in range(1, 5):
        for brank in (0, 1, 2):
            for pre in PREFIXES[brank]:
                fam_cases.append("(%d, %d, %s, %d, %d)" % (brank + 1, n, coq_idx_list(pre), LO, HI))
                fam_meta.append((n, brank, pre))
    fam_res = C.coq_run_cases("C10_fam", IMPORTS, "Definition run := run_mvn_family.", fam_cases, shard=4)
    dists = {}

    def dist(n, brank, rep):
        if (n, brank, rep) not in dists:
            dists[(n, brank, rep)] = make(n, BSHAPES[brank], rep, seed=0)
        return dists[(n, brank, rep)]

    extra = []
    for (n, brank, pre), res in zip(fam_meta, fam_res):
        lasts = all_ints(n) + S
        if len(lasts) != len(res):
            raise RuntimeError("family enumeration out of step with the Coq model")
        for rep in REPS:
            stride = 1 if rep == "dense" else (5 if tier == "quick" else 2)
            off = rng.randrange(stride)
            d, mean, cov = dist(n, brank, rep)
            for j in range(off, len(lasts), stride):
                check_getitem(out, d, mean, cov, n, brank, pre + [lasts[j]], res[j], rep, "last-int/slice:" + rep)
        # tensors, ellipsis, batch-only, malformed
        tl = [["t", v] for v in ([0], [n - 1, 0], [-1], [0, -n], [0, 0, n - 1], list(range(n - 1, -1, -1)), [n], [])]
        for rep in REPS:
            for last in tl + ["..."]:
                if last == "..." and "..." in pre:
                    continue
                extra.append((n, brank, pre + [last], rep, "last-tensor/ellipsis:" + rep))
            if pre and "..." not in pre:
                extra.append((n, brank, pre, rep, "batch-only:" + rep))
                extra.append((n, brank, pre[:1], rep, "batch-only:" + rep))
            extra.append((n, brank, pre + [0, 0, 0], rep, "too-many:" + rep))
            if "..." not in pre:
                extra.append((n, brank, ["..."] + pre + [0, 0], rep, "too-many-ellipsis:" + rep))
                if brank:
                    extra.append((n, brank, [["t", [1, 0]]] + pre[1:], rep, "batch-tensor:" + rep))
    cq = ["(%d, %d, %s)" % (brank + 1, n, coq_idx_list(idx)) for (n, brank, idx, rep, lab) in extra]
    res = C.coq_run_cases("C10_idx", IMPORTS, "Definition run := run_mvn_getitem.", cq, shard=max(200, len(cq) // 16 + 1))
    for (n, brank, idx, rep, lab), mres in zip(extra, res):
        d, mean, cov = dist(n, brank, rep)
        check_getitem(out, d, mean, cov, n, brank, idx, mres, rep, lab)


# --------------------------------------------------------------------------- densities

def bidx_iter(bshape):
    return list(itertools.product(*[range(s) for s in bshape])) if bshape else [()]


def run_density(out, ctx):
    import gpytorch
    from torch.distributions import kl_divergence
    tier, seed = ctx["tier"], ctx["seed"]
    lp_jobs, lp_cases = [], []
    nseeds = 1 if tier == "quick" else 4
    for n in range(1, 5):
        for bshape in ((), (2,), (2, 1)):
            for rep in REPS_ALL:
                for sd in range(nseeds):
                    d, mean, cov = make(n, bshape, rep, seed=seed * 10 + sd + 1, full_rank=True)
                    g = torch.Generator().manual_seed(n * 31 + len(bshape) + sd)
                    vshapes = [bshape + (n,), (n,), (3,) + bshape + (n,), (3,) + (1,) * len(bshape) + (n,)]
                    if bshape == (2, 1):
                        vshapes.append((2, 3, n))       # value batch larger than the distribution's in a size-1 dim
                    for vs in vshapes:
                        v = dyadic(g, *vs)
                        full = torch.broadcast_shapes(vs[:-1], bshape)
                        vb = v.expand(*full, n)
                        mb = mean.expand(*full, n)
                        cb = cov.expand(*full, n, n)
                        for fast in (True, False):
                            case = dict(n=n, batch_shape=list(bshape), rep=rep, value_shape=list(vs), fast=fast, seed=sd)
                            try:
                                with gpytorch.settings.fast_computations(log_prob=fast), gpytorch.settings.max_cholesky_size(10 ** 6):
                                    got = d.log_prob(v)
                            except Exception as e:
                                out.case(case, True, label="log_prob")
                                out.fail("log_prob:%s:raises-%s:%s" % (rep, exc_name(e), "fast" if fast else "cholesky"),
                                         "log_prob raised %r for a broadcastable value" % e, case)
                                continue
                            lp_jobs.append((case, got, full, len(lp_cases)))
                        for b in bidx_iter(full):
                            lp_cases.append("(%d%%nat, %s, %s, %s)" % (n, C.qc_vec(mb[b].tolist()), C.qc_mat(cb[b].tolist()),
                                                                      C.qc_vec(vb[b].tolist())))
    res = C.coq_run_cases("C10_lp", IMPORTS, "Definition run := run_logprob.", lp_cases, shard=max(8, len(lp_cases) // 16 + 1))
    vals = []
    for r in res:
        rd = C.Reader(r)
        vals.append(float(rd.expr()) if rd.int() == 1 else None)
    for case, got, full, start in lp_jobs:
        bl = bidx_iter(full)
        want = torch.tensor([vals[start + i] for i in range(len(bl))]).reshape(full)
        out.case(case, case["n"] > 1, label="log_prob")
        if not (got.shape == want.shape and torch.allclose(got, want, atol=1e-8, rtol=1e-9)):
            out.fail("log_prob:%s:%s" % (case["rep"], "fast" if case["fast"] else "cholesky"),
                     "log_prob differs from the Gaussian log density (value shape %s, batch %s)" % (case["value_shape"], case["batch_shape"]),
                     case, impl=got, model=want)
    # KL
    kl_jobs, kl_cases = [], []
    for n in range(1, 5):
        for (bp, bq) in (((), ()), ((2,), (2,)), ((2,), ()), ((), (2,))):
            for rp, rq in list(itertools.product(REPS, REPS)) + [("lazymeanbroadcast", "dense"), ("dense", "lazymeanbroadcast"),
                                                                  ("lazymeanbroadcast", "lazymeanbroadcast")]:
                if tier == "quick" and rp in REPS and rq in REPS and (REPS.index(rp) + REPS.index(rq) + n) % 2:
                    continue
                p, mp, cp = make(n, bp, rp, seed=seed + 11, full_rank=True)
                q, mq, cq_ = make(n, bq, rq, seed=seed + 23, full_rank=True)
                case = dict(n=n, p=rp, q=rq, batch_p=list(bp), batch_q=list(bq))
                full = torch.broadcast_shapes(bp, bq)
                try:
                    got = kl_divergence(p, q)
                    got_self = kl_divergence(p, p)
                except Exception as e:
                    out.case(case, True, label="kl")
                    out.fail("kl:%s-%s:raises-%s" % (rp, rq, exc_name(e)), "kl_divergence raised %r" % e, case)
                    continue
                if not torch.allclose(got_self, torch.zeros_like(got_self), atol=1e-9):
                    out.fail("kl:self:%s" % rp, "KL(p || p) != 0", case, impl=got_self)
                kl_jobs.append((case, got, full, len(kl_cases)))
                for b in bidx_iter(full):
                    kl_cases.append("(%d%%nat, %s, %s, %s, %s)" % (
                        n, C.qc_vec(mp.expand(*full, n)[b].tolist()), C.qc_mat(cp.expand(*full, n, n)[b].tolist()),
                        C.qc_vec(mq.expand(*full, n)[b].tolist()), C.qc_mat(cq_.expand(*full, n, n)[b].tolist())))
    res = C.coq_run_cases("C10_kl", IMPORTS, "Definition run := run_kl.", kl_cases, shard=max(8, len(kl_cases) // 16 + 1))
    vals = []
    for r in res:
        rd = C.Reader(r)
        vals.append(float(rd.expr()) if rd.int() == 1 else None)
    for case, got, full, start in kl_jobs:
        bl = bidx_iter(full)
        want = torch.tensor([vals[start + i] for i in range(len(bl))]).reshape(full)
        out.case(case, case["n"] > 1, label="kl")
        if not (got.shape == want.shape and torch.allclose(got, want, atol=1e-8, rtol=1e-9)):
            out.fail("kl:%s-%s" % (case["p"], case["q"]), "kl_divergence differs from the closed form", case, impl=got, model=want)


# --------------------------------------------------------------------------- sampling and affine operations

def same(got, want, shape, atol=1e-12):
    """public value has exactly the documented shape and the expected entries"""
    return tuple(got.shape) == tuple(shape) and torch.allclose(got, want.expand(*shape), atol=atol)


def run_sampling_affine(out, ctx):
    from gpytorch.distributions import MultivariateNormal as MVN
    seed = ctx["seed"]
    rs_jobs, rs_cases = [], []
    af_jobs, af_cases = [], []
    for n in range(1, 5):
        for bshape in ((), (2,), (2, 3)):
            for rep in REPS_ALL:
                d, mean, cov = make(n, bshape, rep, seed=seed + 5)
                case = dict(n=n, batch_shape=list(bshape), rep=rep)
                nt = n > 1
                # variance / stddev / confidence region
                out.case(dict(case, what="variance"), nt, label="variance")
                var = cov.diagonal(dim1=-1, dim2=-2)
                try:
                    full = tuple(bshape) + (n,)
                    if not (same(d.variance, var, full) and same(d.stddev, var.sqrt(), full)):
                        out.fail("variance:%s" % rep, "variance / stddev are not diag / sqrt(diag)", case, impl=d.variance, model=var)
                    lo, hi = d.confidence_region()
                    if not (same(lo, mean - 2 * var.sqrt(), full) and same(hi, mean + 2 * var.sqrt(), full)):
                        out.fail("confidence_region:%s" % rep, "confidence_region != mean -/+ 2 stddev", case,
                                 impl=[lo, hi], model=[mean - 2 * var.sqrt(), mean + 2 * var.sqrt()])
                    if not same(d.variance, var, full):
                        out.fail("confidence_region:%s:mutates" % rep, "confidence_region changed the variance it reports afterwards", case)
                    if not (torch.allclose(d.covariance_matrix, cov, atol=1e-12) and torch.equal(d.mean, mean)):
                        out.fail("ctor:%s" % rep, "mean / covariance_matrix are not the ones passed in", case)
                    if tuple(d.batch_shape) != tuple(bshape) or tuple(d.event_shape) != (n,):
                        out.fail("ctor:%s:shape" % rep, "batch_shape / event_shape are not those of the broadcast arguments", case,
                                 impl=[list(d.batch_shape), list(d.event_shape)])
                except Exception as ex:
                    out.fail("variance:%s:raises-%s" % (rep, exc_name(ex)), "variance / stddev / confidence_region raised %r" % ex, case)
                # rsample with base samples
                try:
                    root = d.lazy_covariance_matrix.root_decomposition().root.to_dense()
                    r = root.shape[-1]
                    bsz = d.base_sample_shape[-1]
                except Exception as ex:
                    out.fail("rsample:%s:root:raises-%s" % (rep, exc_name(ex)), "root_decomposition / base_sample_shape raised %r" % ex, case)
                    root = None
                g = torch.Generator().manual_seed(n + len(bshape))
                for ss in ((), (3,), (2, 2)) if root is not None else ():
                    e = dyadic(g, *ss, *bshape, bsz)
                    out.case(dict(case, what="rsample", sample_shape=list(ss)), nt, label="rsample")
                    try:
                        smp = d.rsample(base_samples=e)
                    except Exception as ex:
                        out.fail("rsample:%s:raises-%s" % (rep, exc_name(ex)), "rsample(base_samples) raised %r" % ex,
                                 dict(case, sample_shape=list(ss)))
                        continue
                    if smp.shape != tuple(ss) + tuple(bshape) + (n,):
                        out.fail("rsample:%s:shape" % rep, "rsample(base_samples) has shape %s" % (tuple(smp.shape),),
                                 dict(case, sample_shape=list(ss)))
                        continue
                    rootb = root.expand(*bshape, n, r)
                    if not torch.allclose(rootb @ rootb.transpose(-1, -2), cov, atol=1e-8):
                        out.fail("rsample:%s:root" % rep, "root_decomposition().root is not a root of the covariance", case)
                        continue
                    eb = e[..., :r] if r <= bsz else None
                    if eb is None:
                        continue
                    flat_e = eb.reshape(-1, *bshape, r)
                    flat_s = smp.reshape(-1, *bshape, n)
                    for si in range(min(flat_e.shape[0], 2)):
                        for b in bidx_iter(bshape)[:2]:
                            rs_jobs.append((dict(case, sample_shape=list(ss)), flat_s[si][b], len(rs_cases)))
                            rs_cases.append("(%d%%nat, %d%%nat, %s, %s, %s)" % (
                                n, r, C.qc_vec(mean[b].tolist()), C.qc_mat(rootb[b].tolist()), C.qc_vec(flat_e[si][b].tolist())))
                torch.manual_seed(seed)
                for ss in ((), (1,), (2,), (3,), (2, 2)):
                    out.case(dict(case, what="rsample-drawn", sample_shape=list(ss)), nt, label="rsample-drawn")
                    try:
                        s0 = d.rsample(torch.Size(ss))
                    except Exception as ex:
                        out.fail("rsample:%s:sample-shape:raises-%s" % (rep, exc_name(ex)),
                                 "rsample(sample_shape) raised %r" % ex, dict(case, sample_shape=list(ss)))
                        continue
                    if s0.shape != tuple(ss) + tuple(bshape) + (n,):
                        out.fail("rsample:%s:sample-shape" % rep, "rsample(sample_shape) has shape %s" % (tuple(s0.shape),),
                                 dict(case, sample_shape=list(ss)))
                # scalar ops, through the Coq model on batch element 0
                for op, (name, c, fn) in enumerate([("add", 2.5, lambda x, c: x + c), ("mul", -1.5, lambda x, c: x * c),
                                                    ("div", 4.0, lambda x, c: x / c), ("jitter", 0.125, lambda x, c: x.add_jitter(c))]):
                    out.case(dict(case, what=name), nt, label="affine:" + name)
                    try:
                        r2 = fn(d, c)
                        m2, c2, v2 = r2.mean, r2.covariance_matrix, r2.variance
                    except Exception as ex:
                        out.fail("%s:%s:raises-%s" % (name, rep, exc_name(ex)), "%s raised %r" % (name, ex), case)
                        continue
                    b0 = bidx_iter(bshape)[-1]
                    af_jobs.append((dict(case, what=name, c=c), m2.expand(*bshape, n)[b0], c2.expand(*bshape, n, n)[b0],
                                    v2.expand(*bshape, n)[b0], len(af_cases)))
                    af_cases.append("(%d%%nat, %d, %s, %s, %s)" % (n, op, C.qc_lit(c), C.qc_vec(mean[b0].tolist()), C.qc_mat(cov[b0].tolist())))
                try:
                    if (d * 1) is not d and not torch.equal((d * 1).mean, mean):
                        out.fail("mul:one", "d * 1 changes the distribution", case)
                except Exception as ex:
                    out.fail("mul:%s:raises-%s" % (rep, exc_name(ex)), "d * 1 raised %r" % ex, case)
                # sum of independent MVNs (every representation pair)
                for rep2 in REPS:
                    d2, mean2, cov2 = make(n, bshape, rep2, seed=seed + 17)
                    out.case(dict(case, what="sum", rep2=rep2), nt, label="affine:sum")
                    try:
                        s = d + d2
                        s.covariance_matrix
                    except Exception as e2:
                        out.fail("sum:%s+%s:raises-%s" % (rep, rep2, exc_name(e2)), "d1 + d2 raised %r" % e2, dict(case, rep2=rep2))
                        continue
                    if not (torch.allclose(s.mean, mean + mean2, atol=1e-12) and torch.allclose(s.covariance_matrix, cov + cov2, atol=1e-12)):
                        out.fail("sum:%s+%s" % (rep, rep2), "d1 + d2 is not (m1 + m2, C1 + C2)", dict(case, rep2=rep2),
                                 impl=s.covariance_matrix, model=cov + cov2)
                try:
                    if not torch.allclose(sum([d, d]).covariance_matrix, 2 * cov, atol=1e-12):
                        out.fail("sum:radd:%s" % rep, "sum([d, d]) is not (2m, 2C)", case)
                except Exception as e2:
                    out.fail("sum:%s+%s:raises-%s" % (rep, rep, exc_name(e2)), "sum([d, d]) raised %r" % e2, case)
                # expand / unsqueeze
                for tgt in ((3,) + tuple(bshape), (2,) + tuple(bshape)):
                    out.case(dict(case, what="expand", to=list(tgt)), nt, label="expand")
                    try:
                        ex = d.expand(torch.Size(tgt))
                        ok = ex.mean.shape == tgt + (n,) and torch.equal(ex.mean, mean.expand(*tgt, n)) and \
                            torch.allclose(ex.covariance_matrix, cov.expand(*tgt, n, n), atol=1e-12) and ex.batch_shape == torch.Size(tgt)
                    except Exception as e2:
                        out.fail("expand:%s:raises-%s" % (rep, exc_name(e2)), "expand raised %r" % e2, dict(case, to=list(tgt)))
                        continue
                    if not ok:
                        out.fail("expand:%s" % rep, "expand changes mean / covariance", dict(case, to=list(tgt)))
                for dim in range(-len(bshape) - 1, len(bshape) + 1):
                    out.case(dict(case, what="unsqueeze", dim=dim), nt, label="unsqueeze")
                    try:
                        u = d.unsqueeze(dim)
                        pd = dim if dim >= 0 else len(bshape) + dim + 1
                        ok = torch.equal(u.mean, mean.unsqueeze(pd)) and torch.allclose(u.covariance_matrix, cov.unsqueeze(pd), atol=1e-12) \
                            and list(u.batch_shape) == list(mean.unsqueeze(pd).shape[:-1])
                    except Exception as e2:
                        out.fail("unsqueeze:%s:raises-%s" % (rep, exc_name(e2)), "unsqueeze raised %r" % e2, dict(case, dim=dim))
                        continue
                    if not ok:
                        out.fail("unsqueeze:%s" % rep, "unsqueeze changes mean / covariance or the batch shape", dict(case, dim=dim))
                for dim in (len(bshape) + 1, -len(bshape) - 2):
                    try:
                        d.unsqueeze(dim)
                        out.fail("unsqueeze:accepts-invalid-dim", "unsqueeze accepts a dimension outside the batch dimensions", dict(case, dim=dim))
                    except IndexError:
                        pass
                    except Exception as e2:
                        out.fail("unsqueeze:invalid-dim:raises-%s" % exc_name(e2), "unsqueeze raised %r instead of IndexError" % e2, dict(case, dim=dim))
    res = C.coq_run_cases("C10_rs", IMPORTS, "Definition run := run_rsample.", rs_cases, shard=max(8, len(rs_cases) // 16 + 1))
    for (case, got, k), r in zip(rs_jobs, res):
        n = case["n"]
        rd = C.Reader(r)
        want = [float(x) for x in rd.qs(n)]
        if not all(C.close(got[i].item(), want[i], 1e-9, 1e-9) for i in range(n)):
            out.fail("rsample:%s" % case["rep"], "rsample(base_samples=e) != mean + L e for the operator's own root L", case,
                     impl=got, model=want)
    res = C.coq_run_cases("C10_af", IMPORTS, "Definition run := run_affine.", af_cases, shard=max(8, len(af_cases) // 16 + 1))
    for (case, m2, c2, v2, k), r in zip(af_jobs, res):
        n = case["n"]
        rd = C.Reader(r)
        wm = [float(x) for x in rd.qs(n)]
        wc = [[float(x) for x in row] for row in rd.qmat(n, n)]
        wv = [float(x) for x in rd.qs(n)]
        ok = all(C.close(m2[i].item(), wm[i], 1e-12, 1e-12) for i in range(n)) and \
            all(C.close(c2[i][j].item(), wc[i][j], 1e-12, 1e-12) for i in range(n) for j in range(n)) and \
            all(C.close(v2[i].item(), wv[i], 1e-12, 1e-12) for i in range(n))
        if not ok:
            out.fail("%s:%s" % (case["what"], case["rep"]), "%s by %s does not act on (mean, cov) as on the random vector" % (case["what"], case["c"]),
                     case, impl=[m2, c2], model=[wm, wc])


# --------------------------------------------------------------------------- broadcasting sweep (KL, log_prob, sums, expand)

SW_SIZES = (1, 2, 3)
SW_SHAPES = [()] + [(a,) for a in SW_SIZES] + [(a, b) for a in SW_SIZES for b in SW_SIZES]
SW_REPS = ["dense", "lazydense", "diag", "root", "lazysum"]


def broadcastable(s, t):
    try:
        return tuple(torch.broadcast_shapes(tuple(s), tuple(t)))
    except RuntimeError:
        return None


SW_PAIRS = [(s, t) for s in SW_SHAPES for t in SW_SHAPES if broadcastable(s, t) is not None]


def pool_index(shape, b):
    """position in the 3 x 3 pool of the slice that sits at batch index b of a distribution of batch shape `shape`
    (rank 0: pool[0,0]; rank 1 (a,): pool[0,:a]; rank 2 (a,b): pool[:a,:b])"""
    b = tuple(b)
    return (0,) * (2 - len(shape)) + b


def sub_index(shape, full, b):
    """batch index into a tensor of batch shape `shape` that broadcasting to `full` puts at position b of the result"""
    off = len(full) - len(shape)
    return tuple(0 if shape[i] == 1 else b[off + i] for i in range(len(shape)))


def pool_slice(shape):
    return (0, 0) if len(shape) == 0 else ((0, slice(0, shape[0])) if len(shape) == 1 else (slice(0, shape[0]), slice(0, shape[1])))


def pool(n, rep, seed):
    """ingredients of 9 different Gaussians of event size n (a 3 x 3 batch) in representation rep"""
    g = torch.Generator().manual_seed(seed * 104729 + 31 * n + SW_REPS.index(rep))
    ing = dict(mean=dyadic(g, 3, 3, n))
    A = dyadic(g, 3, 3, n, n, den=2, rng=3)
    dense = A @ A.transpose(-1, -2) / 4 + torch.eye(n) * 1.5
    if rep in ("dense", "lazydense"):
        ing.update(dense=dense, cov=dense)
    elif rep == "diag":
        dg = dyadic(g, 3, 3, n, den=8, rng=6).abs() + 0.5
        ing.update(dg=dg, cov=torch.diag_embed(dg))
    elif rep == "root":
        R = dyadic(g, 3, 3, n, n, den=2, rng=2) + 3 * torch.eye(n)
        ing.update(R=R, cov=R @ R.transpose(-1, -2))
    else:
        dg = dyadic(g, 3, 3, n, den=8, rng=6).abs() + 0.25
        ing.update(dense=dense, dg=dg, cov=dense + torch.diag_embed(dg))
    return ing


def pool_dist(ing, rep, shape):
    """the distribution of batch shape `shape` built from the pool (constructed from sliced ingredients, not by indexing
    a distribution); returns (dist, mean, dense covariance)"""
    from gpytorch.distributions import MultivariateNormal as MVN
    from linear_operator.operators import DenseLinearOperator, DiagLinearOperator, RootLinearOperator
    sl = pool_slice(shape)
    cut = lambda t: t[sl].clone()  # noqa: E731
    mean, cov = cut(ing["mean"]), cut(ing["cov"])
    if rep == "dense":
        arg = cut(ing["dense"])
    elif rep == "lazydense":
        arg = DenseLinearOperator(cut(ing["dense"]))
    elif rep == "diag":
        arg = DiagLinearOperator(cut(ing["dg"]))
    elif rep == "root":
        arg = RootLinearOperator(cut(ing["R"]))
    else:
        arg = DenseLinearOperator(cut(ing["dense"])) + DiagLinearOperator(cut(ing["dg"]))
    return MVN(mean, arg), mean, cov


def shape_class(s, t):
    """stable description of how two batch shapes relate (for failure keys)"""
    full = broadcastable(s, t)
    side = lambda x: "same" if tuple(x) == full else ("lower-rank" if len(x) < len(full) else "size1-expanded")  # noqa: E731
    return "p-%s:q-%s" % (side(s), side(t))


def run_broadcast(out, ctx):
    """every broadcastable pair of batch shapes of rank 0..2 with sizes in {1,2,3} (123 ordered pairs, different ranks on
    both sides included): KL(p || q), log_prob(value) and p + q, each element compared with the closed form of the two
    slices that broadcasting puts at that position; expand to every admissible target."""
    import gpytorch
    from torch.distributions import kl_divergence
    tier, seed = ctx["tier"], ctx["seed"]
    ns = (1, 2, 3)
    pools = {}

    # ---- the index map used below (which slice of which operand sits where) is the Coq model's (Models/C10_broadcast.v,
    # theorems c10_broadcast_*): every ordered pair of the 13 shapes, broadcastable or not, against torch.broadcast_shapes /
    # Tensor.expand and against sub_index
    allp = [(s_, t_) for s_ in SW_SHAPES for t_ in SW_SHAPES]
    res = C.coq_run_cases("C10_bc", IMPORTS + "\nFrom GPV Require Import Models.C10_broadcast.", "Definition run := run_broadcast.",
                          ["(%s, %s)" % (C.nat_list(list(s_)) if s_ else "(@nil nat)", C.nat_list(list(t_)) if t_ else "(@nil nat)")
                           for s_, t_ in allp], shard=32)
    for (s_, t_), r in zip(allp, res):
        full = broadcastable(s_, t_)
        case = dict(shape_p=list(s_), shape_q=list(t_), what="broadcast-model")
        out.case(case, s_ != t_, label="broadcast-model")
        rd = C.Reader(r)
        if rd.int() == 0:
            if full is not None:
                out.fail("model:broadcast:acceptance", "Coq model rejects a pair torch broadcasts", case, impl=list(full))
            continue
        if full is None:
            out.fail("model:broadcast:acceptance", "Coq model broadcasts a pair torch rejects", case)
            continue
        rank = rd.int()
        mshape = tuple(rd.int() for _ in range(rank))
        ids_s = torch.arange(int(math.prod(s_))).reshape(s_).expand(full) if len(full) else torch.arange(1).reshape(())
        ids_t = torch.arange(int(math.prod(t_))).reshape(t_).expand(full) if len(full) else torch.arange(1).reshape(())
        ok = mshape == tuple(full)
        for b in (bidx_iter(full) if ok else []):
            ms = tuple(rd.int() for _ in range(len(s_)))
            mt = tuple(rd.int() for _ in range(len(t_)))
            flat = lambda idx, shp: int(torch.arange(int(math.prod(shp))).reshape(shp)[idx]) if shp else 0  # noqa: E731
            if ms != sub_index(s_, full, b) or mt != sub_index(t_, full, b) or flat(ms, s_) != int(ids_s[b]) or flat(mt, t_) != int(ids_t[b]):
                ok = False
                break
        if not ok:
            out.fail("model:broadcast:index-map", "Coq broadcast model, sub_index and torch's expand disagree", case, model=list(mshape))

    def get_pool(n, rep, which):
        k = (n, rep, which)
        if k not in pools:
            pools[k] = pool(n, rep, seed * 3 + which + 1)
        return pools[k]

    def rep_pairs(n):
        if tier != "quick":
            return list(itertools.product(SW_REPS, SW_REPS))
        rot = [(SW_REPS[i], SW_REPS[(i + 1 + (seed + n) % 4) % 5]) for i in range(5)]
        return [("dense", "dense")] + [x for x in rot if x != ("dense", "dense")]

    # ---- KL
    memo, cases = {}, []

    def want_idx(kind, key, term):
        if (kind, key) not in memo:
            memo[(kind, key)] = len(cases)
            cases.append((kind, term))
        return memo[(kind, key)]

    kl_jobs = []
    for n in ns:
        for rp, rq in rep_pairs(n):
            ip, iq = get_pool(n, rp, 0), get_pool(n, rq, 1)
            for bp, bq in SW_PAIRS:
                full = broadcastable(bp, bq)
                p, mp, cp = pool_dist(ip, rp, bp)
                q, mq, cq_ = pool_dist(iq, rq, bq)
                case = dict(n=n, p=rp, q=rq, batch_p=list(bp), batch_q=list(bq), sweep=True)
                out.case(case, n > 1 and bp != bq, label="kl:broadcast-sweep")
                try:
                    got = kl_divergence(p, q)
                except Exception as e:
                    out.fail("kl:broadcast:%s:%s-%s:raises-%s" % (shape_class(bp, bq), rp, rq, exc_name(e)),
                             "kl_divergence raised %r for batch shapes %s and %s (broadcast: %s)" % (e, bp, bq, full), case)
                    continue
                refs = []
                for b in bidx_iter(full):
                    i, j = pool_index(bp, sub_index(bp, full, b)), pool_index(bq, sub_index(bq, full, b))
                    refs.append(want_idx("kl", (n, rp, rq, i, j), "(%d%%nat, %s, %s, %s, %s)" % (
                        n, C.qc_vec(ip["mean"][i].tolist()), C.qc_mat(ip["cov"][i].tolist()),
                        C.qc_vec(iq["mean"][j].tolist()), C.qc_mat(iq["cov"][j].tolist()))))
                kl_jobs.append((case, got, full, refs))
    kl_terms = [t for k, t in cases]
    res = C.coq_run_cases("C10_klb", IMPORTS, "Definition run := run_kl.", kl_terms, shard=max(8, len(kl_terms) // 16 + 1))
    vals = []
    for r in res:
        rd = C.Reader(r)
        vals.append(float(rd.expr()) if rd.int() == 1 else float("nan"))
    for case, got, full, refs in kl_jobs:
        want = torch.tensor([vals[i] for i in refs]).reshape(full)
        if not (tuple(got.shape) == tuple(full) and torch.allclose(got, want, atol=1e-8, rtol=1e-9)):
            bp, bq = tuple(case["batch_p"]), tuple(case["batch_q"])
            out.fail("kl:broadcast:%s:%s-%s" % (shape_class(bp, bq), case["p"], case["q"]),
                     "kl_divergence of batch shapes %s and %s is not the closed form of the broadcast slices (shape %s)" % (bp, bq, full),
                     case, impl=got, model=want)

    # ---- log_prob: distribution batch shape x value batch shape
    memo.clear()
    cases.clear()
    lp_jobs = []
    for n in (2, 3):
        g = torch.Generator().manual_seed(seed * 17 + n)
        V = dyadic(g, 3, 3, n)
        for rep in SW_REPS:
            ing = get_pool(n, rep, 0)
            for bd, bv in SW_PAIRS:
                full = broadcastable(bd, bv)
                d, mean, cov = pool_dist(ing, rep, bd)
                v = V[pool_slice(bv)].clone()
                refs = []
                for b in bidx_iter(full):
                    i, j = pool_index(bd, sub_index(bd, full, b)), pool_index(bv, sub_index(bv, full, b))
                    refs.append(want_idx("lp", (n, rep, i, j), "(%d%%nat, %s, %s, %s)" % (
                        n, C.qc_vec(ing["mean"][i].tolist()), C.qc_mat(ing["cov"][i].tolist()), C.qc_vec(V[j].tolist()))))
                for fast in (True, False):
                    case = dict(n=n, rep=rep, batch_shape=list(bd), value_shape=list(bv) + [n], fast=fast, sweep=True)
                    out.case(case, bd != bv, label="log_prob:broadcast-sweep")
                    try:
                        with gpytorch.settings.fast_computations(log_prob=fast), gpytorch.settings.max_cholesky_size(10 ** 6):
                            got = d.log_prob(v)
                    except Exception as e:
                        out.fail("log_prob:broadcast:%s:%s:raises-%s:%s" % (shape_class(bd, bv).replace("p-", "d-").replace("q-", "v-"), rep,
                                                                          exc_name(e), "fast" if fast else "cholesky"),
                                 "log_prob raised %r for distribution batch %s and value batch %s" % (e, bd, bv), case)
                        continue
                    lp_jobs.append((case, got, full, refs))
    lp_terms = [t for k, t in cases]
    res = C.coq_run_cases("C10_lpb", IMPORTS, "Definition run := run_logprob.", lp_terms, shard=max(8, len(lp_terms) // 16 + 1))
    vals = []
    for r in res:
        rd = C.Reader(r)
        vals.append(float(rd.expr()) if rd.int() == 1 else float("nan"))
    for case, got, full, refs in lp_jobs:
        want = torch.tensor([vals[i] for i in refs]).reshape(full)
        if not (tuple(got.shape) == tuple(full) and torch.allclose(got, want, atol=1e-8, rtol=1e-9)):
            bd, bv = tuple(case["batch_shape"]), tuple(case["value_shape"][:-1])
            out.fail("log_prob:broadcast:%s:%s:%s" % (shape_class(bd, bv).replace("p-", "d-").replace("q-", "v-"), case["rep"],
                                                       "fast" if case["fast"] else "cholesky"),
                     "log_prob with distribution batch %s and value batch %s is not the density of the broadcast slices" % (bd, bv),
                     case, impl=got, model=want)

    # ---- p + q and expand (exact copies: compared with torch broadcasting of the ingredients)
    for n in (1, 3):
        for rp, rq in rep_pairs(n):
            ip, iq = get_pool(n, rp, 0), get_pool(n, rq, 1)
            for bp, bq in SW_PAIRS:
                full = broadcastable(bp, bq)
                p, mp, cp = pool_dist(ip, rp, bp)
                q, mq, cq_ = pool_dist(iq, rq, bq)
                case = dict(n=n, p=rp, q=rq, batch_p=list(bp), batch_q=list(bq), what="sum", sweep=True)
                out.case(case, bp != bq, label="affine:sum:broadcast-sweep")
                try:
                    s = p + q
                    sm, sc, sv, sb = s.mean, s.covariance_matrix, s.variance, tuple(s.batch_shape)
                except Exception as e:
                    out.fail("sum:broadcast:%s:%s+%s:raises-%s" % (shape_class(bp, bq), rp, rq, exc_name(e)),
                             "p + q raised %r for batch shapes %s and %s" % (e, bp, bq), case)
                    continue
                wm, wc = (mp + mq).expand(*full, n), (cp + cq_).expand(*full, n, n)
                if not (sb == full and same(sm, wm, full + (n,)) and same(sc, wc, full + (n, n))
                        and same(sv, wc.diagonal(dim1=-1, dim2=-2), full + (n,))):
                    out.fail("sum:broadcast:%s:%s+%s" % (shape_class(bp, bq), rp, rq),
                             "p + q for batch shapes %s and %s is not (m1 + m2, C1 + C2) broadcast to %s" % (bp, bq, full), case,
                             impl=[sm, sc], model=[wm, wc])
        for rep in SW_REPS:
            ing = get_pool(n, rep, 0)
            for bd, tgt in SW_PAIRS:
                if broadcastable(bd, tgt) != tuple(tgt):
                    continue
                for lead in ((), (2,)):
                    to = lead + tuple(tgt)
                    d, mean, cov = pool_dist(ing, rep, bd)
                    case = dict(n=n, rep=rep, batch_shape=list(bd), what="expand", to=list(to), sweep=True)
                    out.case(case, tuple(bd) != to, label="expand:broadcast-sweep")
                    try:
                        ex = d.expand(torch.Size(to))
                        ok = tuple(ex.batch_shape) == to and same(ex.mean, mean, to + (n,)) and same(ex.covariance_matrix, cov, to + (n, n)) \
                            and same(ex.variance, cov.diagonal(dim1=-1, dim2=-2), to + (n,))
                    except Exception as e:
                        out.fail("expand:broadcast:%s:raises-%s" % (rep, exc_name(e)), "expand(%s) of batch shape %s raised %r" % (to, bd, e), case)
                        continue
                    if not ok:
                        out.fail("expand:broadcast:%s" % rep, "expand(%s) of batch shape %s changes mean / covariance / batch_shape" % (to, bd), case)


# --------------------------------------------------------------------------- entry points

def run(out, ctx):
    import traceback
    import time
    for part in (run_sampling_affine, run_density, run_broadcast, run_getitem):
        t0 = time.time()
        try:
            part(out, ctx)
            out.extra.setdefault("part_wall_s", {})[part.__name__] = round(time.time() - t0, 1)
        except Exception:       # an implementation exception outside a guarded call: report it, keep going with the other parts
            tb = traceback.format_exc()
            C.log(tb)
            out.fail("harness:%s:crash" % part.__name__, "this part of the check could not be completed on the current tree: " + tb[-1200:],
                     None, no_input=True)
    out.exhaustive = True
    out.rule = ("event sizes 1..4, batch shapes (), (2,), (2,3); covariance as dense tensor / DiagLinearOperator / RootLinearOperator "
                "(rank n-1) / lazy sum / broadcast (covariance batch smaller than the mean's; dense and lazy; for the methods also a lazy MVN whose "
                "mean has fewer batch dimensions than the covariance); indexing: under every batch prefix "
                "(ints, slices, ellipsis) every last component int -n-1..n and slice with start/stop in {None,-5..5}, step in "
                "{None,1,2,3} (exhaustive for dense, strided sample for the other representations), index tensors, trailing "
                "ellipsis, batch-only and malformed tuples; log_prob for 4-5 value shapes broadcasting both ways, fast path on/off; "
                "KL over representation pairs; rsample(base_samples) against the operator's own root; scalar +,*,/, add_jitter, "
                "sums, expand, unsqueeze; broadcasting sweep: ALL 123 ordered broadcastable pairs of batch shapes of rank 0..2 with "
                "sizes in {1,2,3} (different ranks and size-1 dimensions on both sides) for KL(p||q) (n 1..3, representation pairs "
                "dense-dense + 5 rotating, all 25 in the thorough tier), log_prob (distribution x value shape, fast path on/off, "
                "5 representations, n 2..3) and p + q, each element compared with the closed form of the two slices the Coq "
                "broadcast model puts there (slices drawn from a pool of 9 different Gaussians per side so that a misplaced "
                "slice changes the value); expand to every admissible target.  "
                "non-trivial = valid index selecting >= 1 entry (indexing), n >= 2 (others), shapes differ (sweep)")
    out.extra["tolerances"] = {"gather / affine (exact copies, dyadic data)": 1e-12, "log_prob, KL (float64 Cholesky vs exact rational + mpmath)": 1e-8,
                               "rsample": 1e-9}
    out.tested_not_proved = ["KL >= 0 / equality of the Cholesky form with the closed form for covariances WITHOUT a triangular factor of "
                             "positive diagonal (proved for Cholesky-factored P, Q: c10_kl_nonnegative, c10_kl_closed_form_is_cholesky_form)", "log_prob / KL / + broadcasting against the batch (every broadcastable shape pair of rank <= 2, sizes <= 3, compared "
                             "element-wise with the exact density of the slices the proved index map selects)",
                             "sample moments converge (not tested: would be a flaky statistical check)",
                             "torch indexing semantics on batch components"]


def replay(path):
    d = json.load(open(path))
    case = d["case"]
    if "idx" not in case:
        print("non-index case; re-run ./check C10 (deterministic):", case, "\nimpl:", d.get("impl"), "\nmodel:", d.get("model"))
        return 1
    n, brank, idx, rep = case["n"], case["batch_rank"], case["idx"], case["rep"]
    mres = C.coq_run_cases("C10_replay", IMPORTS, "Definition run := run_mvn_getitem.",
                           ["(%d, %d, %s)" % (brank + 1, n, coq_idx_list(idx))])[0]
    dist, mean, cov = make(n, BSHAPES[brank], rep, seed=0)
    out = C.Outcome("C10", "quick", 0)
    print("index:", idx, "n=%d batch_rank=%d rep=%s" % (n, brank, rep), "\nmodel:", mres)
    try:
        r = dist[py_idx(idx)]
        print("impl : mean", r.mean.tolist(), "cov", r.covariance_matrix.tolist())
    except Exception as e:
        print("impl raises", repr(e))
    check_getitem(out, dist, mean, cov, n, brank, idx, mres, rep, "replay")
    for f in out.failures:
        print("FAILS:", f["key"], f["what"], "\nexpected:", C.jsonable(f.get("model")))
    print("FAILS" if out.failures else "agrees")
    return 1 if out.failures else 0
