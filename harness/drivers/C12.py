"""C12 — Gaussian-family likelihoods add exactly the specified noise, integrate exactly.
Tie C: for every configuration (likelihood family x batch shapes x switches) the implementation's
`likelihood(dist[, noise=])`, `expected_log_prob`, `log_marginal`, the conditional `likelihood(f)`
and `LikelihoodList` routing are compared with the Coq model Models/C12_noise.v: the dense noise
operator R (exact rationals, vm_compute) built from the likelihood parameters read through the
public properties, and the closed forms as Expr terms evaluated with mpmath."""
import contextlib
import itertools
import json
import random
import warnings

import mpmath
import torch

import gpytorch
from gpytorch.distributions import MultitaskMultivariateNormal, MultivariateNormal
from gpytorch.likelihoods import (FixedNoiseGaussianLikelihood, GaussianLikelihood, LikelihoodList,
                                  MultitaskGaussianLikelihood)
from harness.lib import common as C

COQ_TARGETS = ["Models/C12_noise.vo"]
LEVEL_NOTE = ("theorems are about the Gallina model of the noise operators / closed forms; tie to /repo is "
              "differential (public outputs, float64 vs exact rationals / 40-digit mpmath, tolerance 1e-9)")
IMPORTS = ("From Coq Require Import List ZArith QArith Qcanon.\n"
           "From GPV Require Import Base.LinAlg Base.Exec Base.Expr Models.C12_noise.")
RUN_DEF = ("Definition case : Type := ((nat * lik_cfg * list Qc * list Qc * list Qc) + "
           "(list lik_cfg * list nat * option (list (option (list Qc)))))%type.\n"
           "Definition single a : case := inl a.\nDefinition lst b : case := inr b.\n"
           "Definition run (c : case) : list Z :=\n"
           "  match c with inl a => run_c12 a | inr b => run_c12_list b end.")
ATOL = RTOL = 1e-9
torch.set_default_dtype(torch.float64)
mpmath.mp.dps = 40


# ------------------------------------------------------------------------------- generation

def dy(rng, lo=-16, hi=16, den=8.0):
    return rng.randint(lo, hi) / den


def pos(rng):
    return rng.randint(2, 24) / 16.0


def mag(rng, lo=-40, hi=2):
    """a variance k/16 * 2^e (k = 16..31): magnitudes over many decades (2^-40 ~ 1e-12 .. 8), also below every floor
    of settings.min_fixed_noise (1e-6 double / 1e-4 float / 1e-3 half) and below the GreaterThan(1e-4) bound"""
    return rng.randint(16, 31) / 16.0 * 2.0 ** rng.randint(lo, hi)


def wide(rng):
    return mag(rng) if rng.random() < 0.6 else pos(rng)


DEFAULT_FLOOR = 1e-6        # settings.min_fixed_noise, documented default for double
DEFAULT_FLOOR32 = 1e-4      # ... for float
DEFAULT_LB = 1e-4           # documented default noise constraint GreaterThan(1e-4)


def softplus_noise(raw, lb):
    """the value of a learned noise with raw parameter `raw` under GreaterThan(lb): lb + softplus(raw) (40 digits)"""
    return float(mpmath.mpf(lb) + mpmath.log1p(mpmath.exp(mpmath.mpf(raw))))


def nested(rng, shape, f):
    if not shape:
        return f(rng)
    return [nested(rng, shape[1:], f) for _ in range(shape[0])]


BATCHES = [[], [2], [1], [3], [2, 3], [3, 1], [1, 2]]


def broadcastable(*shapes):
    try:
        return list(torch.broadcast_shapes(*[tuple(s) for s in shapes]))
    except RuntimeError:
        return None


def expandable(src, dst):
    """torch.Tensor.expand rule: src (right aligned) dims equal dst or 1, rank(src) <= rank(dst)"""
    if len(src) > len(dst):
        return False
    return all(a == b or a == 1 for a, b in zip(reversed(src), reversed(dst)))


def gen_dist(rng, db, N):
    return dict(mean=nested(rng, db + [N], dy), A=nested(rng, db + [N, N], lambda r: dy(r, -8, 8)),
                y=nested(rng, db + [N], dy))


def gen_gauss(rng, lb=None, db=None, n=None):
    while True:
        lb_ = rng.choice(BATCHES) if lb is None else lb
        db_ = rng.choice(BATCHES) if db is None else db
        if broadcastable(lb_, db_) is not None:
            break
    n = n or rng.randint(1, 4)
    c = dict(fam="gauss", n=n, lb=lb_, db=db_, noise=nested(rng, lb_ + [1], pos), with_param=rng.random() < 0.25)
    c.update(gen_dist(rng, db_, n))
    return c


def gen_fixed(rng, simple=False, force=None):
    force = force or {}
    while True:
        lb = [] if simple else rng.choice(BATCHES)
        db = [] if simple else rng.choice(BATCHES)
        nb = [] if simple else rng.choice([[], [], db, [2], [3]])
        cb = rng.choice([[], db])
        if broadcastable(lb, db, nb, cb) is not None:
            break
    n = rng.randint(1, 4)
    learn = force.get("learn", rng.random() < 0.5)
    call = force.get("call", rng.random() < 0.5)
    mismatch = (not call) and rng.random() < 0.15
    nst = n + 1 if mismatch else n
    c = dict(fam="fixed", n=n, lb=lb, db=db, nb=nb, stored=nested(rng, nb + [nst], pos), learn=learn,
             second=nested(rng, lb + [1], pos) if learn else None,
             call=nested(rng, cb + [n], wide if rng.random() < 0.5 else pos) if call else None, cb=cb if call else None,
             with_param=(not mismatch) and rng.random() < 0.2)
    c.update(gen_dist(rng, db, n))
    return c


def gen_multi(rng, tier, force=None):
    force = force or {}
    while True:
        lb = rng.choice(BATCHES)
        db = rng.choice(BATCHES)
        if broadcastable(lb, db) is not None:
            break
    t = force.get("t", rng.randint(1, 4))
    n = rng.randint(1, 4 if t <= 3 else 3)
    rank = force.get("rank", rng.randint(0, t))
    hg, ht = force.get("sw", rng.choice([(True, True), (True, True), (True, False), (False, True)]))
    il = force.get("il", rng.random() < 0.5)
    c = dict(fam="multi", n=n, t=t, rank=rank, hg=hg, ht=ht, il=il, lb=lb, db=db,
             noise=nested(rng, lb + [1], pos) if hg else None,
             task_noises=nested(rng, lb + [t], pos) if (ht and rank == 0) else None,
             # non-zero factor entries: every task then has a positive noise variance diag(F F^T)
             F=nested(rng, lb + [t, rank], lambda r: r.choice([-1, 1]) * r.randint(1, 8) / 8.0)
             if (ht and rank > 0) else None)
    d = gen_dist(rng, db, n * t)
    c.update(d)
    return c


def gen_fantasy(rng, base=None, learn=None):
    """a likelihood obtained by 1..3 get_fantasy_likelihood calls (directly, or through ExactGP.get_fantasy_model),
    applied to a distribution over the n0 old points followed by the appended points"""
    base = base or rng.choice(["fixed", "fixed", "gauss"])
    n0 = rng.randint(1, 3)
    k = rng.randint(1, 3)
    via_model = rng.random() < 0.4
    # batch shape of the new noise (the stored noise is expanded to it); through a model the batch is a fantasy batch
    fb = [] if (via_model or base == "gauss") else rng.choice([[], [], [2]])
    db = rng.choice([[], fb]) if fb else rng.choice([[], [], [2]])
    steps = []
    for _ in range(k):
        m = rng.randint(1, 2)
        steps.append(dict(m=m, noise=nested(rng, fb + [m], pos) if base == "fixed" else None))
    n = n0 + sum(st["m"] for st in steps)
    learn = (rng.random() < 0.5 if learn is None else learn) and base == "fixed"
    c = dict(fam="fantasy", base=base, n0=n0, n=n, steps=steps, fb=fb, db=db, lb=[], via_model=via_model, learn=learn,
             stored=nested(rng, [n0], pos) if base == "fixed" else None,
             second=nested(rng, [1], pos) if learn else None,
             noise=nested(rng, [1], pos) if base == "gauss" else None,
             with_param=rng.random() < 0.3, mseed=rng.randint(0, 10 ** 9))
    c.update(gen_dist(rng, db, n))
    return c


def gen_list(rng, with_noise, pattern=None):
    """pattern (with a noise list): per member True = a tensor entry, False = a None entry (the member then uses its
    own noise model; only FixedNoise members: the homoskedastic noise documents a Tensor kwarg only)"""
    k = len(pattern) if pattern is not None else rng.randint(1, 3)
    if with_noise and pattern is None:
        pattern = [rng.random() < 0.6 for _ in range(k)]
    members = []
    for i in range(k):
        u = rng.random()
        if (with_noise and not pattern[i]) or u < 0.45:
            m = gen_fixed(rng, simple=True, force=dict(call=False))
            if m["n"] != len(m["stored"]):      # keep member sizes consistent when noise is routed
                m["stored"] = m["stored"][:m["n"]]
            m["with_param"] = False
        elif u < 0.7:
            m = gen_hist(rng, call=False, db=[])
            m["with_param"] = False
        else:
            m = gen_gauss(rng, lb=[], db=[])
            m["with_param"] = False
        members.append(m)
    noises = None
    if with_noise:
        noises = [nested(rng, [m["n"]], wide if rng.random() < 0.3 else pos) if pattern[i] else None
                  for i, m in enumerate(members)]
    return dict(fam="list", members=members, noises=noises)


def gen_hist(rng, learn=None, call=None, db=None, nops=None):
    """a FixedNoiseGaussianLikelihood after a history of 0..3 (re)specifications of its noise components: constructor,
    then any of  lik.noise = v / lik.initialize(noise=v)  (fixed part),  lik.second_noise = s / initialize(second_noise=s)
    / raw parameter through initialize (learned part),  get_fantasy_likelihood(noise=nw);  finally an optional call-time
    noise.  The model is given the SPECIFIED values (never what the likelihood reports)."""
    learn = rng.random() < 0.6 if learn is None else learn
    n0 = rng.randint(1, 3)
    # the floor is per dtype: a fifth of the histories run in float32 (compared at float32 tolerances)
    dtype = "float32" if (db is None and rng.random() < 0.2) else "float64"
    floor = rng.choice([None, None, None, 2.0 ** -8, 2.0 ** -30 if dtype == "float64" else 2.0 ** -18])
    fl = (DEFAULT_FLOOR if dtype == "float64" else DEFAULT_FLOOR32) if floor is None else floor
    lb2 = rng.choice([None, None, 0.0625]) if learn else None
    lb = DEFAULT_LB if lb2 is None else lb2
    # values through the SETTER stay at or above the floor (the constructor's rounding is documented, what a setter does
    # with a value below the floor is not); constructor / fantasy / call-time values go below it
    above = lambda r: max(mag(r, -22, 2), 2 * fl) if r.random() < 0.5 else pos(r)    # noqa: E731
    n = n0
    ops = []
    for _ in range(rng.randint(0, 3) if nops is None else nops):
        kinds = ["fixed", "fixed", "fantasy"] + (["second", "second"] if learn else [])
        kind = rng.choice(kinds)
        if kind == "fixed":
            if rng.random() < 0.25:
                n = rng.randint(1, 4)       # a vector of another length re-specifies the number of points as well
            ops.append(dict(op="fixed", via=rng.choice(["setter", "initialize"]), v=nested(rng, [n], above)))
        elif kind == "second":
            via = rng.choice(["setter", "initialize", "raw", "raw-sub"])
            if via.startswith("raw"):
                raw = rng.randint(-80, 40) / 8.0
                ops.append(dict(op="second", via=via, raw=raw, s=softplus_noise(raw, lb)))
            else:
                ops.append(dict(op="second", via=via, s=lb + (mag(rng, -20, 1) if rng.random() < 0.5 else pos(rng))))
        else:
            m = rng.randint(1, 2)
            if n + m > 5:
                continue
            ops.append(dict(op="fantasy", nw=nested(rng, [m], wide)))
            n += m
    call = rng.random() < 0.35 if call is None else call
    db = rng.choice([[], [], [2]]) if db is None else db
    c = dict(fam="hist", n=n, lb=[], db=db, learn=learn, floor=floor, lb2=lb2, init=nested(rng, [n0], wide), dtype=dtype,
             second0=(lb + pos(rng)) if (learn and rng.random() < 0.5) else None, ops=ops,
             call=nested(rng, [n], wide) if call else None, with_param=rng.random() < 0.2)
    c.update(gen_dist(rng, db, n))
    return c


def gen_param_hist(rng, fam):
    """GaussianLikelihood / MultitaskGaussianLikelihood whose components are (re)specified 1..3 times through the
    property setters, initialize(name=value), or the raw parameters; the model folds the operations (last one wins)"""
    if fam == "gauss":
        c = gen_gauss(rng, lb=[], db=rng.choice([[], [2]]))
        c["fam"] = "gausshist"
        ops = []
        for _ in range(rng.randint(1, 3)):
            via = rng.choice(["setter", "initialize", "raw", "raw-sub"])
            if via.startswith("raw"):
                raw = rng.randint(-80, 40) / 8.0
                ops.append(dict(via=via, raw=raw, s=softplus_noise(raw, DEFAULT_LB)))
            else:
                ops.append(dict(via=via, s=DEFAULT_LB + (mag(rng, -20, 1) if rng.random() < 0.5 else pos(rng))))
        c["ops"] = ops
        c["call"] = nested(rng, [c["n"]], wide) if rng.random() < 0.3 else None
        c["with_param"] = False
        return c
    while True:
        c = gen_multi(rng, "quick")
        if c["lb"] == [] and (c["hg"] or c["ht"]):
            break
    c["fam"] = "multihist"
    t, rank = c["t"], c["rank"]
    ops = []
    for _ in range(rng.randint(1, 3)):
        kinds = (["glob"] if c["hg"] else []) + ((["task"] if rank == 0 else ["factor"]) if c["ht"] else [])
        kind = rng.choice(kinds)
        if kind == "glob":
            via = rng.choice(["setter", "initialize", "raw"])
            if via == "raw":
                raw = rng.randint(-80, 40) / 8.0
                ops.append(dict(op="glob", via=via, raw=raw, s=softplus_noise(raw, DEFAULT_LB)))
            else:
                ops.append(dict(op="glob", via=via, s=DEFAULT_LB + (mag(rng, -20, 1) if rng.random() < 0.5 else pos(rng))))
        elif kind == "task":
            via = rng.choice(["setter", "initialize", "raw"])
            if via == "raw":
                raws = [rng.randint(-80, 40) / 8.0 for _ in range(t)]
                ops.append(dict(op="task", via=via, raw=raws, d=[softplus_noise(r, DEFAULT_LB) for r in raws]))
            else:
                ops.append(dict(op="task", via=via, d=[DEFAULT_LB + (mag(rng, -20, 1) if rng.random() < 0.5 else pos(rng))
                                                      for _ in range(t)]))
        else:
            ops.append(dict(op="factor", via=rng.choice(["initialize", "data"]),
                            F=nested(rng, [t, rank], lambda r: r.choice([-1, 1]) * r.randint(1, 8) / 8.0)))
    c["ops"] = ops
    return c


def gen_configs(rng, tier):
    cfgs = []
    q = tier == "quick"
    # grid part: every switch combination appears at least once (the configuration grid)
    for learn, call in itertools.product([False, True], repeat=2):
        for _ in range(12 if q else 40):
            cfgs.append(gen_fixed(rng, force=dict(learn=learn, call=call)))
    for t in (1, 2, 3, 4):
        for rank in range(0, t + 1):
            for sw in [(True, True), (True, False), (False, True)]:
                for il in (True, False):
                    if sw[1] is False and rank > 0:
                        continue        # rank is irrelevant without task noise
                    for _ in range(2 if q else 6):
                        cfgs.append(gen_multi(rng, tier, force=dict(t=t, rank=rank, sw=sw, il=il)))
    for _ in range(50 if q else 400):
        cfgs.append(gen_gauss(rng))
    for _ in range(40 if q else 300):
        cfgs.append(gen_multi(rng, tier))
    for _ in range(15 if q else 100):
        cfgs.append(gen_list(rng, False))
    # fantasy likelihoods (own stream: the configurations above stay what they were)
    frng = random.Random(rng.randint(0, 10 ** 9))
    for base, learn in (("fixed", False), ("fixed", True), ("gauss", False)):
        for _ in range((14 if base == "fixed" else 6) if q else 80):
            cfgs.append(gen_fantasy(frng, base=base, learn=learn))
    # specification histories (own stream)
    hrng = random.Random(rng.randint(0, 10 ** 9))
    for learn in (False, True):
        for nops in (0, 1, 2, 3):
            for _ in range(8 if q else 50):
                cfgs.append(gen_hist(hrng, learn=learn, nops=nops))
    for fam in ("gauss", "multi"):
        for _ in range(16 if q else 100):
            cfgs.append(gen_param_hist(hrng, fam))
    # LikelihoodList with a noise list: every pattern of tensor / None entries for 1..3 members
    for k in (1, 2, 3):
        for pattern in itertools.product([True, False], repeat=k):
            for _ in range(3 if q else 12):
                cfgs.append(gen_list(hrng, True, pattern=list(pattern)))
    return cfgs


# ------------------------------------------------------------------------------- implementation

def T(x):
    return torch.tensor(x, dtype=torch.float64)


def build_dist(c, N):
    A = T(c["A"])
    cov = A @ A.transpose(-1, -2) + 0.5 * torch.eye(N)
    mean = T(c["mean"])
    y = T(c["y"])
    return mean, cov, y


def build(c):
    """-> (lik, dist, y (event shaped), kwargs, params)"""
    fam = c["fam"]
    kwargs, params = {}, ()
    if fam == "gauss":
        lik = GaussianLikelihood(batch_shape=torch.Size(c["lb"]))
        lik.noise = T(c["noise"])
        mean, cov, y = build_dist(c, c["n"])
        dist = MultivariateNormal(mean, cov)
    elif fam == "fixed":
        lik = FixedNoiseGaussianLikelihood(T(c["stored"]), learn_additional_noise=c["learn"],
                                           batch_shape=torch.Size(c["lb"]))
        if c["learn"]:
            lik.second_noise = T(c["second"])
        mean, cov, y = build_dist(c, c["n"])
        dist = MultivariateNormal(mean, cov)
        if c["call"] is not None:
            kwargs["noise"] = T(c["call"])
    elif fam == "fantasy":
        lik = fantasy_likelihood(c)
        mean, cov, y = build_dist(c, c["n"])
        dist = MultivariateNormal(mean, cov)
    elif fam == "hist":
        dt = dtype_of(c)
        lik = hist_likelihood(c)
        mean, cov, y = (x.to(dt) for x in build_dist(c, c["n"]))
        dist = MultivariateNormal(mean, cov)
        if c["call"] is not None:
            kwargs["noise"] = T(c["call"]).to(dt)
    elif fam == "gausshist":
        lik = GaussianLikelihood()
        lik.noise = T(c["noise"])
        for op in c["ops"]:
            if op["via"] == "setter":
                lik.noise = T([op["s"]])
            elif op["via"] == "initialize":
                lik.initialize(noise=T([op["s"]]))
            elif op["via"] == "raw":
                lik.initialize(raw_noise=T([op["raw"]]))
            else:
                lik.initialize(**{"noise_covar.raw_noise": T([op["raw"]])})
        mean, cov, y = build_dist(c, c["n"])
        dist = MultivariateNormal(mean, cov)
        if c["call"] is not None:
            kwargs["noise"] = T(c["call"])
    elif fam in ("multi", "multihist"):
        n, t = c["n"], c["t"]
        lik = MultitaskGaussianLikelihood(num_tasks=t, rank=c["rank"], batch_shape=torch.Size(c["lb"]),
                                          has_global_noise=c["hg"], has_task_noise=c["ht"])
        if c["hg"]:
            lik.noise = T(c["noise"])
        if c["ht"] and c["rank"] == 0:
            lik.task_noises = T(c["task_noises"])
        if c["ht"] and c["rank"] > 0:
            lik.task_noise_covar_factor.data = T(c["F"])
        for op in c.get("ops", []):
            name, val = {"glob": ("noise", lambda: T([op["s"]])), "task": ("task_noises", lambda: T(op["d"])),
                         "factor": ("task_noise_covar_factor", lambda: T(op["F"]))}[op["op"]]
            if op["via"] == "setter":
                setattr(lik, name, val())
            elif op["via"] == "initialize":
                lik.initialize(**{name: val()})
            elif op["via"] == "data":
                lik.task_noise_covar_factor.data = val()
            else:
                lik.initialize(**{"raw_" + name: T([op["raw"]] if op["op"] == "glob" else op["raw"])})
        mean, cov, y = build_dist(c, n * t)
        mean = mean.reshape(*mean.shape[:-1], n, t)
        y = y.reshape(*y.shape[:-1], n, t)
        dist = MultitaskMultivariateNormal(mean, cov, interleaved=c["il"])
    else:
        raise ValueError(fam)
    if c.get("with_param"):
        # a positional "train inputs" argument: only its shape (.., n, d) is used
        params = (torch.zeros(*c["db"], c["n"], 2, dtype=dtype_of(c)),)
    lik.eval()
    return lik, dist, y, kwargs, params


class _GP(gpytorch.models.ExactGP):
    def __init__(self, x, y, lik):
        super().__init__(x, y, lik)
        self.mean_module, self.covar_module = gpytorch.means.ZeroMean(), gpytorch.kernels.RBFKernel()

    def forward(self, x):
        return MultivariateNormal(self.mean_module(x), self.covar_module(x))


def dtype_of(c):
    return torch.float32 if c.get("dtype") == "float32" else torch.float64


def hist_likelihood(c):
    """replays the specification history of a "hist" configuration on a FixedNoiseGaussianLikelihood"""
    dt = dtype_of(c)
    T = lambda x: torch.tensor(x, dtype=dt)     # noqa: E731
    floor = contextlib.nullcontext()
    if c["floor"] is not None:
        floor = gpytorch.settings.min_fixed_noise(**{"float_value" if dt == torch.float32 else "double_value": c["floor"]})
    with warnings.catch_warnings(), floor:
        warnings.simplefilter("ignore")
        kw = dict(noise_constraint=gpytorch.constraints.GreaterThan(c["lb2"])) if c["lb2"] is not None else {}
        lik = FixedNoiseGaussianLikelihood(T(c["init"]), learn_additional_noise=c["learn"], **kw).to(dt)
        if c["second0"] is not None:
            lik.second_noise = T([c["second0"]])
        for op in c["ops"]:
            if op["op"] == "fixed":
                if op["via"] == "setter":
                    lik.noise = T(op["v"])
                else:
                    lik.initialize(noise=T(op["v"]))
            elif op["op"] == "second":
                if op["via"] == "setter":
                    lik.second_noise = T([op["s"]])
                elif op["via"] == "initialize":
                    lik.initialize(second_noise=T([op["s"]]))
                elif op["via"] == "raw":
                    lik.initialize(**{"second_noise_covar.raw_noise": T([op["raw"]])})
                else:
                    lik.second_noise_covar.initialize(raw_noise=T([op["raw"]]))
            else:
                lik = lik.get_fantasy_likelihood(noise=T(op["nw"]))
    return lik


def fantasy_base(c):
    if c["base"] == "gauss":
        lik = GaussianLikelihood()
        lik.noise = T(c["noise"])
    else:
        lik = FixedNoiseGaussianLikelihood(T(c["stored"]), learn_additional_noise=c["learn"])
        if c["learn"]:
            lik.second_noise = T(c["second"])
    return lik


def fantasy_likelihood(c, keep=None):
    """the likelihood after the configured get_fantasy_likelihood steps; keep (a list) receives the source likelihood"""
    lik = fantasy_base(c)
    if keep is not None:
        keep.append(lik)
    rng = random.Random(c["mseed"])
    pts = lambda k: T([[rng.randint(-40, 40) / 8.0] for _ in range(k)])  # noqa: E731
    if c["via_model"]:
        model = _GP(pts(c["n0"]), T([dy(rng) for _ in range(c["n0"])]), lik)
        model.eval(); lik.eval()
        with torch.no_grad():
            model(pts(2))
            for st in c["steps"]:
                kw = dict(noise=T(st["noise"])) if c["base"] == "fixed" else {}
                model = model.get_fantasy_model(pts(st["m"]), T([dy(rng) for _ in range(st["m"])]), **kw)
        return model.likelihood
    for st in c["steps"]:
        kw = dict(noise=T(st["noise"])) if c["base"] == "fixed" else {}
        lik = lik.get_fantasy_likelihood(**kw)
    return lik


def impl_run(c):
    lik, dist, y, kwargs, params = build(c)
    with torch.no_grad():
        marg = lik(dist, *params, **kwargs)
        added = marg.covariance_matrix - dist.covariance_matrix
        res = dict(added=added, mean_delta=float((marg.mean - dist.mean).abs().max()),
                   cls_same=type(marg) is type(dist))
        if c["fam"] == "fantasy":
            # the source likelihood still adds its own noise to a distribution over the old points
            keep = []
            fantasy_likelihood(c, keep)
            src = keep[0]
            src.eval()
            d0 = MultivariateNormal(torch.zeros(c["n0"]), torch.eye(c["n0"]))
            res["source_added"] = (src(d0).covariance_matrix - d0.covariance_matrix)
        if is_mismatch(c):
            # documented no-op for the fixed part; only the marginal is meaningful (R may be 0)
            return res
        if c["fam"] in ("multi", "multihist"):
            res["layout_same"] = marg._interleaved == dist._interleaved
            elp = lik.expected_log_prob(y, dist)
            lm = lik.log_marginal(y, dist)
            cond = lik(dist.mean)
        else:
            elp = lik.expected_log_prob(y, dist, *params, **kwargs)
            lm = lik.log_marginal(y, dist, *params, **kwargs)
            cond = lik(dist.mean, *params, **kwargs)
        res.update(elp=elp, lm=lm, condvar=cond.variance, condmean_delta=float((cond.mean - dist.mean).abs().max()))
    return res


def is_mismatch(c):
    return c["fam"] == "fixed" and len(_last(c["stored"])) != c["n"]


def params_public(c, lik):
    """likelihood parameters as the public properties report them (floats -> exact rationals)"""
    with torch.no_grad():
        if c["fam"] == "gauss":
            return dict(noise=lik.noise)
        if c["fam"] in ("hist", "gausshist", "multihist"):
            return {}       # the model works from the specified values only
        if c["fam"] == "fantasy":
            # parameters of the SOURCE likelihood (the fantasy likelihood's stored noise is what is being checked)
            src = fantasy_base(c)
            if c["base"] == "gauss":
                return dict(noise=src.noise)
            d = dict(old=src.noise_covar.noise)
            if c["learn"]:
                d["second"] = src.second_noise
            return d
        if c["fam"] == "fixed":
            d = dict(stored=lik.noise_covar.noise)
            if c["learn"]:
                d["second"] = lik.second_noise
            return d
        d = {}
        if c["hg"]:
            d["noise"] = lik.noise
        if c["ht"] and c["rank"] == 0:
            d["task_noises"] = lik.task_noises
        if c["ht"] and c["rank"] > 0:
            d["F"] = lik.task_noise_covar_factor.detach()
        return d


def bsel(x, bshape, B, b, ev):
    """element b of tensor x (batch shape bshape, `ev` trailing event dims) broadcast to batch B"""
    x = x.expand(*B, *x.shape[len(x.shape) - ev:]) if len(B) else x.reshape(x.shape[len(x.shape) - ev:])
    return x[tuple(b)] if len(B) else x


def opt_q(x):
    return "None" if x is None else "(Some %s)" % C.qc_lit(x)


def coq_cfg(c, pub, B, b, N, call=None):
    fam = c["fam"]
    if fam == "gauss":
        return "(LHomo %s)" % C.qc_lit(bsel(pub["noise"], c["lb"], B, b, 1)[0].item())
    if fam == "gausshist":
        return "(LHomoHist %s %s %s)" % (C.qc_lit(c["noise"][0]), C.qc_vec([op["s"] for op in c["ops"]]),
                                         "None" if c["call"] is None else "(Some %s)" % C.qc_vec(c["call"]))
    if fam == "hist":
        ops = []
        for op in c["ops"]:
            if op["op"] == "fixed":
                ops.append("qOpFixed %s" % C.qc_vec(op["v"]))
            elif op["op"] == "second":
                ops.append("qOpSecond %s" % C.qc_lit(op["s"]))
            else:
                ops.append("qOpFantasy %s" % C.qc_vec(op["nw"]))
        learned0 = None
        if c["learn"]:
            learned0 = c["second0"] if c["second0"] is not None else \
                softplus_noise(0.0, DEFAULT_LB if c["lb2"] is None else c["lb2"])      # raw parameter starts at 0
        if call is None and c["call"] is not None:
            call = c["call"]
        dflt = DEFAULT_FLOOR32 if c.get("dtype") == "float32" else DEFAULT_FLOOR
        return "(LHist %s %s %s [%s] %s)" % (C.qc_lit(dflt if c["floor"] is None else c["floor"]),
                                             C.qc_vec(c["init"]), opt_q(learned0), "; ".join(ops),
                                             "None" if call is None else "(Some %s)" % C.qc_vec(call))
    if fam == "multihist":
        ops = []
        for op in c["ops"]:
            if op["op"] == "glob":
                ops.append("qMGlob %s" % C.qc_lit(op["s"]))
            elif op["op"] == "task":
                ops.append("qMTask %s" % C.qc_vec(op["d"]))
            else:
                ops.append("qMFactor %s" % C.qc_mat(op["F"]))
        return "(LMultiHist %d%%nat %d%%nat %s %s %s %s %s [%s])" % (
            c["t"], c["rank"], "true" if c["ht"] else "false", "true" if c["il"] else "false",
            C.qc_vec(c["task_noises"] or []), C.qc_mat(c["F"] or []), opt_q(c["noise"][0] if c["hg"] else None),
            "; ".join(ops))
    if fam == "fantasy":
        if c["base"] == "gauss":
            return "(LHomo %s)" % C.qc_lit(pub["noise"].reshape(-1)[0].item())
        news = [bsel(T(st["noise"]), c["fb"], B, b, 1).tolist() for st in c["steps"]]
        second = pub["second"].reshape(-1)[0].item() if c["learn"] else None
        return "(LFantasy %s [%s] %s)" % (C.qc_vec(pub["old"].tolist()), "; ".join(C.qc_vec(v) for v in news), opt_q(second))
    if fam == "fixed":
        if c["call"] is None and not is_mismatch(c):
            stored = bsel(pub["stored"], c["nb"], B, b, 1).tolist()
        else:       # not used by this call (replaced by the call-time noise / size mismatch)
            stored = pub["stored"].reshape(-1, pub["stored"].shape[-1])[0].tolist()
        second = bsel(pub["second"], c["lb"], B, b, 1)[0].item() if c["learn"] else None
        if call is None and c["call"] is not None:
            call = bsel(T(c["call"]), c["cb"], B, b, 1).tolist()
        return "(LFixed %s %s %s)" % (C.qc_vec(stored), "None" if call is None else "(Some %s)" % C.qc_vec(call),
                                      opt_q(second))
    t, r = c["t"], c["rank"]
    glob = bsel(pub["noise"], c["lb"], B, b, 1)[0].item() if c["hg"] else None
    d = bsel(pub["task_noises"], c["lb"], B, b, 1).tolist() if "task_noises" in pub else []
    F = bsel(pub["F"], c["lb"], B, b, 2).tolist() if "F" in pub else []
    return "(LMulti %d%%nat %d%%nat %s %s %s %s %s)" % (
        t, r, "true" if c["ht"] else "false", "true" if c["il"] else "false", C.qc_vec(d), C.qc_mat(F), opt_q(glob))


def flat_event(c, x):
    """event-shaped tensor of one batch element -> list in the flat order of the covariance"""
    if c["fam"] in ("multi", "multihist"):
        return (x if c["il"] else x.transpose(-1, -2)).reshape(-1).tolist()
    return x.tolist()


def case_batch(c):
    """batch shape of the result: broadcast of the batch shapes of everything that is USED"""
    shapes = [c["db"]]
    if c["fam"] == "fantasy":
        shapes.append(c["fb"])
    elif c["fam"] in ("hist", "gausshist"):
        pass
    elif c["fam"] == "fixed":
        if c["learn"]:
            shapes.append(c["lb"])
        if c["call"] is not None:
            shapes.append(c["cb"])
        elif not is_mismatch(c):
            shapes.append(c["nb"])
    else:
        shapes.append(c["lb"])
    return broadcastable(*shapes)


def model_terms(c):
    """one Coq case per element of the broadcast batch"""
    lik, dist, y, kwargs, params = build(c)
    pub = params_public(c, lik)
    B = case_batch(c)
    N = c["n"] * c.get("t", 1)
    ev = 2 if c["fam"] in ("multi", "multihist") else 1
    with torch.no_grad():
        var = dist.covariance_matrix.diagonal(dim1=-1, dim2=-2)
    terms, idx = [], []
    for b in itertools.product(*[range(k) for k in B]):
        yb = flat_event(c, bsel(y, c["db"], B, b, ev))
        mb = flat_event(c, bsel(dist.mean, c["db"], B, b, ev))
        vb = bsel(var, c["db"], B, b, 1).tolist()
        terms.append("(single (%d%%nat, %s, %s, %s, %s))" % (N, coq_cfg(c, pub, B, b, N), C.qc_vec(yb), C.qc_vec(mb),
                                                           C.qc_vec(vb)))
        idx.append(b)
    return terms, idx, B


def list_build(c):
    liks, dists, ys = [], [], []
    for m in c["members"]:
        lik, dist, y, _, _ = build(m)
        liks.append(lik); dists.append(dist); ys.append(y)
    ll = LikelihoodList(*liks)
    ll.eval()
    return ll, liks, dists, ys


def list_model_term(c):
    ll, liks, dists, ys = list_build(c)
    cfgs = []
    for m, lik in zip(c["members"], liks):
        cfgs.append(coq_cfg(m, params_public(m, lik), [], (), m["n"]))
    nz = "None" if c["noises"] is None else "(Some [%s])" % "; ".join(
        "None" if n is None else "(Some %s)" % C.qc_vec(n) for n in c["noises"])
    return "(lst ([%s], %s, %s))" % ("; ".join(cfgs), C.nat_list([m["n"] for m in c["members"]]), nz)


# ------------------------------------------------------------------------------- comparison

def describe(c):
    if c["fam"] == "list":
        return dict(fam="list", members=[describe(m) for m in c["members"]], with_noise=c["noises"] is not None,
                    noise_entries=None if c["noises"] is None else ["None" if n is None else "tensor" for n in c["noises"]])
    d = {k: c[k] for k in ("fam", "n", "t", "rank", "hg", "ht", "il", "lb", "db", "nb", "cb", "learn", "with_param",
                           "base", "n0", "fb", "via_model") if k in c}
    if c["fam"] == "fantasy":
        d["steps"] = [st["m"] for st in c["steps"]]
    if c["fam"] == "fixed":
        d["call_noise"] = c["call"] is not None
        d["size_mismatch"] = is_mismatch(c)
    if c["fam"] in ("hist", "gausshist", "multihist"):
        d["ops"] = [op.get("op", "noise") + ":" + op["via"] if "via" in op else op["op"] for op in c["ops"]]
        d["call_noise"] = c.get("call") is not None
        if c["fam"] == "hist":
            d["floor"], d["lb2"], d["dtype"] = c["floor"], c["lb2"], c.get("dtype", "float64")
    return d


def _last(x):
    while isinstance(x[0], list):
        x = x[0]
    return x


def key_of(c):
    if c["fam"] == "gauss":
        return "gaussian"
    if c["fam"] == "fantasy":
        return "fantasy:%s%s:%s" % ("gaussian" if c["base"] == "gauss" else "fixednoise", "+learned" if c["learn"] else "",
                                    "get_fantasy_model" if c["via_model"] else "get_fantasy_likelihood")
    if c["fam"] == "fixed":
        return "fixednoise:%s%s" % ("call-noise" if c["call"] is not None else "stored-noise",
                                    "+learned" if c["learn"] else "")
    if c["fam"] == "hist":
        last = {}
        for op in c["ops"]:
            last["fixed" if op["op"] in ("fixed", "fantasy") else "second"] = op["op"] + ("-" + op["via"] if "via" in op else "")
        return "history:fixednoise%s%s:%s:%s" % ("+learned" if c["learn"] else "", ":float32" if c.get("dtype") == "float32" else "",
                                               "+".join(last[k] for k in sorted(last)) or "constructor",
                                               "call-noise" if c["call"] is not None else "stored-noise")
    if c["fam"] == "gausshist":
        return "history:gaussian:%s%s" % (c["ops"][-1]["via"], ":call-noise" if c["call"] is not None else "")
    if c["fam"] == "multihist":
        last = {}
        for op in c["ops"]:
            last[op["op"]] = op["op"] + "-" + op["via"]
        return "history:multitask:%s:%s" % ("interleaved" if c["il"] else "noninterleaved",
                                            "+".join(last[k] for k in sorted(last)))
    return "multitask:%s:%s:%s" % ("interleaved" if c["il"] else "noninterleaved",
                                   "rank0" if c["rank"] == 0 else "rankr",
                                   ("global" if c["hg"] else "") + ("+task" if c["ht"] else ""))


def close(a, b):
    return C.close(a, b, ATOL, RTOL)


def compare_single(out, c, res, results, idx, B):
    """results: model output (list of ints) per batch element"""
    N = c["n"] * c.get("t", 1)
    key = key_of(c)
    desc = dict(cfg=c)
    multi = c["fam"] in ("multi", "multihist")
    f32 = c.get("dtype") == "float32"
    # float32: C + R - C loses ~1e-6 |C|; the conditional variance (= R itself) is compared relatively
    close = (lambda a, b: C.close(a, b, 5e-6, 1e-5)) if f32 else (lambda a, b: C.close(a, b, ATOL, RTOL))
    close_cf = (lambda a, b: C.close(a, b, 1e-3, 1e-4)) if f32 else close
    rtol_cond = 1e-5 if f32 else RTOL
    ok = True
    if list(res["added"].shape) != B + [N, N]:
        out.fail(key + ":shape", "marginal covariance has shape %s, expected %s" % (list(res["added"].shape), B + [N, N]),
                 desc)
        return False
    if res["mean_delta"] != 0.0 or not res["cls_same"] or (multi and not res["layout_same"]):
        out.fail(key + ":mean", "marginal changed the mean / class / layout of the input distribution", desc)
        ok = False
    if not is_mismatch(c):
        ev = [c["n"], c["t"]] if multi else [N]
        for name, x, want in (("conditional", res["condvar"], B + ev), ("expected_log_prob", res["elp"], B + [c["n"]]),
                              ("log_marginal", res["lm"], B + [c["n"]])):
            if list(x.shape) != want:
                out.fail(key + ":" + name + ":shape", "%s has shape %s, expected %s" % (name, list(x.shape), want), desc)
                return False
    if "source_added" in res:
        n0 = c["n0"]
        want = torch.diag(T(c["stored"]) + (T(c["second"]) if c["learn"] else 0.0)) if c["base"] == "fixed" else \
            torch.eye(n0) * T(c["noise"])
        sa = res["source_added"]
        if list(sa.shape) != [n0, n0] or not all(close(sa[i, j].item(), want[i, j].item()) for i in range(n0) for j in range(n0)):
            out.fail(key + ":source", "after get_fantasy_likelihood the SOURCE likelihood no longer adds its own noise", desc,
                     impl=sa.tolist(), model=want.tolist())
            ok = False
    for b, r in zip(idx, results):
        rd = C.Reader(r)
        R = rd.qmat(N, N)
        add = res["added"][tuple(b)] if B else res["added"]
        bad = [(i, j) for i in range(N) for j in range(N) if not close(add[i, j].item(), R[i][j])]
        if bad:
            out.fail(key + ":marginal", "likelihood(dist) adds %s at %s, the documented noise operator has %s"
                     % (add[bad[0]].item(), bad[0], float(R[bad[0][0]][bad[0][1]])), dict(cfg=c, batch_index=list(b)),
                     impl=add.tolist(), model=[[float(v) for v in row] for row in R])
            ok = False
        if is_mismatch(c):
            continue
        elp_m, lm_m = [], []
        for _ in range(N):
            elp_m.append(rd.expr()); lm_m.append(rd.expr())
        # conditional p(y|f): independent normals with variance diag R (event shaped)
        cv = res["condvar"][tuple(b)] if B else res["condvar"]
        cvf = cv.reshape(-1).tolist()       # forward() lays the diagonal out as (n, t): interleaved order
        diagR = [float(R[i][i]) for i in range(N)]
        if multi and not c["il"]:
            n, t = c["n"], c["t"]
            diagR = [diagR[a * n + i] for i in range(n) for a in range(t)]
        # the conditional variance IS the noise (no cancellation against C): compared relatively, at every magnitude
        if len(cvf) != N or any(not C.close(x, v, 1e-30, rtol_cond) for x, v in zip(cvf, diagR)) or res["condmean_delta"] != 0.0:
            out.fail(key + ":conditional", "likelihood(f) is not N(f, diag R)", dict(cfg=c, batch_index=list(b)),
                     impl=cvf, model=diagR)
            ok = False
        # elementwise closed forms; the multitask likelihoods sum over the task dimension
        for name, got, mod in (("expected_log_prob", res["elp"], elp_m), ("log_marginal", res["lm"], lm_m)):
            g = (got[tuple(b)] if B else got).tolist()
            if multi:
                n, t = c["n"], c["t"]
                flat = (lambda i, a: i * t + a) if c["il"] else (lambda i, a: a * n + i)
                want = [mpmath.fsum(mod[flat(i, a)] for a in range(t)) for i in range(n)]
            else:
                want = mod
            if len(g) != len(want) or any(not close_cf(x, w) for x, w in zip(g, want)):
                out.fail(key + ":" + name, "%s differs from the closed form" % name, dict(cfg=c, batch_index=list(b)),
                         impl=g, model=[float(w) for w in want])
                ok = False
    return ok


def run_list_impl(c):
    ll, liks, dists, ys = list_build(c)
    kw = {} if c["noises"] is None else dict(noise=[None if n is None else T(n) for n in c["noises"]])
    with torch.no_grad():
        margs = ll(*dists, **kw)
        added = [(m.covariance_matrix - d.covariance_matrix).tolist() for m, d in zip(margs, dists)]
        conds = ll.forward(*[d.mean for d in dists], **kw) if c["noises"] is not None else \
            ll(*[d.mean for d in dists])
        condvar = [cd.variance.tolist() for cd in conds]
        elp = None
        if c["noises"] is None:
            e = ll.expected_log_prob(*[(y, d) for y, d in zip(ys, dists)])
            single = [lk.expected_log_prob(y, d) for lk, y, d in zip(liks, ys, dists)]
            elp = (([x.tolist() for x in e]), [x.tolist() for x in single])
    return dict(added=added, condvar=condvar, elp=elp)


def compare_list(out, c, res, r):
    key = "likelihoodlist:" + ("plain" if c["noises"] is None else
                               "noise-kwarg:none-entries" if any(n is None for n in c["noises"]) else "noise-kwarg")
    rd = C.Reader(r)
    if rd.int() != 1:
        out.fail(key + ":model", "model rejected a well-formed LikelihoodList call", dict(cfg=c))
        return
    k = rd.int()
    ok = k == len(res["added"])
    Rs = []
    for _ in range(k):
        N = rd.int()
        Rs.append(rd.qmat(N, N))
    for mi, (R, add, cv) in enumerate(zip(Rs, res["added"], res["condvar"])):
        N = len(R)
        if len(add) != N or any(not close(add[i][j], R[i][j]) for i in range(N) for j in range(N)):
            ok = False
        if len(cv) != N or any(not C.close(cv[i], R[i][i], 1e-30, RTOL) for i in range(N)):
            ok = False
    if res["elp"] is not None and res["elp"][0] != res["elp"][1]:
        ok = False
    if not ok:
        out.fail(key + ":routing", "LikelihoodList did not apply member k to argument k (with noise k)", dict(cfg=c),
                 impl=dict(added=res["added"], condvar=res["condvar"]),
                 model=[[[float(v) for v in row] for row in R] for R in Rs])


def evaluate(out, cfgs, tag, count=True):
    terms, spans, kept = [], [], []
    for c in cfgs:
        # building the likelihood / distribution already runs implementation code: never crash on it
        try:
            if c["fam"] == "list":
                t, idx, B = [list_model_term(c)], None, None
            else:
                t, idx, B = model_terms(c)
        except Exception as e:
            k0 = ("likelihoodlist:" + ("noise-kwarg" if c["noises"] is not None else "plain")) if c["fam"] == "list" else key_of(c)
            out.case(describe(c), True, label="construction-failed")
            out.fail("%s:construction-exception:%s" % (k0, type(e).__name__),
                     "constructing the likelihood / distribution raised %s: %s" % (type(e).__name__, str(e)[:200]), dict(cfg=c))
            continue
        spans.append((len(terms), len(t), idx, B))
        terms += t
        kept.append(c)
    cfgs = kept
    results = C.coq_run_cases(tag, IMPORTS, RUN_DEF, terms, shard=max(8, (len(terms) + 15) // 16))
    for c, (s, k, idx, B) in zip(cfgs, spans):
        fam = c["fam"]
        if count:
            d = describe(c)
            nontrivial = fam == "list" or (c["n"] * c.get("t", 1) >= 2)
            out.case(d, nontrivial, label="family=" + (key_of(c) if fam != "list" else
                                                       "likelihoodlist:" + ("noise" if c["noises"] else "plain")))
            if fam != "list":
                out.count("batch lik=%s dist=%s" % (c["lb"], c["db"]))
        try:
            res = run_list_impl(c) if fam == "list" else impl_run(c)
        except Exception as e:
            k0 = ("likelihoodlist:" + ("noise-kwarg" if c["noises"] is not None else "plain")) if fam == "list" else key_of(c)
            out.fail("%s:impl-exception:%s" % (k0, type(e).__name__),
                     "implementation raised %s: %s on a configuration the property covers" % (type(e).__name__, str(e)[:200]),
                     dict(cfg=c))
            continue
        if fam == "list":
            compare_list(out, c, res, results[s])
        else:
            compare_single(out, c, res, results[s:s + k], idx, B)


def run(out, ctx):
    tier, seed = ctx["tier"], ctx["seed"]
    rng = random.Random(seed * 104729 + 12)
    torch.manual_seed(seed)
    cfgs = gen_configs(rng, tier)
    out.rule = ("configuration grid {FixedNoise: learn_additional_noise x call-time noise; Multitask: t 1..4 x rank 0..t x "
                "(global,task) switches x layout} plus random Gaussian / FixedNoise / Multitask / LikelihoodList cases; plus fantasy likelihoods (Gaussian, "
                "FixedNoise with / without learned noise; 1..3 get_fantasy_likelihood(noise=new) steps of 1..2 points, called "
                "directly or through ExactGP.get_fantasy_model, new-noise batch [] / [2]) applied to a distribution over the "
                "old points followed by the appended points: the model stores [old; new_1; ...; new_k]; "
                "event sizes 1..4 (n*t <= 16), likelihood / stored-noise / call-noise / distribution batch shapes of rank "
                "0..2 drawn from %s (any broadcastable combination, multitask included); every element of the broadcast batch is compared; "
                "non-trivial = flattened event size >= 2; "
                "plus SPECIFICATION HISTORIES: FixedNoiseGaussianLikelihood (learned noise on/off, float64 and float32, default and custom "
                "settings.min_fixed_noise floor, default / custom noise_constraint) after 0..3 operations out of {lik.noise = v, "
                "initialize(noise=v) (also with another length), second_noise setter / initialize / raw parameter (two spellings), "
                "get_fantasy_likelihood(noise=)} with or without a final call-time noise; GaussianLikelihood and MultitaskGaussianLikelihood "
                "with 1..3 re-specifications of noise / task_noises / task_noise_covar_factor via setter, initialize or raw parameter; the model "
                "folds the SPECIFIED values (last specification of each component wins; constructor and fantasy values are rounded up to the "
                "floor, setter and call-time values are taken as passed); noise magnitudes k/16 * 2^e from 2^-40 to 8 (below every floor) for "
                "constructor, fantasy and call-time noise, setter values at or above the floor; LikelihoodList noise lists with every "
                "pattern of tensor / None entries for 1..3 members (FixedNoise, FixedNoise-with-history and Gaussian members; None entries only "
                "for FixedNoise members); the conditional variance is compared relatively (1e-9; float32 1e-5)" % BATCHES)
    out.extra["tolerances"] = {"all": "1e-9 abs + 1e-9 rel"}
    evaluate(out, cfgs, "C12")
    out.extra["not_modelled"] = ["a value below settings.min_fixed_noise passed through the `noise` SETTER (stored as passed by the "
                                 "current code; documentation only describes rounding of 'supplied' values with a warning)",
                                 "a None noise entry for a GaussianLikelihood member of a LikelihoodList (raises AttributeError in "
                                 "_HomoskedasticNoiseBase.forward; only a Tensor kwarg is documented there)"]
    out.tested_not_proved = ["torch broadcasting of batch shapes (the model is per batch element; see C08)",
                             "float64 rounding of softplus / log / F F^T in the implementation"]


def replay(path):
    d = json.load(open(path))
    c = d["case"]["cfg"]
    out = C.Outcome("C12", "quick", 0)
    evaluate(out, [c], "C12_replay", count=False)
    for f in out.failures:
        print(f["key"], "-", f["what"])
        print("  impl :", C.jsonable(f.get("impl")))
        print("  model:", C.jsonable(f.get("model")))
    print("FAILS" if out.failures else "agrees")
    return 1 if out.failures else 0
