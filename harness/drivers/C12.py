"""C12 — Gaussian-family likelihoods add exactly the specified noise, integrate exactly.
Tie C: for every configuration (likelihood family x batch shapes x switches) the implementation's
`likelihood(dist[, noise=])`, `expected_log_prob`, `log_marginal`, the conditional `likelihood(f)`
and `LikelihoodList` routing are compared with the Coq model Models/C12_noise.v: the dense noise
operator R (exact rationals, vm_compute) built from the likelihood parameters read through the
public properties, and the closed forms as Expr terms evaluated with mpmath."""
import itertools
import json
import random

import mpmath
import torch

import gpytorch
from gpytorch.distributions import MultitaskMultivariateNormal, MultivariateNormal
from gpytorch.likelihoods import (FixedNoiseGaussianLikelihood, GaussianLikelihood, LikelihoodList,
                                  MultitaskGaussianLikelihood)
from harness.lib import common as C

COQ_TARGETS = ["Models/C12_noise.vo"]
LEVEL_NOTE = ("theorems are about the Gallina model of the noise operators / closed forms; tie to /repo is "
              "differential (public outputs, float64 vs exact rationals / 40-digit mpmath, tolerance 1e-9)")
IMPORTS = ("From Coq Require Import List ZArith QArith Qcanon.\n"
           "From GPV Require Import Base.LinAlg Base.Exec Base.Expr Models.C12_noise.")
RUN_DEF = ("Definition case : Type := ((nat * lik_cfg * list Qc * list Qc * list Qc) + "
           "(list lik_cfg * list nat * option (list (list Qc))))%type.\n"
           "Definition single a : case := inl a.\nDefinition lst b : case := inr b.\n"
           "Definition run (c : case) : list Z :=\n"
           "  match c with inl a => run_c12 a | inr b => run_c12_list b end.")
ATOL = RTOL = 1e-9
torch.set_default_dtype(torch.float64)
mpmath.mp.dps = 40


# ------------------------------------------------------------------------------- generation

def dy(rng, lo=-16, hi=16, den=8.0):
    return rng.randint(lo, hi) / den


def pos(rng):
    return rng.randint(2, 24) / 16.0


def nested(rng, shape, f):
    if not shape:
        return f(rng)
    return [nested(rng, shape[1:], f) for _ in range(shape[0])]


BATCHES = [[], [2], [1], [3], [2, 3], [3, 1], [1, 2]]


def broadcastable(*shapes):
    try:
        return list(torch.broadcast_shapes(*[tuple(s) for s in shapes]))
    except RuntimeError:
        return None


def expandable(src, dst):
    """torch.Tensor.expand rule: src (right aligned) dims equal dst or 1, rank(src) <= rank(dst)"""
    if len(src) > len(dst):
        return False
    return all(a == b or a == 1 for a, b in zip(reversed(src), reversed(dst)))


def gen_dist(rng, db, N):
    return dict(mean=nested(rng, db + [N], dy), A=nested(rng, db + [N, N], lambda r: dy(r, -8, 8)),
                y=nested(rng, db + [N], dy))


def gen_gauss(rng, lb=None, db=None, n=None):
    while True:
        lb_ = rng.choice(BATCHES) if lb is None else lb
        db_ = rng.choice(BATCHES) if db is None else db
        if broadcastable(lb_, db_) is not None:
            break
    n = n or rng.randint(1, 4)
    c = dict(fam="gauss", n=n, lb=lb_, db=db_, noise=nested(rng, lb_ + [1], pos), with_param=rng.random() < 0.25)
    c.update(gen_dist(rng, db_, n))
    return c


def gen_fixed(rng, simple=False, force=None):
    force = force or {}
    while True:
        lb = [] if simple else rng.choice(BATCHES)
        db = [] if simple else rng.choice(BATCHES)
        nb = [] if simple else rng.choice([[], [], db, [2], [3]])
        cb = rng.choice([[], db])
        if broadcastable(lb, db, nb, cb) is not None:
            break
    n = rng.randint(1, 4)
    learn = force.get("learn", rng.random() < 0.5)
    call = force.get("call", rng.random() < 0.5)
    mismatch = (not call) and rng.random() < 0.15
    nst = n + 1 if mismatch else n
    c = dict(fam="fixed", n=n, lb=lb, db=db, nb=nb, stored=nested(rng, nb + [nst], pos), learn=learn,
             second=nested(rng, lb + [1], pos) if learn else None,
             call=nested(rng, cb + [n], pos) if call else None, cb=cb if call else None,
             with_param=(not mismatch) and rng.random() < 0.2)
    c.update(gen_dist(rng, db, n))
    return c


def gen_multi(rng, tier, force=None):
    force = force or {}
    while True:
        lb = rng.choice(BATCHES)
        db = rng.choice(BATCHES)
        if broadcastable(lb, db) is not None:
            break
    t = force.get("t", rng.randint(1, 4))
    n = rng.randint(1, 4 if t <= 3 else 3)
    rank = force.get("rank", rng.randint(0, t))
    hg, ht = force.get("sw", rng.choice([(True, True), (True, True), (True, False), (False, True)]))
    il = force.get("il", rng.random() < 0.5)
    c = dict(fam="multi", n=n, t=t, rank=rank, hg=hg, ht=ht, il=il, lb=lb, db=db,
             noise=nested(rng, lb + [1], pos) if hg else None,
             task_noises=nested(rng, lb + [t], pos) if (ht and rank == 0) else None,
             # non-zero factor entries: every task then has a positive noise variance diag(F F^T)
             F=nested(rng, lb + [t, rank], lambda r: r.choice([-1, 1]) * r.randint(1, 8) / 8.0)
             if (ht and rank > 0) else None)
    d = gen_dist(rng, db, n * t)
    c.update(d)
    return c


def gen_fantasy(rng, base=None, learn=None):
    """a likelihood obtained by 1..3 get_fantasy_likelihood calls (directly, or through ExactGP.get_fantasy_model),
    applied to a distribution over the n0 old points followed by the appended points"""
    base = base or rng.choice(["fixed", "fixed", "gauss"])
    n0 = rng.randint(1, 3)
    k = rng.randint(1, 3)
    via_model = rng.random() < 0.4
    # batch shape of the new noise (the stored noise is expanded to it); through a model the batch is a fantasy batch
    fb = [] if (via_model or base == "gauss") else rng.choice([[], [], [2]])
    db = rng.choice([[], fb]) if fb else rng.choice([[], [], [2]])
    steps = []
    for _ in range(k):
        m = rng.randint(1, 2)
        steps.append(dict(m=m, noise=nested(rng, fb + [m], pos) if base == "fixed" else None))
    n = n0 + sum(st["m"] for st in steps)
    learn = (rng.random() < 0.5 if learn is None else learn) and base == "fixed"
    c = dict(fam="fantasy", base=base, n0=n0, n=n, steps=steps, fb=fb, db=db, lb=[], via_model=via_model, learn=learn,
             stored=nested(rng, [n0], pos) if base == "fixed" else None,
             second=nested(rng, [1], pos) if learn else None,
             noise=nested(rng, [1], pos) if base == "gauss" else None,
             with_param=rng.random() < 0.3, mseed=rng.randint(0, 10 ** 9))
    c.update(gen_dist(rng, db, n))
    return c


def gen_list(rng, with_noise):
    k = rng.randint(1, 3)
    members = []
    for _ in range(k):
        if with_noise or rng.random() < 0.6:
            m = gen_fixed(rng, simple=True, force=dict(call=False))
            if m["n"] != len(m["stored"]):      # keep member sizes consistent when noise is routed
                m["stored"] = m["stored"][:m["n"]]
            m["with_param"] = False
        else:
            m = gen_gauss(rng, lb=[], db=[])
            m["with_param"] = False
        members.append(m)
    noises = [nested(rng, [m["n"]], pos) for m in members] if with_noise else None
    return dict(fam="list", members=members, noises=noises)


def gen_configs(rng, tier):
    cfgs = []
    q = tier == "quick"
    # grid part: every switch combination appears at least once (the configuration grid)
    for learn, call in itertools.product([False, True], repeat=2):
        for _ in range(12 if q else 40):
            cfgs.append(gen_fixed(rng, force=dict(learn=learn, call=call)))
    for t in (1, 2, 3, 4):
        for rank in range(0, t + 1):
            for sw in [(True, True), (True, False), (False, True)]:
                for il in (True, False):
                    if sw[1] is False and rank > 0:
                        continue        # rank is irrelevant without task noise
                    for _ in range(2 if q else 6):
                        cfgs.append(gen_multi(rng, tier, force=dict(t=t, rank=rank, sw=sw, il=il)))
    for _ in range(50 if q else 400):
        cfgs.append(gen_gauss(rng))
    for _ in range(40 if q else 300):
        cfgs.append(gen_multi(rng, tier))
    for wn in (False, True):
        for _ in range(15 if q else 100):
            cfgs.append(gen_list(rng, wn))
    # fantasy likelihoods (own stream: the configurations above stay what they were)
    frng = random.Random(rng.randint(0, 10 ** 9))
    for base, learn in (("fixed", False), ("fixed", True), ("gauss", False)):
        for _ in range((14 if base == "fixed" else 6) if q else 80):
            cfgs.append(gen_fantasy(frng, base=base, learn=learn))
    return cfgs


# ------------------------------------------------------------------------------- implementation

def T(x):
    return torch.tensor(x, dtype=torch.float64)


def build_dist(c, N):
    A = T(c["A"])
    cov = A @ A.transpose(-1, -2) + 0.5 * torch.eye(N)
    mean = T(c["mean"])
    y = T(c["y"])
    return mean, cov, y


def build(c):
    """-> (lik, dist, y (event shaped), kwargs, params)"""
    fam = c["fam"]
    kwargs, params = {}, ()
    if fam == "gauss":
        lik = GaussianLikelihood(batch_shape=torch.Size(c["lb"]))
        lik.noise = T(c["noise"])
        mean, cov, y = build_dist(c, c["n"])
        dist = MultivariateNormal(mean, cov)
    elif fam == "fixed":
        lik = FixedNoiseGaussianLikelihood(T(c["stored"]), learn_additional_noise=c["learn"],
                                           batch_shape=torch.Size(c["lb"]))
        if c["learn"]:
            lik.second_noise = T(c["second"])
        mean, cov, y = build_dist(c, c["n"])
        dist = MultivariateNormal(mean, cov)
        if c["call"] is not None:
            kwargs["noise"] = T(c["call"])
    elif fam == "fantasy":
        lik = fantasy_likelihood(c)
        mean, cov, y = build_dist(c, c["n"])
        dist = MultivariateNormal(mean, cov)
    elif fam == "multi":
        n, t = c["n"], c["t"]
        lik = MultitaskGaussianLikelihood(num_tasks=t, rank=c["rank"], batch_shape=torch.Size(c["lb"]),
                                          has_global_noise=c["hg"], has_task_noise=c["ht"])
        if c["hg"]:
            lik.noise = T(c["noise"])
        if c["ht"] and c["rank"] == 0:
            lik.task_noises = T(c["task_noises"])
        if c["ht"] and c["rank"] > 0:
            lik.task_noise_covar_factor.data = T(c["F"])
        mean, cov, y = build_dist(c, n * t)
        mean = mean.reshape(*mean.shape[:-1], n, t)
        y = y.reshape(*y.shape[:-1], n, t)
        dist = MultitaskMultivariateNormal(mean, cov, interleaved=c["il"])
    else:
        raise ValueError(fam)
    if c.get("with_param"):
        # a positional "train inputs" argument: only its shape (.., n, d) is used
        params = (torch.zeros(*c["db"], c["n"], 2),)
    lik.eval()
    return lik, dist, y, kwargs, params


class _GP(gpytorch.models.ExactGP):
    def __init__(self, x, y, lik):
        super().__init__(x, y, lik)
        self.mean_module, self.covar_module = gpytorch.means.ZeroMean(), gpytorch.kernels.RBFKernel()

    def forward(self, x):
        return MultivariateNormal(self.mean_module(x), self.covar_module(x))


def fantasy_base(c):
    if c["base"] == "gauss":
        lik = GaussianLikelihood()
        lik.noise = T(c["noise"])
    else:
        lik = FixedNoiseGaussianLikelihood(T(c["stored"]), learn_additional_noise=c["learn"])
        if c["learn"]:
            lik.second_noise = T(c["second"])
    return lik


def fantasy_likelihood(c, keep=None):
    """the likelihood after the configured get_fantasy_likelihood steps; keep (a list) receives the source likelihood"""
    lik = fantasy_base(c)
    if keep is not None:
        keep.append(lik)
    rng = random.Random(c["mseed"])
    pts = lambda k: T([[rng.randint(-40, 40) / 8.0] for _ in range(k)])  # noqa: E731
    if c["via_model"]:
        model = _GP(pts(c["n0"]), T([dy(rng) for _ in range(c["n0"])]), lik)
        model.eval(); lik.eval()
        with torch.no_grad():
            model(pts(2))
            for st in c["steps"]:
                kw = dict(noise=T(st["noise"])) if c["base"] == "fixed" else {}
                model = model.get_fantasy_model(pts(st["m"]), T([dy(rng) for _ in range(st["m"])]), **kw)
        return model.likelihood
    for st in c["steps"]:
        kw = dict(noise=T(st["noise"])) if c["base"] == "fixed" else {}
        lik = lik.get_fantasy_likelihood(**kw)
    return lik


def impl_run(c):
    lik, dist, y, kwargs, params = build(c)
    with torch.no_grad():
        marg = lik(dist, *params, **kwargs)
        added = marg.covariance_matrix - dist.covariance_matrix
        res = dict(added=added, mean_delta=float((marg.mean - dist.mean).abs().max()),
                   cls_same=type(marg) is type(dist))
        if c["fam"] == "fantasy":
            # the source likelihood still adds its own noise to a distribution over the old points
            keep = []
            fantasy_likelihood(c, keep)
            src = keep[0]
            src.eval()
            d0 = MultivariateNormal(torch.zeros(c["n0"]), torch.eye(c["n0"]))
            res["source_added"] = (src(d0).covariance_matrix - d0.covariance_matrix)
        if is_mismatch(c):
            # documented no-op for the fixed part; only the marginal is meaningful (R may be 0)
            return res
        if c["fam"] == "multi":
            res["layout_same"] = marg._interleaved == dist._interleaved
            elp = lik.expected_log_prob(y, dist)
            lm = lik.log_marginal(y, dist)
            cond = lik(dist.mean)
        else:
            elp = lik.expected_log_prob(y, dist, *params, **kwargs)
            lm = lik.log_marginal(y, dist, *params, **kwargs)
            cond = lik(dist.mean, *params, **kwargs)
        res.update(elp=elp, lm=lm, condvar=cond.variance, condmean_delta=float((cond.mean - dist.mean).abs().max()))
    return res


def is_mismatch(c):
    return c["fam"] == "fixed" and len(_last(c["stored"])) != c["n"]


def params_public(c, lik):
    """likelihood parameters as the public properties report them (floats -> exact rationals)"""
    with torch.no_grad():
        if c["fam"] == "gauss":
            return dict(noise=lik.noise)
        if c["fam"] == "fantasy":
            # parameters of the SOURCE likelihood (the fantasy likelihood's stored noise is what is being checked)
            src = fantasy_base(c)
            if c["base"] == "gauss":
                return dict(noise=src.noise)
            d = dict(old=src.noise_covar.noise)
            if c["learn"]:
                d["second"] = src.second_noise
            return d
        if c["fam"] == "fixed":
            d = dict(stored=lik.noise_covar.noise)
            if c["learn"]:
                d["second"] = lik.second_noise
            return d
        d = {}
        if c["hg"]:
            d["noise"] = lik.noise
        if c["ht"] and c["rank"] == 0:
            d["task_noises"] = lik.task_noises
        if c["ht"] and c["rank"] > 0:
            d["F"] = lik.task_noise_covar_factor.detach()
        return d


def bsel(x, bshape, B, b, ev):
    """element b of tensor x (batch shape bshape, `ev` trailing event dims) broadcast to batch B"""
    x = x.expand(*B, *x.shape[len(x.shape) - ev:]) if len(B) else x.reshape(x.shape[len(x.shape) - ev:])
    return x[tuple(b)] if len(B) else x


def opt_q(x):
    return "None" if x is None else "(Some %s)" % C.qc_lit(x)


def coq_cfg(c, pub, B, b, N, call=None):
    fam = c["fam"]
    if fam == "gauss":
        return "(LHomo %s)" % C.qc_lit(bsel(pub["noise"], c["lb"], B, b, 1)[0].item())
    if fam == "fantasy":
        if c["base"] == "gauss":
            return "(LHomo %s)" % C.qc_lit(pub["noise"].reshape(-1)[0].item())
        news = [bsel(T(st["noise"]), c["fb"], B, b, 1).tolist() for st in c["steps"]]
        second = pub["second"].reshape(-1)[0].item() if c["learn"] else None
        return "(LFantasy %s [%s] %s)" % (C.qc_vec(pub["old"].tolist()), "; ".join(C.qc_vec(v) for v in news), opt_q(second))
    if fam == "fixed":
        if c["call"] is None and not is_mismatch(c):
            stored = bsel(pub["stored"], c["nb"], B, b, 1).tolist()
        else:       # not used by this call (replaced by the call-time noise / size mismatch)
            stored = pub["stored"].reshape(-1, pub["stored"].shape[-1])[0].tolist()
        second = bsel(pub["second"], c["lb"], B, b, 1)[0].item() if c["learn"] else None
        if call is None and c["call"] is not None:
            call = bsel(T(c["call"]), c["cb"], B, b, 1).tolist()
        return "(LFixed %s %s %s)" % (C.qc_vec(stored), "None" if call is None else "(Some %s)" % C.qc_vec(call),
                                      opt_q(second))
    t, r = c["t"], c["rank"]
    glob = bsel(pub["noise"], c["lb"], B, b, 1)[0].item() if c["hg"] else None
    d = bsel(pub["task_noises"], c["lb"], B, b, 1).tolist() if "task_noises" in pub else []
    F = bsel(pub["F"], c["lb"], B, b, 2).tolist() if "F" in pub else []
    return "(LMulti %d%%nat %d%%nat %s %s %s %s %s)" % (
        t, r, "true" if c["ht"] else "false", "true" if c["il"] else "false", C.qc_vec(d), C.qc_mat(F), opt_q(glob))


def flat_event(c, x):
    """event-shaped tensor of one batch element -> list in the flat order of the covariance"""
    if c["fam"] == "multi":
        return (x if c["il"] else x.transpose(-1, -2)).reshape(-1).tolist()
    return x.tolist()


def case_batch(c):
    """batch shape of the result: broadcast of the batch shapes of everything that is USED"""
    shapes = [c["db"]]
    if c["fam"] == "fantasy":
        shapes.append(c["fb"])
    elif c["fam"] == "fixed":
        if c["learn"]:
            shapes.append(c["lb"])
        if c["call"] is not None:
            shapes.append(c["cb"])
        elif not is_mismatch(c):
            shapes.append(c["nb"])
    else:
        shapes.append(c["lb"])
    return broadcastable(*shapes)


def model_terms(c):
    """one Coq case per element of the broadcast batch"""
    lik, dist, y, kwargs, params = build(c)
    pub = params_public(c, lik)
    B = case_batch(c)
    N = c["n"] * c.get("t", 1)
    ev = 2 if c["fam"] == "multi" else 1
    with torch.no_grad():
        var = dist.covariance_matrix.diagonal(dim1=-1, dim2=-2)
    terms, idx = [], []
    for b in itertools.product(*[range(k) for k in B]):
        yb = flat_event(c, bsel(y, c["db"], B, b, ev))
        mb = flat_event(c, bsel(dist.mean, c["db"], B, b, ev))
        vb = bsel(var, c["db"], B, b, 1).tolist()
        terms.append("(single (%d%%nat, %s, %s, %s, %s))" % (N, coq_cfg(c, pub, B, b, N), C.qc_vec(yb), C.qc_vec(mb),
                                                           C.qc_vec(vb)))
        idx.append(b)
    return terms, idx, B


def list_build(c):
    liks, dists, ys = [], [], []
    for m in c["members"]:
        lik, dist, y, _, _ = build(m)
        liks.append(lik); dists.append(dist); ys.append(y)
    ll = LikelihoodList(*liks)
    ll.eval()
    return ll, liks, dists, ys


def list_model_term(c):
    ll, liks, dists, ys = list_build(c)
    cfgs = []
    for m, lik in zip(c["members"], liks):
        cfgs.append(coq_cfg(m, params_public(m, lik), [], (), m["n"]))
    nz = "None" if c["noises"] is None else "(Some [%s])" % "; ".join(C.qc_vec(n) for n in c["noises"])
    return "(lst ([%s], %s, %s))" % ("; ".join(cfgs), C.nat_list([m["n"] for m in c["members"]]), nz)


# ------------------------------------------------------------------------------- comparison

def describe(c):
    if c["fam"] == "list":
        return dict(fam="list", members=[describe(m) for m in c["members"]], with_noise=c["noises"] is not None)
    d = {k: c[k] for k in ("fam", "n", "t", "rank", "hg", "ht", "il", "lb", "db", "nb", "cb", "learn", "with_param",
                           "base", "n0", "fb", "via_model") if k in c}
    if c["fam"] == "fantasy":
        d["steps"] = [st["m"] for st in c["steps"]]
    if c["fam"] == "fixed":
        d["call_noise"] = c["call"] is not None
        d["size_mismatch"] = is_mismatch(c)
    return d


def _last(x):
    while isinstance(x[0], list):
        x = x[0]
    return x


def key_of(c):
    if c["fam"] == "gauss":
        return "gaussian"
    if c["fam"] == "fantasy":
        return "fantasy:%s%s:%s" % ("gaussian" if c["base"] == "gauss" else "fixednoise", "+learned" if c["learn"] else "",
                                    "get_fantasy_model" if c["via_model"] else "get_fantasy_likelihood")
    if c["fam"] == "fixed":
        return "fixednoise:%s%s" % ("call-noise" if c["call"] is not None else "stored-noise",
                                    "+learned" if c["learn"] else "")
    return "multitask:%s:%s:%s" % ("interleaved" if c["il"] else "noninterleaved",
                                   "rank0" if c["rank"] == 0 else "rankr",
                                   ("global" if c["hg"] else "") + ("+task" if c["ht"] else ""))


def close(a, b):
    return C.close(a, b, ATOL, RTOL)


def compare_single(out, c, res, results, idx, B):
    """results: model output (list of ints) per batch element"""
    N = c["n"] * c.get("t", 1)
    key = key_of(c)
    desc = dict(cfg=c)
    multi = c["fam"] == "multi"
    ok = True
    if list(res["added"].shape) != B + [N, N]:
        out.fail(key + ":shape", "marginal covariance has shape %s, expected %s" % (list(res["added"].shape), B + [N, N]),
                 desc)
        return False
    if res["mean_delta"] != 0.0 or not res["cls_same"] or (multi and not res["layout_same"]):
        out.fail(key + ":mean", "marginal changed the mean / class / layout of the input distribution", desc)
        ok = False
    if not is_mismatch(c):
        ev = [c["n"], c["t"]] if multi else [N]
        for name, x, want in (("conditional", res["condvar"], B + ev), ("expected_log_prob", res["elp"], B + [c["n"]]),
                              ("log_marginal", res["lm"], B + [c["n"]])):
            if list(x.shape) != want:
                out.fail(key + ":" + name + ":shape", "%s has shape %s, expected %s" % (name, list(x.shape), want), desc)
                return False
    if "source_added" in res:
        n0 = c["n0"]
        want = torch.diag(T(c["stored"]) + (T(c["second"]) if c["learn"] else 0.0)) if c["base"] == "fixed" else \
            torch.eye(n0) * T(c["noise"])
        sa = res["source_added"]
        if list(sa.shape) != [n0, n0] or not all(close(sa[i, j].item(), want[i, j].item()) for i in range(n0) for j in range(n0)):
            out.fail(key + ":source", "after get_fantasy_likelihood the SOURCE likelihood no longer adds its own noise", desc,
                     impl=sa.tolist(), model=want.tolist())
            ok = False
    for b, r in zip(idx, results):
        rd = C.Reader(r)
        R = rd.qmat(N, N)
        add = res["added"][tuple(b)] if B else res["added"]
        bad = [(i, j) for i in range(N) for j in range(N) if not close(add[i, j].item(), R[i][j])]
        if bad:
            out.fail(key + ":marginal", "likelihood(dist) adds %s at %s, the documented noise operator has %s"
                     % (add[bad[0]].item(), bad[0], float(R[bad[0][0]][bad[0][1]])), dict(cfg=c, batch_index=list(b)),
                     impl=add.tolist(), model=[[float(v) for v in row] for row in R])
            ok = False
        if is_mismatch(c):
            continue
        elp_m, lm_m = [], []
        for _ in range(N):
            elp_m.append(rd.expr()); lm_m.append(rd.expr())
        # conditional p(y|f): independent normals with variance diag R (event shaped)
        cv = res["condvar"][tuple(b)] if B else res["condvar"]
        cvf = cv.reshape(-1).tolist()       # forward() lays the diagonal out as (n, t): interleaved order
        diagR = [float(R[i][i]) for i in range(N)]
        if multi and not c["il"]:
            n, t = c["n"], c["t"]
            diagR = [diagR[a * n + i] for i in range(n) for a in range(t)]
        if len(cvf) != N or any(not close(x, v) for x, v in zip(cvf, diagR)) or res["condmean_delta"] != 0.0:
            out.fail(key + ":conditional", "likelihood(f) is not N(f, diag R)", dict(cfg=c, batch_index=list(b)),
                     impl=cvf, model=diagR)
            ok = False
        # elementwise closed forms; the multitask likelihoods sum over the task dimension
        for name, got, mod in (("expected_log_prob", res["elp"], elp_m), ("log_marginal", res["lm"], lm_m)):
            g = (got[tuple(b)] if B else got).tolist()
            if multi:
                n, t = c["n"], c["t"]
                flat = (lambda i, a: i * t + a) if c["il"] else (lambda i, a: a * n + i)
                want = [mpmath.fsum(mod[flat(i, a)] for a in range(t)) for i in range(n)]
            else:
                want = mod
            if len(g) != len(want) or any(not close(x, w) for x, w in zip(g, want)):
                out.fail(key + ":" + name, "%s differs from the closed form" % name, dict(cfg=c, batch_index=list(b)),
                         impl=g, model=[float(w) for w in want])
                ok = False
    return ok


def run_list_impl(c):
    ll, liks, dists, ys = list_build(c)
    kw = {} if c["noises"] is None else dict(noise=[T(n) for n in c["noises"]])
    with torch.no_grad():
        margs = ll(*dists, **kw)
        added = [(m.covariance_matrix - d.covariance_matrix).tolist() for m, d in zip(margs, dists)]
        conds = ll.forward(*[d.mean for d in dists], **kw) if c["noises"] is not None else \
            ll(*[d.mean for d in dists])
        condvar = [cd.variance.tolist() for cd in conds]
        elp = None
        if c["noises"] is None:
            e = ll.expected_log_prob(*[(y, d) for y, d in zip(ys, dists)])
            single = [lk.expected_log_prob(y, d) for lk, y, d in zip(liks, ys, dists)]
            elp = (([x.tolist() for x in e]), [x.tolist() for x in single])
    return dict(added=added, condvar=condvar, elp=elp)


def compare_list(out, c, res, r):
    key = "likelihoodlist:" + ("noise-kwarg" if c["noises"] is not None else "plain")
    rd = C.Reader(r)
    if rd.int() != 1:
        out.fail(key + ":model", "model rejected a well-formed LikelihoodList call", dict(cfg=c))
        return
    k = rd.int()
    ok = k == len(res["added"])
    Rs = []
    for _ in range(k):
        N = rd.int()
        Rs.append(rd.qmat(N, N))
    for mi, (R, add, cv) in enumerate(zip(Rs, res["added"], res["condvar"])):
        N = len(R)
        if len(add) != N or any(not close(add[i][j], R[i][j]) for i in range(N) for j in range(N)):
            ok = False
        if len(cv) != N or any(not close(cv[i], R[i][i]) for i in range(N)):
            ok = False
    if res["elp"] is not None and res["elp"][0] != res["elp"][1]:
        ok = False
    if not ok:
        out.fail(key + ":routing", "LikelihoodList did not apply member k to argument k (with noise k)", dict(cfg=c),
                 impl=dict(added=res["added"], condvar=res["condvar"]),
                 model=[[[float(v) for v in row] for row in R] for R in Rs])


def evaluate(out, cfgs, tag, count=True):
    terms, spans, kept = [], [], []
    for c in cfgs:
        # building the likelihood / distribution already runs implementation code: never crash on it
        try:
            if c["fam"] == "list":
                t, idx, B = [list_model_term(c)], None, None
            else:
                t, idx, B = model_terms(c)
        except Exception as e:
            k0 = ("likelihoodlist:" + ("noise-kwarg" if c["noises"] is not None else "plain")) if c["fam"] == "list" else key_of(c)
            out.case(describe(c), True, label="construction-failed")
            out.fail("%s:construction-exception:%s" % (k0, type(e).__name__),
                     "constructing the likelihood / distribution raised %s: %s" % (type(e).__name__, str(e)[:200]), dict(cfg=c))
            continue
        spans.append((len(terms), len(t), idx, B))
        terms += t
        kept.append(c)
    cfgs = kept
    results = C.coq_run_cases(tag, IMPORTS, RUN_DEF, terms, shard=max(8, (len(terms) + 15) // 16))
    for c, (s, k, idx, B) in zip(cfgs, spans):
        fam = c["fam"]
        if count:
            d = describe(c)
            nontrivial = fam == "list" or (c["n"] * c.get("t", 1) >= 2)
            out.case(d, nontrivial, label="family=" + (key_of(c) if fam != "list" else
                                                       "likelihoodlist:" + ("noise" if c["noises"] else "plain")))
            if fam != "list":
                out.count("batch lik=%s dist=%s" % (c["lb"], c["db"]))
        try:
            res = run_list_impl(c) if fam == "list" else impl_run(c)
        except Exception as e:
            k0 = ("likelihoodlist:" + ("noise-kwarg" if c["noises"] is not None else "plain")) if fam == "list" else key_of(c)
            out.fail("%s:impl-exception:%s" % (k0, type(e).__name__),
                     "implementation raised %s: %s on a configuration the property covers" % (type(e).__name__, str(e)[:200]),
                     dict(cfg=c))
            continue
        if fam == "list":
            compare_list(out, c, res, results[s])
        else:
            compare_single(out, c, res, results[s:s + k], idx, B)


def run(out, ctx):
    tier, seed = ctx["tier"], ctx["seed"]
    rng = random.Random(seed * 104729 + 12)
    torch.manual_seed(seed)
    cfgs = gen_configs(rng, tier)
    out.rule = ("configuration grid {FixedNoise: learn_additional_noise x call-time noise; Multitask: t 1..4 x rank 0..t x "
                "(global,task) switches x layout} plus random Gaussian / FixedNoise / Multitask / LikelihoodList cases; plus fantasy likelihoods (Gaussian, "
                "FixedNoise with / without learned noise; 1..3 get_fantasy_likelihood(noise=new) steps of 1..2 points, called "
                "directly or through ExactGP.get_fantasy_model, new-noise batch [] / [2]) applied to a distribution over the "
                "old points followed by the appended points: the model stores [old; new_1; ...; new_k]; "
                "event sizes 1..4 (n*t <= 16), likelihood / stored-noise / call-noise / distribution batch shapes of rank "
                "0..2 drawn from %s (any broadcastable combination, multitask included); every element of the broadcast batch is compared; "
                "non-trivial = flattened event size >= 2" % BATCHES)
    out.extra["tolerances"] = {"all": "1e-9 abs + 1e-9 rel"}
    evaluate(out, cfgs, "C12")
    out.tested_not_proved = ["torch broadcasting of batch shapes (the model is per batch element; see C08)",
                             "float64 rounding of softplus / log / F F^T in the implementation"]


def replay(path):
    d = json.load(open(path))
    c = d["case"]["cfg"]
    out = C.Outcome("C12", "quick", 0)
    evaluate(out, [c], "C12_replay", count=False)
    for f in out.failures:
        print(f["key"], "-", f["what"])
        print("  impl :", C.jsonable(f.get("impl")))
        print("  model:", C.jsonable(f.get("model")))
    print("FAILS" if out.failures else "agrees")
    return 1 if out.failures else 0
