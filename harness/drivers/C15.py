"""C15 — variational objectives equal their definition; the ELBO is a lower bound.
Tie C: the implementation supplies its own prior pieces (K and mean on [Z; X_batch]), the raw
parameters of q(u), the noise and the targets as exact rationals; the Coq model
(Models/C15_elbo.v on top of the C14 q(f)/KL model and the C02 dense log N, vm_compute over Qc,
logs as Expr terms evaluated with mpmath) computes
  VariationalELBO = (1/B) sum_i E_q(f_i) log p(y_i|f_i) - (beta/N) KL + (1/N) log priors - added,
  PredictiveLogLikelihood (log N(y_i; mu_i, v_i + s2) instead of the expectation),
and for full batches N*ELBO(q), the exact log marginal likelihood, the collapsed (Titsias) bound
and the optimal q*(u).  Compared with mll(model(x_batch), y_batch) in training mode.
Bound statements, the NGD fixed point and gradients are labelled TESTS evaluated on the real code."""
import itertools
import json
import math
import random

import mpmath as mp
import numpy as np
import torch

import gpytorch
from gpytorch import settings as gs
from gpytorch import variational as V
from harness.drivers.C02 import prior_logpdf, make_prior, gen_prior, CLOSURE_T, CLOSURE_M, ConstLoss
from harness.lib import common as C

COQ_TARGETS = ["Models/C15_elbo.vo", "Models/C02_priors.vo"]
LEVEL_NOTE = ("theorems are about the Gallina model; tie to /repo is differential (public outputs, float64 vs exact "
              "rationals + mpmath); the lower bound for all q, the NGD fixed point and gradients are tested, not proved")
IMPORTS = ("From Coq Require Import List ZArith QArith Qcanon.\n"
           "From GPV Require Import Base.LinAlg Base.Exec Base.Expr Models.C14_variational Models.C02_mll Models.C02_priors Models.C15_elbo.")
RUN_DEF = ("Inductive ccase := CE (c : elbo_case) | CB (c : nat * nat * list (list Qc) * list Qc * (Qc * Qc) * nat * list Qc"
           " * list (list Qc) * list Qc * list Qc) | CEA (c : elbo_case) (t : mtree) (vals : list (nat * Qc))"
           " | CNA (t : mtree) | CNP (t : mtree) | CMT (c : mt_case).\n"
           "Definition run (c : ccase) : list Z := match c with CE x => run_elbo x | CB x => run_bound x"
           " | CEA x t v => run_elbo (elbo_with_added x nil (added_values t v)) | CNA t => run_named_added t | CNP t => run_named t"
           " | CMT x => run_mt_elbo x end.")

torch.set_default_dtype(torch.float64)


# --------------------------------------------------------------------------- SVGP construction helpers
# (copied from the C14 driver so that this check does not depend on another property's file)

class _H:
    """namespace of the helpers below (kept under the name D14 used throughout this file)"""


KBITS = 16                 # kernel matrices are rounded to a 2^-16 grid (see DyadicKernel), except in the gradient family
JIT_DY = 2.0 ** -20        # explicit jitter_val (a dyadic close to the 1e-6 default)
DISTS14 = ["cholesky", "meanfield", "delta", "natural", "trilnatural"]
KIND = {d: i for i, d in enumerate(DISTS14)}
MEANS = ["zero", "constant", "linear"]


class DyadicKernel(gpytorch.kernels.Kernel):
    """k(x, x') rounded entrywise to a 2^-KBITS grid.  The strategies are generic in the kernel; rounding keeps
    the exact-rational model cheap (operands of ~100 instead of ~1000 bits) so that many more configurations
    fit in the budget.  Raw kernels are used in the `raw` cases."""

    def __init__(self, base):
        super().__init__()
        self.base_kernel = base

    @property
    def batch_shape(self):
        return self.base_kernel.batch_shape

    def forward(self, x1, x2, diag=False, **params):
        from linear_operator import to_dense
        k = to_dense(self.base_kernel.forward(x1, x2, diag=diag, **params))
        return torch.round(k * 2.0 ** KBITS) / 2.0 ** KBITS


def dy(rng, lo, hi, den=16):
    """a dyadic rational k/den in [lo, hi]"""
    return rng.randint(int(np.ceil(lo * den)), int(np.floor(hi * den))) / den


def make_kernel(name, d, bs, rng):
    k = gpytorch.kernels
    bsz = torch.Size(bs)

    def draw(lo, hi, shape=()):
        return torch.tensor(np.array([rng.uniform(lo, hi) for _ in range(int(np.prod(bs + list(shape)) or 1))])
                            .reshape(bs + list(shape))) if (bs or shape) else rng.uniform(lo, hi)

    def ls():
        return draw(0.5, 1.2, (1, 1)) if bs else rng.uniform(0.5, 1.2)
    if name == "rbf":
        m = k.RBFKernel(batch_shape=bsz); m.lengthscale = ls()
    elif name == "matern25":
        m = k.MaternKernel(nu=2.5, batch_shape=bsz); m.lengthscale = ls()
    elif name == "scale_rbf":
        m = k.ScaleKernel(k.RBFKernel(batch_shape=bsz), batch_shape=bsz)
        m.base_kernel.lengthscale = ls(); m.outputscale = draw(0.5, 2.5)
    else:
        a = k.RBFKernel(batch_shape=bsz); a.lengthscale = ls()
        b = k.LinearKernel(batch_shape=bsz); b.variance = draw(0.2, 1.0, (1, 1)) if bs else rng.uniform(0.2, 1.0)
        m = a + b
    return m


def make_mean(name, d, bs, rng):
    bsz = torch.Size(bs)
    if name == "zero":
        return gpytorch.means.ZeroMean(batch_shape=bsz)
    if name == "constant":
        m = gpytorch.means.ConstantMean(batch_shape=bsz)
        # never exactly 0: positive-support priors are placed on constant**2 (log density undefined at 0)
        m.constant.data.copy_(torch.tensor([dy(rng, 0.125, 1.5, 8) * rng.choice([-1, 1]) for _ in range(int(np.prod(bs)) if bs else 1)])
                              .reshape(m.constant.shape))
        return m
    m = gpytorch.means.LinearMean(d, batch_shape=bsz)
    m.weights.data.copy_(torch.tensor([dy(rng, -1, 1, 8) for _ in range(m.weights.numel())]).reshape(m.weights.shape))
    m.bias.data.copy_(torch.tensor([dy(rng, -1, 1, 8) for _ in range(m.bias.numel())]).reshape(m.bias.shape))
    return m


def make_dist(name, m, bs):
    cls = {"cholesky": V.CholeskyVariationalDistribution, "meanfield": V.MeanFieldVariationalDistribution,
           "delta": V.DeltaVariationalDistribution, "natural": V.NaturalVariationalDistribution,
           "trilnatural": V.TrilNaturalVariationalDistribution}[name]
    return cls(m, batch_shape=torch.Size(bs))


def rand_spd(m, rng):
    """a well conditioned SPD matrix with dyadic entries: B B^T + D"""
    a = np.array([[dy(rng, -0.5, 0.5, 8) for _ in range(m)] for _ in range(m)])
    return a @ a.T + np.diag([dy(rng, 0.5, 1.25, 8) for _ in range(m)])


def fill_dist(dist, name, m, bs, rng, mode="random"):
    """set the raw parameters (dyadic values, exactly representable on both sides)"""
    nb = int(np.prod(bs)) if bs else 1

    def vec():
        return [[dy(rng, -1, 1) for _ in range(m)] for _ in range(nb)]
    with torch.no_grad():
        if name == "cholesky":
            L = []
            for _ in range(nb):
                a = [[dy(rng, -0.625, 0.625) for _ in range(m)] for _ in range(m)]   # upper part is garbage
                for i in range(m):
                    a[i][i] = dy(rng, 0.4, 1.3) * (-1 if rng.random() < 0.15 else 1)
                L.append(a)
            dist.variational_mean.copy_(torch.tensor(vec()).reshape(dist.variational_mean.shape))
            dist.chol_variational_covar.copy_(torch.tensor(L).reshape(dist.chol_variational_covar.shape))
        elif name == "meanfield":
            s = [[dy(rng, 0.3, 1.5) * (-1 if rng.random() < 0.2 else 1) for _ in range(m)] for _ in range(nb)]
            dist.variational_mean.copy_(torch.tensor(vec()).reshape(dist.variational_mean.shape))
            dist._variational_stddev.copy_(torch.tensor(s).reshape(dist._variational_stddev.shape))
        elif name == "delta":
            dist.variational_mean.copy_(torch.tensor(vec()).reshape(dist.variational_mean.shape))
        elif name == "natural":
            P = [(-0.5 * rand_spd(m, rng)).tolist() for _ in range(nb)]
            dist.natural_vec.copy_(torch.tensor(vec()).reshape(dist.natural_vec.shape))
            dist.natural_mat.copy_(torch.tensor(P).reshape(dist.natural_mat.shape))
        else:
            T = []
            for _ in range(nb):
                # garbage above the diagonal with probability 1/2 (solve_triangular must ignore it)
                junk = rng.random() < 0.5
                a = [[dy(rng, -0.625, 0.625) if (j < i or junk) else 0.0 for j in range(m)] for i in range(m)]
                for i in range(m):
                    a[i][i] = dy(rng, 0.5, 1.5)
                T.append(a)
            dist.natural_vec.copy_(torch.tensor(vec()).reshape(dist.natural_vec.shape))
            dist.natural_tril_mat.copy_(torch.tensor(T).reshape(dist.natural_tril_mat.shape))


def set_dist_to(dist, name, mean, cov):
    """make q(u) = N(mean, cov) through the raw parameters (mean [.., m], cov [.., m, m] with the batch shape of the
    distribution); used by the optimal-q family.  Returns False if the class cannot represent it."""
    mean_t, cov_t = torch.as_tensor(mean), torch.as_tensor(cov)
    m = mean_t.shape[-1]
    col = mean_t.unsqueeze(-1)
    with torch.no_grad():
        if name == "cholesky":
            dist.variational_mean.copy_(mean_t); dist.chol_variational_covar.copy_(torch.linalg.cholesky(cov_t))
        elif name == "natural":
            P = torch.linalg.inv(cov_t)
            dist.natural_vec.copy_((P @ col).squeeze(-1)); dist.natural_mat.copy_(-0.5 * P)
        elif name == "trilnatural":
            Lc = torch.linalg.cholesky(cov_t)
            T = torch.linalg.solve_triangular(Lc, torch.eye(m).expand_as(Lc), upper=False)
            dist.natural_vec.copy_(torch.linalg.solve(cov_t, col).squeeze(-1)); dist.natural_tril_mat.copy_(T)
        elif name == "meanfield":
            dg = cov_t.diagonal(dim1=-2, dim2=-1)
            if (cov_t - torch.diag_embed(dg)).abs().max() > 0:
                return False
            dist.variational_mean.copy_(mean_t); dist._variational_stddev.copy_(dg.sqrt())
        else:
            return False
    return True


def dist_params(dist, name, bidx):
    """raw parameters of batch element bidx as (p1 list, P2 list of lists)"""
    def sel(t, ev):
        t = t.detach()
        lead = t.shape[:t.dim() - ev]
        if len(lead) == 0:
            return t
        return t.reshape(-1, *t.shape[t.dim() - ev:])[bidx % int(np.prod(lead))]
    m = dist.num_inducing_points
    if name == "cholesky":
        return sel(dist.variational_mean, 1).tolist(), sel(dist.chol_variational_covar, 2).tolist()
    if name == "meanfield":
        return sel(dist.variational_mean, 1).tolist(), [[v] for v in sel(dist._variational_stddev, 1).tolist()]
    if name == "delta":
        return sel(dist.variational_mean, 1).tolist(), [[0.0]]
    if name == "natural":
        return sel(dist.natural_vec, 1).tolist(), sel(dist.natural_mat, 2).tolist()
    return sel(dist.natural_vec, 1).tolist(), sel(dist.natural_tril_mat, 2).tolist()


def mark_initialized(strategy):
    s = strategy
    while s is not None:
        v = getattr(s, "variational_params_initialized", None)
        if isinstance(v, torch.Tensor):
            v.fill_(1)
        s = getattr(s, "base_variational_strategy", None)


def points(rng, k, d, lo=-36, hi=36, sep=0.5):
    for _ in range(500):
        pts = [[rng.randint(lo, hi) / 8.0 for _ in range(d)] for _ in range(k)]
        if all(max(abs(a - b) for a, b in zip(p, q)) >= sep for p, q in itertools.combinations(pts, 2)):
            return pts
    return pts


for _n in ("DyadicKernel", "dy", "make_kernel", "make_mean", "make_dist", "rand_spd", "fill_dist", "set_dist_to", "dist_params", "mark_initialized", "points"):
    setattr(_H, _n, staticmethod(globals()[_n]) if not isinstance(globals()[_n], type) else globals()[_n])
_H.KIND, _H.MEANS, _H.JIT_DY = KIND, MEANS, JIT_DY
D14 = _H
mp.mp.dps = 40
TOL = 1e-8
JIT = 2.0 ** -20
STRATS = ["vs", "unwh"]
DISTS = ["cholesky", "meanfield", "natural", "trilnatural", "delta"]
KERNELS = ["rbf", "matern25", "scale_rbf", "rbf+linear"]
GRAD_H, GRAD_RTOL, GRAD_ATOL = 1e-4, 1e-5, 1e-7


def innermost_kernel(kern):
    """the kernel that owns the lengthscale: below DyadicKernel / ScaleKernel wrappers"""
    while hasattr(kern, "base_kernel"):
        kern = kern.base_kernel
    return kern


class SVGP(gpytorch.models.ApproximateGP):
    """added = [(where, value)]: added-loss terms registered on the model, on the (outer) kernel or on the INNER kernel
    (`shared`).  shared_handle: the model keeps a second handle to the inner kernel (model.base_kernel next to
    model.covar_module....base_kernel, the pattern of gpytorch's SGPR / deep-kernel examples), so that this module - with its
    priors and added-loss terms - is reachable from the model along two paths."""

    def __init__(self, make_strategy, mean, kern, added=(), shared_handle=False):
        super().__init__(make_strategy(self))
        self.mean_module, self.covar_module = mean, kern
        if shared_handle:
            self.base_kernel = innermost_kernel(kern)
        self._added = list(added)
        self._verif_terms = {}          # the harness' own record: registration index -> (module, name, current term object)
        for i, (where, _) in enumerate(self._added):
            self._site(where).register_added_loss_term("verif_loss_%d" % i)

    def _site(self, where):
        return self if where == "model" else innermost_kernel(self.covar_module) if where == "shared" else self.covar_module

    def forward(self, x):
        for i, (where, val) in enumerate(self._added):
            term = ConstLoss(torch.tensor(val))
            self._site(where).update_added_loss_term("verif_loss_%d" % i, term)
            self._verif_terms[i] = (self._site(where), "verif_loss_%d" % i, term)
        return gpytorch.distributions.MultivariateNormal(self.mean_module(x), self.covar_module(x))


def dyv(rng, lo, hi, den=8):
    return rng.randint(int(math.ceil(lo * den)), int(math.floor(hi * den))) / den


BPATS = ["model", "params", "x", "both"]


def gen_case(rng, tier, family, batched=False):
    """batched=True: a batch of sparse GPs in one model.  bshape = the batch shape, bpat = which parts carry it:
    model = kernel, mean, inducing points and q(u) (shared inputs); params = q(u) only (shared prior, one data set per
    element); x = the inputs only (one q(u), evaluated on several data sets); both = everything.  The Gaussian
    likelihood has its own batch shape (lbatch) or is shared; targets always carry the full batch shape."""
    c = _gen_case(rng, tier, family)
    if batched:
        c.update(bshape=rng.choice([[2], [2], [3], [2, 2]] if tier != "quick" else [[2], [2], [3]]),
                 bpat=rng.choice(BPATS if family == "objective" else ["model", "params", "both"]), lbatch=rng.random() < 0.5)
        if family == "bound":
            c["dist"] = rng.choice(["cholesky", "natural", "natural", "trilnatural", "meanfield"])
    return c


def _gen_case(rng, tier, family):
    big = tier != "quick"
    m = rng.choice([2, 2, 3, 3, 4] if not big else [2, 3, 3, 4, 4, 5])
    ntot = rng.randint(3, 6 if not big else 8)
    c = dict(family=family, strat=rng.choice(STRATS), dist=rng.choice(DISTS), m=m, ntot=ntot, d=rng.randint(1, 2),
             kernel=rng.choice(KERNELS), mean=rng.choice(MEANS), hseed=rng.randint(0, 10 ** 9), raw=False,
             lik=rng.choice(["gaussian", "gaussian", "gaussian", "fixed"]))
    if family == "objective":
        B = rng.randint(1, min(4, ntot))
        c.update(batch=sorted(rng.sample(range(ntot), B)), beta=rng.choice([0.1, 0.5, 1.0, 1.0, 2.0]),
                 num_data=rng.choice([B, ntot, ntot, ntot + 3, 10, 100]),
                 priors=gen_priors(rng), added=[dict(where=rng.choice(["model", "kernel", "shared"]), value=rng.randint(-40, 40) / 16.0)
                                                 for _ in range(rng.choice([0, 0, 1, 2]))])
        # a sub-module reachable under two names (second handle to the inner kernel): its priors and added-loss terms
        # must enter every objective once
        c["shared_handle"] = rng.random() < 0.35
        if c["shared_handle"]:
            if not any(a["where"] == "shared" for a in c["added"]):
                c["added"].append(dict(where="shared", value=rng.randint(4, 40) / 16.0))
            if not any(p["target"] == "lengthscale" for p in c["priors"]) and rng.random() < 0.7:
                c["priors"].append(dict(target="lengthscale", spec=gen_prior(rng), closure="id"))
    elif family == "bound":
        ntot = rng.randint(2, 4 if not big else 6)
        c.update(ntot=ntot, batch=list(range(ntot)), beta=1.0, num_data=ntot, priors=[], added=[], lik="gaussian",
                 dist=rng.choice(["cholesky", "natural", "meanfield", "trilnatural"]), m=rng.choice([2, 2, 3] if not big else [2, 3, 4]),
                 far=rng.random() < 0.3)
    elif family == "grad":
        ntot = rng.randint(2, 3)
        c.update(ntot=ntot, m=2, batch=list(range(ntot)), beta=rng.choice([0.5, 1.0]), num_data=rng.choice([ntot, 10]),
                 priors=gen_priors(rng), added=[], lik="gaussian", raw=True, dist=rng.choice(["cholesky", "meanfield"]),
                 kernel=rng.choice(["rbf", "matern25", "scale_rbf"]))
    return c


def gen_multi(rng, tier):
    """multi-output variational models: T tasks from L latent sparse GPs (one batched SVGP, batch shape [L]) through
    IndependentMultitaskVariationalStrategy (L = T) or LMCVariationalStrategy (any L) with a MultitaskGaussianLikelihood
    (rank 0 / 1, with / without global and task noise); targets B x T with B != T in most cases"""
    c = _gen_case(rng, tier, "objective")
    T = rng.choice([2, 3])
    kind = rng.choice(["indep", "lmc"])
    L = T if kind == "indep" else rng.choice([1, 2, 3])
    ntot = rng.choice([4, 4, 6, 6, 3, 5] if tier == "quick" else [4, 6, 6, 8, 3, 5, 9])
    Bs = [k for k in range(1, min(4, ntot) + 1) if k != T]
    B = rng.choice(Bs + [T])                     # (B == T now and then: the coincidence must work as well)
    glob, task = rng.choice([(True, True), (True, True), (True, False), (False, True)])
    c.update(family="multi", multi=dict(kind=kind, T=T, L=L, rank=rng.choice([0, 0, 1]) if task else 0, glob=glob, task=task),
             bshape=[L], bpat="model", lbatch=False, lik="multitask", ntot=ntot, m=rng.choice([2, 2, 3]),
             kernel=rng.choice(["rbf", "matern25", "scale_rbf"]), mean=rng.choice(["zero", "constant"]),
             batch=sorted(rng.sample(range(ntot), B)), num_data=rng.choice([B, ntot, ntot, ntot + 3, 10, 100]),
             added=[], shared_handle=False, dist=rng.choice(["cholesky", "cholesky", "meanfield", "natural", "trilnatural", "delta"]),
             priors=[p for p in c["priors"] if p["target"] in ("lengthscale", "outputscale", "constant")])
    return c


def gen_priors(rng):
    out = []
    if rng.random() < 0.3:
        return out
    for target in ("lengthscale", "outputscale", "noise", "constant"):
        if rng.random() < 0.5:
            spec = gen_prior(rng)
            closure = rng.choice(["id", "log", "square"])
            if target in ("outputscale", "constant") and spec["kind"] == "smoothedbox":
                spec = dict(kind="gamma", a=rng.randint(8, 32) / 8.0, b=rng.randint(4, 32) / 8.0)
            if target == "constant":
                closure = "square" if spec["kind"] != "normal" else rng.choice(["id", "square"])
            elif closure == "log":
                spec = dict(kind="normal", a=rng.randint(-8, 8) / 8.0, b=rng.randint(4, 16) / 8.0)
            out.append(dict(target=target, spec=spec, closure=closure))
    return out


class Built:
    pass


def prior_targets(b):
    t = {}
    kern = b.model.covar_module
    if isinstance(kern, D14.DyadicKernel):
        kern = kern.base_kernel
    kn = b.case["kernel"]
    if kn in ("rbf", "matern25"):
        t["lengthscale"] = (kern, "lengthscale")
    elif kn == "scale_rbf":
        t["lengthscale"] = (kern.base_kernel, "lengthscale"); t["outputscale"] = (kern, "outputscale")
    else:
        t["lengthscale"] = (kern.kernels[0], "lengthscale")
    if b.case["lik"] == "gaussian":
        t["noise"] = (b.lik.noise_covar, "noise")
    if b.case["mean"] == "constant":
        t["constant"] = (b.model.mean_module, "constant")
    return t


def nb_of(shape):
    return int(np.prod(shape)) if len(shape) else 1


def build(case):
    rng = random.Random(case["hseed"])
    torch.manual_seed(case["hseed"] % (2 ** 31))
    b = Built(); b.case = case
    m, ntot, d = case["m"], case["ntot"], case["d"]
    bs = list(case.get("bshape", [])); bp = case.get("bpat", "none") if bs else "none"
    mb = bs if bp in ("model", "both") else []             # batch shape of kernel / mean / inducing points
    pb = bs if bp in ("model", "both", "params") else []   # ... of the variational parameters
    xb = bs if bp in ("x", "both") else []                 # ... of the inputs
    lb = bs if case.get("lbatch") else []                  # ... of the likelihood
    b.bs, b.pb, b.nb = bs, pb, nb_of(bs)
    kern = D14.make_kernel(case["kernel"], d, mb, rng)
    if not case.get("raw"):
        kern = D14.DyadicKernel(kern)
    mean = D14.make_mean(case["mean"], d, mb, rng)
    pts = D14.points(rng, m + ntot, d)
    Z = torch.tensor(pts[:m]); b.Xall = torch.tensor(pts[m:])
    if mb:
        Z = torch.stack([Z + 0.125 * k for k in range(nb_of(mb))]).reshape(*mb, m, d)
    if xb:
        b.Xall = torch.stack([b.Xall + 0.0625 * k for k in range(nb_of(xb))]).reshape(*xb, ntot, d)
    multi = case.get("multi")
    if multi:
        T = multi["T"]
        b.yall = torch.tensor([dyv(rng, -2, 2) for _ in range(ntot * T)]).reshape(ntot, T)
        b.lik = gpytorch.likelihoods.MultitaskGaussianLikelihood(num_tasks=T, rank=multi["rank"], has_global_noise=multi["glob"],
                                                                 has_task_noise=multi["task"])
        if multi["glob"]:
            b.lik.noise = rng.uniform(0.05, 0.6)
        if multi["task"] and multi["rank"] == 0:
            b.lik.task_noises = torch.tensor([rng.uniform(0.05, 0.6) for _ in range(T)])
        elif multi["task"]:
            b.lik.task_noise_covar_factor.data = torch.tensor([[rng.uniform(0.2, 0.8) * rng.choice([-1, 1])] for _ in range(T)])
        b.noise_all = None
    else:
        b.yall = torch.tensor([dyv(rng, -2, 2) for _ in range(ntot * b.nb)]).reshape(*bs, ntot)
    if multi:
        pass
    elif case["lik"] == "gaussian":
        b.lik = gpytorch.likelihoods.GaussianLikelihood(batch_shape=torch.Size(lb))
        b.lik.noise = torch.tensor([rng.uniform(0.05, 0.8) for _ in range(nb_of(lb))]).reshape(*lb, 1) if lb else rng.uniform(0.05, 0.8)
        b.noise_all = None
    else:
        b.noise_all = torch.tensor([dyv(rng, 0.0625, 0.75, 16) for _ in range(ntot * nb_of(lb))]).reshape(*lb, ntot)
        b.lik = gpytorch.likelihoods.FixedNoiseGaussianLikelihood(b.noise_all.clone())
    vd = D14.make_dist(case["dist"], m, pb)
    cls = V.VariationalStrategy if case["strat"] == "vs" else V.UnwhitenedVariationalStrategy
    added = [(a["where"], a["value"]) for a in case.get("added", [])]
    def mk(mod):
        base = cls(mod, Z, vd, learn_inducing_locations=True, jitter_val=JIT)
        if not multi:
            return base
        if multi["kind"] == "indep":
            return V.IndependentMultitaskVariationalStrategy(base, num_tasks=multi["T"], task_dim=-1)
        return V.LMCVariationalStrategy(base, num_tasks=multi["T"], num_latents=multi["L"], latent_dim=-1, jitter_val=JIT)
    b.model = SVGP(mk, mean, kern, added, shared_handle=bool(case.get("shared_handle")))
    b.prior_regs = []           # the harness' own record of prior registrations: (module, name, prior object)
    b.vs, b.dist = b.model.variational_strategy, vd
    D14.mark_initialized(b.vs)
    if multi:
        b.vs = b.model.variational_strategy.base_variational_strategy
        if multi["kind"] == "lmc":
            with torch.no_grad():
                b.model.variational_strategy.lmc_coefficients.copy_(torch.tensor(
                    [[dyv(rng, 0.25, 1.5) * rng.choice([-1, 1]) for _ in range(multi["T"])] for _ in range(multi["L"])]))
    D14.fill_dist(vd, case["dist"], m, pb, rng)
    if case.get("far"):      # far from the optimum / nearly singular covariance
        with torch.no_grad():
            if case["dist"] == "cholesky":
                vd.variational_mean.mul_(6.0); vd.chol_variational_covar.mul_(0.125)
            elif case["dist"] == "meanfield":
                vd.variational_mean.mul_(6.0); vd._variational_stddev.mul_(0.125)
    tg = prior_targets(b)
    for i, p in enumerate(case.get("priors", [])):
        if p["target"] in tg:
            mod, attr = tg[p["target"]]
            pr = make_prior(p["spec"])
            mod.register_prior("verif_prior_%d" % i, pr,
                               (lambda a, g: (lambda mm: g(getattr(mm, a))))(attr, CLOSURE_T[p["closure"]]))
            b.prior_regs.append((mod, "verif_prior_%d" % i, pr))
    b.idx = list(case["batch"])
    b.X = b.Xall[..., b.idx, :]; b.y = b.yall[b.idx, :] if multi else b.yall[..., b.idx]
    return b


def expected_priors(b, bi=0):
    """log prior terms that belong to batch element bi of the objective: the entries of each prior term whose
    owning module's batch index broadcasts (from the right) to element bi; all entries for a non-batch owner.
    (Batch mode = independent replicas: element b of a batched objective carries only its own priors.)"""
    tg = prior_targets(b)
    out = []
    full = tuple(b.bs)
    for p in b.case.get("priors", []):
        if p["target"] in tg:
            mod, attr = tg[p["target"]]
            val = getattr(mod, attr).detach()
            mbs = tuple(getattr(mod, "batch_shape", ()))
            k = min(len(mbs), val.dim())
            v2 = val.reshape(*val.shape[:k], -1)              # (*module batch, entries)
            if full:
                v2 = v2.expand(*full, v2.shape[-1]).reshape(-1, v2.shape[-1])[bi]
            else:
                v2 = v2.reshape(-1)
            out.append(sum((prior_logpdf(p["spec"], CLOSURE_M[p["closure"]](mp.mpf(v))) for v in v2.reshape(-1).tolist()), mp.mpf(0)))
    return out


def noise_vec(b, bi=0):
    """noise variances at the minibatch points for batch element bi"""
    if b.noise_all is None:
        nz = b.lik.noise.detach().reshape(-1)
        return [nz[bi % nz.numel()].item()] * len(b.idx)
    na = b.noise_all.reshape(-1, b.noise_all.shape[-1])
    return na[bi % na.shape[0]][b.idx].tolist()


def y_vec(b, bi=0):
    return b.y.reshape(-1, b.y.shape[-1])[bi].tolist()


def objective(b, which, grad=False, scale=False):
    """mll(model(x_batch), y_batch) in training mode: a float without batch shape, else the list over batch elements
    (grad=True: the tensor itself)"""
    b.model.train(); b.lik.train()
    cls = {"elbo": gpytorch.mlls.VariationalELBO, "pll": gpytorch.mlls.PredictiveLogLikelihood}[which]
    mll = cls(b.lik, b.model, num_data=b.case["num_data"], beta=b.case["beta"])
    kw = {} if b.noise_all is None else dict(noise=b.noise_all[..., b.idx])
    with gs.debug(False):
        if grad:
            return mll(b.model(b.X), b.y, **kw)
        with torch.no_grad():
            v = mll(b.model(b.X), b.y, **kw)
    if not b.bs or b.case.get("multi"):
        if v.dim() != 0:
            raise ShapeMismatch("objective has shape %s, expected a scalar" % (tuple(v.shape),))
        return float(v)
    if tuple(v.shape) != tuple(b.bs):
        raise ShapeMismatch("objective has shape %s for batch shape %s" % (tuple(v.shape), tuple(b.bs)))
    return v.reshape(-1).tolist()


class ShapeMismatch(Exception):
    pass


def prior_pieces(b):
    """the implementation's own prior on [Z; X_batch] per batch element: (K [nb][N][N], mu [nb][N])"""
    Z = b.vs.inducing_points.detach()
    X = b.X
    sh = torch.broadcast_shapes(Z.shape[:-2], X.shape[:-2])
    full = torch.cat([Z.expand(*sh, *Z.shape[-2:]), X.expand(*sh, *X.shape[-2:])], -2)
    with torch.no_grad(), gs.debug(False):
        J = b.model.forward(full)
        K, mu = J.covariance_matrix, J.mean
    N = K.shape[-1]
    K = K.expand(*b.bs, N, N).reshape(-1, N, N); mu = mu.expand(*b.bs, N).reshape(-1, N)
    return K.tolist(), mu.tolist()


def root_L(K, m):
    A = np.array(K, dtype=float)[:m, :m] + JIT * np.eye(m)
    return np.linalg.cholesky(A)


def module_tree(root, regs):
    """`root` as the Coq model's mtree (Models/C02_priors.v): structure from named_children (public torch API), the
    registrations of a module from the harness' own record regs = [(module, name, object)].
    -> (Coq term, {id(module): number}, {name: number}, {id(object): number})"""
    ids, names, oids, by_mod = {}, {}, {}, {}
    for mod, name, obj in regs:
        by_mod.setdefault(id(mod), []).append((names.setdefault(name, len(names)), oids.setdefault(id(obj), len(oids))))

    def walk(mod):
        me = ids.setdefault(id(mod), len(ids))
        ps = "; ".join("(%d%%nat, %d%%nat)" % q for q in by_mod.get(id(mod), []))
        ch = "; ".join(walk(c) for _, c in mod.named_children())
        return "(MNode %d%%nat [%s] [%s])" % (me, ps, ch)
    return walk(root), ids, names, oids


def added_tree(b):
    """(tree of the model with its added-loss registrations, [(term object number, value)]); call after a forward pass"""
    regs = [b.model._verif_terms[i] for i in sorted(b.model._verif_terms)]
    tree, ids, names, oids = module_tree(b.model, regs)
    vals = [(oids[id(term)], b.case["added"][i]["value"]) for i, (_, _, term) in sorted(b.model._verif_terms.items())]
    return tree, names, oids, vals


def elbo_terms(b):
    """one Coq term per batch element.  WHICH added-loss terms enter is decided by the Coq traversal model of
    Module.named_added_loss_terms on the model's module tree (CEA: added_values tree values)"""
    case = b.case
    m, n = case["m"], len(b.idx)
    Ks, mus = prior_pieces(b)
    add = []
    tree, _, _, vals = added_tree(b)
    vlit = "[%s]" % "; ".join("(%d%%nat, %s)" % (o, C.qc_lit(v)) for o, v in vals)
    out = []
    for bi in range(b.nb):
        pri = [float(v) for v in expected_priors(b, bi)]
        K, mu = Ks[bi], mus[bi]
        p1, p2 = D14.dist_params(b.dist, case["dist"], bi)
        if case["strat"] == "vs":
            strat, jxx, L = 1, JIT, root_L(K, m).tolist()
        else:
            strat, jxx, L = 0, 0.0, [[0.0]]
        out.append("CEA (%d%%nat, (%d%%nat, %d%%nat), %s, %s, (%s, %s), %d%%nat, %s, %s, %s, %s, %s, (%s, %s), %s, %s) " % (
            strat, m, n, C.qc_mat(K), C.qc_vec(mu), C.qc_lit(JIT), C.qc_lit(jxx), D14.KIND[case["dist"]], C.qc_vec(p1), C.qc_mat(p2),
            C.qc_mat(L), C.qc_vec(y_vec(b, bi)), C.qc_vec(noise_vec(b, bi)), C.qc_lit(case["beta"]), C.qc_lit(case["num_data"]),
            C.qc_vec(pri) if pri else "(@nil Qc)", C.qc_vec(add) if add else "(@nil Qc)") + "%s %s" % (tree, vlit))
    return out


def elbo_term(b):
    return elbo_terms(b)[0]


def mixing(b):
    """A (L x T): task t = sum_l A[l][t] latent l"""
    mu = b.case["multi"]
    if mu["kind"] == "indep":
        return [[1.0 if l == t else 0.0 for t in range(mu["T"])] for l in range(mu["L"])]
    return b.model.variational_strategy.lmc_coefficients.detach().tolist()


def mt_noise(b):
    """noise variances of the conditional p(y | f) at the minibatch points (B x T): the likelihood's own forward on f = 0"""
    B, T = len(b.idx), b.case["multi"]["T"]
    b.lik.train()
    with torch.no_grad(), gs.debug(False):
        return b.lik(torch.zeros(B, T)).variance.tolist()


def priors_all(b):
    """log prior terms of a scalar objective: every entry of every prior term (batch dimensions of the owner that the
    objective does not have -- the latent dimension of a multi-output model -- are summed)"""
    tg = prior_targets(b)
    out = []
    for p in b.case.get("priors", []):
        if p["target"] in tg:
            mod, attr = tg[p["target"]]
            out.append(sum((prior_logpdf(p["spec"], CLOSURE_M[p["closure"]](mp.mpf(v))) for v in getattr(mod, attr).detach().reshape(-1).tolist()), mp.mpf(0)))
    return out


def mt_term(b):
    """the Coq term of a multi-output case: one latent problem per batch element of the SVGP + mixing matrix + B x T targets"""
    case = b.case
    m, n = case["m"], len(b.idx)
    Ks, mus = prior_pieces(b)
    lats = []
    for bi in range(b.nb):
        K, mu = Ks[bi], mus[bi]
        p1, p2 = D14.dist_params(b.dist, case["dist"], bi)
        if case["strat"] == "vs":
            strat, jxx, L = 1, JIT, root_L(K, m).tolist()
        else:
            strat, jxx, L = 0, 0.0, [[0.0]]
        lats.append("(%d%%nat, (%d%%nat, %d%%nat), %s, %s, (%s, %s), %d%%nat, %s, %s, %s, (@nil Qc), (@nil Qc), (%s, %s), (@nil Qc), (@nil Qc))" % (
            strat, m, n, C.qc_mat(K), C.qc_vec(mu), C.qc_lit(JIT), C.qc_lit(jxx), D14.KIND[case["dist"]], C.qc_vec(p1), C.qc_mat(p2),
            C.qc_mat(L), C.qc_lit(1.0), C.qc_lit(1.0)))
    pri = [float(v) for v in priors_all(b)]
    # (LMCVariationalStrategy adds its jitter_val to the diagonal of the mixed covariance)
    return "CMT ([%s], (%s, %s), %s, %s, (%s, %s), %s, (@nil Qc))" % (
        "; ".join(lats), C.qc_mat(mixing(b)), C.qc_lit(JIT if case["multi"]["kind"] == "lmc" else 0.0), C.qc_mat(b.y.tolist()), C.qc_mat(mt_noise(b)), C.qc_lit(case["beta"]),
        C.qc_lit(case["num_data"]), C.qc_vec(pri) if pri else "(@nil Qc)")


def decode_mt(r, n, T):
    rd = C.Reader(r)
    if rd.int() != 1:
        return None
    return dict(mean=rd.qs(n * T), var=rd.qs(n * T), kl=rd.expr(), elbo=rd.expr(), pll=rd.expr())


def partition_values(case, which):
    """the objective on every member of a partition of ALL points into equal consecutive minibatches, for every minibatch
    size that divides the number of points: {size: [values]} (size = ntot is the full batch)"""
    ntot = case["ntot"]
    res = {}
    for size in range(1, ntot + 1):
        if ntot % size == 0:
            res[size] = [objective(build(dict(case, batch=list(range(k, k + size)))), which) for k in range(0, ntot, size)]
    return res


def unwhitened_moments(b, K, bi=0):
    """q(u) of batch element bi as an unwhitened Cholesky parametrisation (mean, lower factor) in float"""
    m = b.case["m"]
    with torch.no_grad():
        q = b.vs.variational_distribution
        mq = q.mean.detach().reshape(-1, m)
        Sq = q.covariance_matrix.detach().reshape(-1, m, m)
        mq = mq[bi % mq.shape[0]].numpy().astype(float); Sq = Sq[bi % Sq.shape[0]].numpy().astype(float)
    F = np.linalg.cholesky(Sq)
    if b.case["strat"] == "vs":
        L = root_L(K, m)
        with torch.no_grad(), gs.debug(False):
            mz = b.model.mean_module(b.vs.inducing_points.detach())
            mz = mz.expand(*b.bs, m).reshape(-1, m)[bi].numpy()
        return (mz + L @ mq).tolist(), (L @ F).tolist()
    return mq.tolist(), F.tolist()


def bound_terms(b):
    case = b.case
    m, n = case["m"], len(b.idx)
    Ks, mus = prior_pieces(b)
    jxx = JIT if case["strat"] == "vs" else 0.0
    out = []
    for bi in range(b.nb):
        p1, p2 = unwhitened_moments(b, Ks[bi], bi)
        out.append("CB (%d%%nat, %d%%nat, %s, %s, (%s, %s), 0%%nat, %s, %s, %s, %s)" % (
            m, n, C.qc_mat(Ks[bi]), C.qc_vec(mus[bi]), C.qc_lit(JIT), C.qc_lit(jxx), C.qc_vec(p1), C.qc_mat(p2),
            C.qc_vec(y_vec(b, bi)), C.qc_vec(noise_vec(b, bi))))
    return out


def bound_term(b):
    return bound_terms(b)[0]


def decode_elbo(r, n):
    rd = C.Reader(r)
    if rd.int() != 1:
        return None
    return dict(mean=rd.qs(n), var=rd.qs(n), kl=rd.expr(), elbo=rd.expr(), pll=rd.expr())


def decode_bound(r, m):
    rd = C.Reader(r)
    if rd.int() != 1:
        return None
    return dict(nelbo=rd.expr(), exact=rd.expr(), collapsed=rd.expr(), nelbo_opt=rd.expr(), mopt=rd.qs(m), Sopt=rd.qmat(m, m))


def set_qu(b, means, covs):
    """q(u) := N(means[bi], covs[bi]) for every batch element, given in UNWHITENED coordinates"""
    case = b.case
    m = case["m"]
    Ks, mus = prior_pieces(b)
    mm, cc = [], []
    for bi in range(nb_of(b.pb)):
        mean = np.array(means[bi], dtype=float); cov = np.array(covs[bi], dtype=float)
        if case["strat"] == "vs":
            L = root_L(Ks[bi], m)
            Li = np.linalg.inv(L)
            mean = Li @ (mean - np.array(mus[bi][:m])); cov = Li @ cov @ Li.T
        mm.append(mean); cc.append((cov + cov.T) / 2)
    return D14.set_dist_to(b.dist, case["dist"], torch.tensor(np.array(mm)).reshape(*b.pb, m),
                           torch.tensor(np.array(cc)).reshape(*b.pb, m, m))


def short(case):
    return {k: case[k] for k in ("family", "strat", "dist", "m", "ntot", "d", "kernel", "mean", "lik", "batch", "beta",
                                 "num_data", "hseed", "bshape", "bpat", "lbatch", "shared_handle") if k in case} | dict(
        npriors=len(case.get("priors", [])), nadded=len(case.get("added", [])))


def as_list(v):
    return v if isinstance(v, list) else [v]


def btag(case):
    """key suffix naming the batch pattern (empty for an unbatched model)"""
    return (":batch-" + case["bpat"]) if case.get("bshape") else ""


NGD_CONFIGS = ("plain", "groups", "group-lr", "gradless-first", "gradless-interleaved", "frozen-first", "hybrid-adam",
               "two-models:other-first", "two-models:other-last")


def ngd_step_value(case, cfg="plain"):
    """one natural-gradient step of size one on the full-batch ELBO (summed over the batch of models: the elements have
    separate variational parameters) from the case's q(u); returns N * ELBO afterwards, per batch element.
    cfg = how the optimiser is set up (all are usage patterns of gpytorch.optim.NGD in the tutorials / in multi-model code):
      plain                 NGD(model.variational_parameters())
      groups                one parameter group per natural parameter
      group-lr              the step size given per group ({"params": .., "lr": 1.0}) with another default lr
      gradless-first        a parameter that receives no gradient in this step (grad None) listed BEFORE the natural parameters
      gradless-interleaved  such parameters before, between and after the natural parameters
      frozen-first          a requires_grad=False parameter listed first
      hybrid-adam           NGD on the variational parameters + Adam on hyperparameters / likelihood (the tutorial's loop:
                            both zero_grad, backward, both step); N*ELBO is read between the two steps
      two-models:other-first / other-last   ONE NGD shared by two models (two variational distributions), only this model's
                            ELBO is back-propagated; the other model's parameters come first / last in the group and must not move"""
    b = build(dict(case, dist="natural"))
    b.model.train(); b.lik.train()
    N = case["num_data"]
    mll = gpytorch.mlls.VariationalELBO(b.lik, b.model, num_data=N)
    nat = list(b.model.variational_parameters())
    dummy = lambda k=3: torch.nn.Parameter(torch.ones(k))      # noqa: E731
    other, extra_opt, watch = None, None, []
    if cfg == "plain":
        opt = gpytorch.optim.NGD(b.model.variational_parameters(), num_data=N, lr=1.0)
    elif cfg == "groups":
        opt = gpytorch.optim.NGD([{"params": [p]} for p in nat], num_data=N, lr=1.0)
    elif cfg == "group-lr":
        opt = gpytorch.optim.NGD([{"params": nat, "lr": 1.0}], num_data=N, lr=0.125)
    elif cfg == "gradless-first":
        watch = [dummy()]
        opt = gpytorch.optim.NGD(watch + nat, num_data=N, lr=1.0)
    elif cfg == "gradless-interleaved":
        watch = [dummy(2), dummy(1), dummy(4)]
        plist = [watch[0]]
        for p in nat:
            plist += [p, watch[1]] if p is nat[0] else [p]
        opt = gpytorch.optim.NGD(plist + [watch[2]], num_data=N, lr=1.0)
    elif cfg == "frozen-first":
        watch = [torch.nn.Parameter(torch.ones(2), requires_grad=False)]
        opt = gpytorch.optim.NGD(watch + nat, num_data=N, lr=1.0)
    elif cfg == "hybrid-adam":
        opt = gpytorch.optim.NGD(nat, num_data=N, lr=1.0)
        extra_opt = torch.optim.Adam([{"params": list(b.model.hyperparameters())}, {"params": list(b.lik.parameters())}], lr=0.01)
    elif cfg.startswith("two-models"):
        other = build(dict(case, dist="natural", hseed=case["hseed"] + 1))
        other.model.train()
        watch = list(other.model.variational_parameters())
        opt = gpytorch.optim.NGD(watch + nat if cfg.endswith("other-first") else nat + watch, num_data=N, lr=1.0)
    else:
        raise ValueError(cfg)
    before = [w.detach().clone() for w in watch]
    opt.zero_grad()
    if extra_opt is not None:
        extra_opt.zero_grad()
    with gs.debug(False):
        loss = -mll(b.model(b.X), b.y).sum()
        loss.backward()
        opt.step()
        with torch.no_grad():
            vals = [N * float(v) for v in mll(b.model(b.X), b.y).reshape(-1)]
        if extra_opt is not None:
            extra_opt.step()
    moved = [i for i, (w, w0) in enumerate(zip(watch, before)) if not torch.equal(w.detach(), w0)]
    if moved:
        raise OtherMoved("a parameter without gradient in this step (position %d of the watched ones) was changed by NGD.step" % moved[0])
    return vals


class OtherMoved(Exception):
    pass


def grad_plan(case):
    b = build(case)
    params = [(nm, p) for nm, p in list(b.model.named_parameters()) + [("lik." + n_, p) for n_, p in b.lik.named_parameters()]
              if p.requires_grad and "inducing_points" not in nm]
    v = objective(b, "elbo", grad=True)
    g = torch.autograd.grad(v, [p for _, p in params], allow_unused=True)
    plan = []
    for pi, (nm, p) in enumerate(params):
        for ei in range(p.numel()):
            if "chol_variational_covar" in nm and (ei % case["m"]) > (ei // case["m"]):
                continue       # entries above the diagonal are masked
            ag = 0.0 if g[pi] is None else g[pi].reshape(-1)[ei].item()
            terms = {}
            for sgn in (1, -1):
                b3 = build(case)
                allp = dict(list(b3.model.named_parameters()) + [("lik." + n_, q) for n_, q in b3.lik.named_parameters()])
                with torch.no_grad():
                    allp[nm].reshape(-1)[ei] += sgn * GRAD_H
                terms[sgn] = elbo_term(b3)
            plan.append(dict(param=nm, elem=ei, autograd=ag, terms=terms))
    return plan


def check_multi(out, case, b, r):
    """a multi-output case: objective values against the dense definition (Coq), q(f) marginals, and the minibatch-partition
    identity (the mean of the objective over a partition of all points into equal minibatches is the full-batch value)"""
    mu = case["multi"]
    n, T = len(b.idx), mu["T"]
    desc = dict(short(case), **{k: mu[k] for k in ("kind", "T", "L", "rank", "glob", "task")})
    mtag = "multi:%s:%s:%s" % (mu["kind"], case["strat"], case["dist"])
    out.case(desc, True, label="multi:%s:%s" % (mu["kind"], case["strat"]))
    out.count("multi:T=%d" % T); out.count("multi:B%sT" % ("==" if n == T else "!=")); out.count("multi:noise-rank=%d" % mu["rank"])
    out.count("multi:L=%d" % mu["L"]); out.count("dist=" + case["dist"])
    d = decode_mt(r, n, T)
    if d is None:
        out.fail("model:rejects:%s" % mtag, "the model could not evaluate the case (singular matrix)", dict(case=case))
        return
    # q(f) as the objective sees it (public: model(x) in training mode)
    try:
        bq = build(case)
        bq.model.train()
        with torch.no_grad(), gs.debug(False):
            qf = bq.model(bq.X)
            got_m, got_v = qf.mean.reshape(-1).tolist(), qf.variance.reshape(-1).tolist()
        if tuple(qf.event_shape) != (n, T) or not all(C.close(a, w, TOL, TOL) for a, w in zip(got_m + got_v, list(d["mean"]) + list(d["var"]))):
            out.fail("qf:%s" % mtag, "q(f) of the multi-output model (event shape B x T: task means / variances) differs from the mixing of the latent "
                     "marginals", dict(case=case, which="mt-qf"), impl=[got_m, got_v], model=[[float(v) for v in d["mean"]], [float(v) for v in d["var"]]])
    except Exception as e:  # noqa: BLE001
        out.fail("impl-exception:qf:%s:%s" % (mtag, type(e).__name__), "model(x) raised %r" % e, dict(case=case, which="mt-qf"))
    for which, cls in (("elbo", "VariationalELBO"), ("pll", "PredictiveLogLikelihood")):
        try:
            v = objective(build(case), which)
        except Exception as e:  # noqa: BLE001
            out.fail("impl-exception:%s:%s:%s" % (which, mtag, type(e).__name__), "implementation raised %r" % e, dict(case=case, which=which))
            continue
        if not C.close(v, d[which], TOL, TOL):
            out.fail("%s:%s:%s%s" % (which, mtag, "minibatch" if case["num_data"] != n else "fullbatch", ":priors" if case.get("priors") else ""),
                     "%s of a multi-output model differs from its definition (1/B) sum_i sum_t ell_it - (beta/N) sum_l KL_l + (1/N) log priors, B = number "
                     "of minibatch POINTS" % cls, dict(case=case, which=which), impl=v, model=float(d[which]))
        # partition identity (implementation only; c15_multioutput_partition)
        try:
            pv = partition_values(case, which)
            full = pv[case["ntot"]][0]
            out.case(dict(desc, check="partition", objective=which, sizes=sorted(pv)), len(pv) > 2, label="multi:partition")
            for size, vals in sorted(pv.items()):
                mean = sum(vals) / len(vals)
                if abs(mean - full) > 1e-9 * (1 + abs(full)):
                    out.fail("partition:%s:%s" % (which, mtag), "the mean of %s over a partition of all %d points into equal minibatches of %d points differs "
                             "from the full-batch value" % (cls, case["ntot"], size), dict(case=case, which="mt-partition", objective=which, size=size),
                             impl=mean, model=full)
                    break
        except Exception as e:  # noqa: BLE001
            out.fail("impl-exception:partition:%s:%s:%s" % (which, mtag, type(e).__name__), "implementation raised %r" % e,
                     dict(case=case, which="mt-partition", objective=which))


def run(out, ctx):
    tier, seed = ctx["tier"], ctx["seed"]
    rng = random.Random(seed * 104729 + 15)
    nc = dict(objective=54, bound=16, objective_b=12, bound_b=8, grad=4, multi=14) if tier == "quick" else \
        dict(objective=240, bound=70, objective_b=50, bound_b=32, grad=12, multi=60)   # ~4-5x the quick tier (sized to 15-20 min idle)
    nc = {k: max(1, int(v * ctx.get("scale", 1.0))) for k, v in nc.items()}   # scale < 1 only in builder sensitivity runs
    cases = [gen_case(rng, tier, fam) for fam in ("objective", "bound") for _ in range(nc[fam])]
    cases += [gen_case(rng, tier, fam, batched=True) for fam in ("objective", "bound") for _ in range(nc[fam + "_b"])]
    grads = [gen_case(rng, tier, "grad") for _ in range(nc["grad"])]
    for batched in (False, True):
        for k, c in enumerate([c for c in cases if c["family"] == "bound" and bool(c.get("bshape")) == batched]):
            c["strat"] = STRATS[k % len(STRATS)]          # both strategies in every run, whatever the sample size
            if batched:
                c["bpat"] = ["model", "params", "both"][(k // 2) % 3]
    out.rule = ("SVGP models: {VariationalStrategy (whitened), UnwhitenedVariationalStrategy} x {Cholesky, MeanField, Natural, "
                "TrilNatural, Delta} q(u) with random parameters, inducing 2..%d, data 3..%d, 4 kernels x 3 means, Gaussian / "
                "fixed-noise (noise= passed per minibatch) likelihoods; objective family: random minibatch subsets (B=1..4), declared "
                "num_data in {B, N, N+3, 10, 100}, beta in {0.1, 0.5, 1, 2}, priors (4 kinds x id/log/square closures) on "
                "lengthscale/outputscale/noise/mean constant, 0-2 added-loss terms on the model, the outer kernel or the inner kernel; in ~1/3 of the cases the model "
                "keeps a SECOND HANDLE to the inner kernel (model.base_kernel next to covar_module....base_kernel), which then carries an added-loss term (and "
                "usually a prior): WHICH added-loss terms enter is decided by the Coq traversal model (Models/C02_priors.v added_values on the model's module "
                "tree), Module.named_added_loss_terms and the objective's named_priors are compared exactly with named_added / named_priors of the tree; VariationalELBO "
                "and PredictiveLogLikelihood both compared.  bound family: full batch, beta=1: N*ELBO(q) vs model, "
                "N*ELBO <= exact log marginal likelihood, collapsed bound <= exact, ELBO(q*) = collapsed bound (q* set in the "
                "implementation), one NGD step of size one from the random q lands on the collapsed bound in EVERY optimiser set-up of NGD_CONFIGS (plain, several parameter "
                "groups, per-group lr, parameters without gradient before / between / after the natural parameters, a frozen parameter first, NGD + Adam hybrid loop, one NGD "
                "shared by two models with only one ELBO back-propagated - the other model's parameters must not move).  BATCHED models (a batch of "
                "sparse GPs in one ApproximateGP, batch shapes (2), (3), thorough also (2,2)): the batch shape on kernel+mean+inducing points+q(u) / on q(u) only / on the inputs "
                "only / on everything, Gaussian likelihood batched or shared, one target vector per element; objective, KL pieces, bounds, q* and the NGD step (on the "
                "summed objective) are checked for EVERY batch element against its own dense problem; MULTI-OUTPUT models (family multi: T = 2, 3 tasks from L latent sparse GPs -- one batched SVGP of batch shape [L], "
                "whitened or unwhitened, all five q(u) classes -- through IndependentMultitaskVariationalStrategy (L = T) or LMCVariationalStrategy (L = 1..3, random mixing matrix, its diagonal jitter modelled) "
                "with MultitaskGaussianLikelihood of rank 0 / 1, with / without global and task noise; targets B x T with B != T in most cases, random minibatches, declared num_data / beta / priors as above): "
                "q(f) (task means / variances), VariationalELBO and PredictiveLogLikelihood against the dense definition (Models/C15_elbo.v run_mt_elbo: (1/B) sum_i sum_t ell_it - (beta/N) sum_l KL_l + priors/N, B = number of "
                "minibatch POINTS) and the minibatch-partition identity on the implementation (for every minibatch size dividing the number of points, the mean of the objective over the partition into equal consecutive minibatches "
                "= the full-batch value; theorem c15_multioutput_partition); each element carries the log priors of ITS OWN "
                "parameter slice (entries of a prior term whose owner's batch index broadcasts to that element; all entries of a non-batch owner).  non-trivial = every "
                "case (q(u) is random, never the prior)" % (4 if tier == "quick" else 5, 6 if tier == "quick" else 8))
    out.extra["tolerances"] = {"objective": TOL, "bound slack": 1e-8, "ELBO(q*) / NGD step vs collapsed bound": 1e-6,
                                "gradient": "rtol %g atol %g, h=%g" % (GRAD_RTOL, GRAD_ATOL, GRAD_H)}
    # multi-output models (own stream: the cases above stay what they were); both strategies and both constructions in every run
    mrng = random.Random(seed * 7919 + 1501)
    multis = [gen_multi(mrng, tier) for _ in range(nc["multi"])]
    for k, c in enumerate(multis):
        c["strat"] = STRATS[0] if k % 3 else STRATS[1]
        if k < 4:
            kind = ["indep", "lmc"][k % 2]
            c["multi"].update(kind=kind, L=c["multi"]["T"] if kind == "indep" else c["multi"]["L"])
            c["bshape"] = [c["multi"]["L"]]
    cases += multis
    built, coq, owner, impl_named = [], [], [], {}
    for ci, case in enumerate(cases):
        try:
            b = build(case)
            if case.get("multi"):
                coq.append(mt_term(b)); owner.append(("mt", ci, 0))
                built.append(b)
                continue
            for bi, t in enumerate(elbo_terms(b)):
                coq.append(t); owner.append(("elbo", ci, bi))
            if case["family"] == "bound":
                for bi, t in enumerate(bound_terms(b)):
                    coq.append(t); owner.append(("bound", ci, bi))
            if case["family"] == "objective":
                # WHICH added-loss terms / priors the objective sees, against the traversal model of the same module tree
                tree, names, oids, _ = added_tree(b)
                coq.append("CNA " + tree); owner.append(("named-added", ci, 0))
                impl_named[("added", ci)] = sorted((names.get(full.rsplit(".", 1)[-1], -1), oids.get(id(term), -1))
                                                   for full, term in b.model.named_added_loss_terms())
                mll_ = gpytorch.mlls.VariationalELBO(b.lik, b.model, num_data=case["num_data"])
                ptree, pmods, pnames, poids = module_tree(mll_, b.prior_regs)
                coq.append("CNP " + ptree); owner.append(("named-priors", ci, 0))
                impl_named[("priors", ci)] = sorted((pmods.get(id(mod), -1), pnames.get(full.rsplit(".", 1)[-1], -1), poids.get(id(pr), -1))
                                                    for full, mod, pr, _c, _s in mll_.named_priors())
        except Exception as e:  # noqa: BLE001
            out.fail("impl-exception:build:%s:%s:%s%s" % (case["strat"], case["dist"], type(e).__name__, btag(case)),
                     "constructing the model / reading its prior raised %r" % e, dict(case=case))
            b = None
        built.append(b)
    gplans = []
    for gi, case in enumerate(grads):
        gp = grad_plan(case)
        gplans.append(gp)
        for pi, ent in enumerate(gp):
            for sgn in (1, -1):
                coq.append(ent["terms"][sgn]); owner.append(("grad", gi, (pi, sgn)))
    res = C.coq_run_cases(ctx.get("tag", "C15"), IMPORTS, RUN_DEF, coq, shard=max(3, len(coq) // 48))
    dec = {}
    for (kind, ci, extra), r in zip(owner, res):
        dec.setdefault((kind, ci), []).append((extra, r))
    for ci, case in enumerate(cases):
        b = built[ci]
        if b is None:
            continue
        n = len(b.idx)
        if case.get("multi"):
            check_multi(out, case, b, dec[("mt", ci)][0][1])
            continue
        desc = short(case)
        bt = btag(case)
        tag = "%s:%s" % (case["strat"], case["dist"])
        ds = [decode_elbo(r, n) for _, r in sorted(dec[("elbo", ci)], key=lambda t: t[0])]
        out.case(desc, True, label="%s:%s%s" % (case["family"], case["strat"], ":batched" if bt else ""))
        out.count("dist=" + case["dist"]); out.count("lik=" + case["lik"]); out.count("beta=%g" % case["beta"])
        out.count("B=%d" % n); out.count("num_data%sB" % ("==" if case["num_data"] == n else "!="))
        out.count("batch=%s" % (("%s:%s" % ("x".join(map(str, case["bshape"])), case["bpat"])) if bt else "none"))
        sh_ = ":shared-handle" if case.get("shared_handle") else ""
        out.count("shared-handle=%s" % bool(case.get("shared_handle")))
        if ("added", ci) in impl_named:
            (_, ra), = dec[("named-added", ci)]
            want_a = sorted((ra[k + 1], ra[k + 2]) for k in range(0, len(ra), 3))
            out.case(dict(desc, check="named_added_loss_terms", nterms=len(want_a)), len(want_a) >= 1, label="named-added" + sh_)
            if impl_named[("added", ci)] != want_a:
                out.fail("named-added%s" % sh_, "Module.named_added_loss_terms does not yield every distinct term object exactly once "
                         "((name, term object) numbers; -1 = not a registered one)", dict(case=case, which="named"),
                         impl=[list(t) for t in impl_named[("added", ci)]], model=[list(t) for t in want_a])
            (_, rp), = dec[("named-priors", ci)]
            want_p = sorted((rp[k], rp[k + 1], rp[k + 2]) for k in range(0, len(rp), 3))
            out.case(dict(desc, check="named_priors", nregs=len(want_p)), len(want_p) >= 1, label="named-priors" + sh_)
            if impl_named[("priors", ci)] != want_p:
                out.fail("named-priors%s" % sh_, "named_priors of the objective does not yield every registration of every distinct module "
                         "exactly once ((module, name, prior object) numbers)", dict(case=case, which="named"),
                         impl=[list(t) for t in impl_named[("priors", ci)]], model=[list(t) for t in want_p])
        if any(d is None for d in ds):
            out.fail("model:rejects:%s" % tag, "the model could not evaluate the case (singular matrix)", dict(case=case))
            continue
        for which, cls in (("elbo", "VariationalELBO"), ("pll", "PredictiveLogLikelihood")):
            try:
                vs = as_list(objective(build(case), which))
            except Exception as e:  # noqa: BLE001
                out.fail("impl-exception:%s:%s:%s%s" % (which, tag, type(e).__name__, bt), "implementation raised %r" % e,
                         dict(case=case, which=which))
                continue
            for bi, (v, d) in enumerate(zip(vs, ds)):
                if not C.close(v, d[which], TOL, TOL):
                    key = "%s:%s:%s%s%s%s" % (which, tag, "minibatch" if case["num_data"] != n else "fullbatch",
                                              ":priors" if case.get("priors") else "", ":added" if case.get("added") else "", sh_ + bt)
                    out.fail(key, "%s differs from its definition" % cls, dict(case=case, which=which, batch_element=bi),
                             impl=v, model=float(d[which]))
                    break
        if case["family"] == "objective":
            # combine_terms=False returns the scaled pieces: (log_likelihood, kl, log_prior[, added_loss])
            try:
                bb = build(case)
                bb.model.train(); bb.lik.train()
                mll2 = gpytorch.mlls.VariationalELBO(bb.lik, bb.model, num_data=case["num_data"], beta=case["beta"], combine_terms=False)
                kw = {} if bb.noise_all is None else dict(noise=bb.noise_all[..., bb.idx])
                with torch.no_grad(), gs.debug(False):
                    tparts = [torch.as_tensor(t) for t in mll2(bb.model(bb.X), bb.y, **kw)]
                sh = torch.broadcast_shapes(*[t.shape for t in tparts])
                ok = len(tparts) == (4 if case.get("added") else 3) and tuple(sh) == tuple(bb.bs)
                want_add = float(sum(a["value"] for a in case.get("added", [])))
                for bi, d in enumerate(ds):
                    if not ok:
                        break
                    parts = [float(t.expand(sh).reshape(-1)[bi]) for t in tparts]
                    want_pri = float(sum(expected_priors(bb, bi), mp.mpf(0))) / case["num_data"]
                    want_kl = case["beta"] * float(d["kl"]) / case["num_data"]
                    ok = C.close(parts[1], want_kl, TOL, TOL) \
                        and C.close(parts[2], want_pri, TOL, TOL) and (len(parts) < 4 or C.close(parts[3], want_add, TOL, TOL)) \
                        and C.close(parts[0] - parts[1] + parts[2] - (parts[3] if len(parts) > 3 else 0.0), d["elbo"], TOL, TOL)
                    if not ok:
                        out.fail("elbo-terms:%s%s" % (tag, bt), "combine_terms=False pieces are not (sum ell / B, beta KL / N, log priors / N, added)",
                                 dict(case=case, which="elbo", batch_element=bi), impl=parts, model=[want_kl, want_pri, want_add, float(d["elbo"])])
                if not ok and (len(tparts) != (4 if case.get("added") else 3) or tuple(sh) != tuple(bb.bs)):
                    out.fail("elbo-terms:shape:%s%s" % (tag, bt), "combine_terms=False returns %d pieces of joint shape %s" % (len(tparts), tuple(sh)),
                             dict(case=case, which="elbo"))
            except Exception as e:  # noqa: BLE001
                out.fail("impl-exception:elbo-terms:%s:%s%s" % (tag, type(e).__name__, bt), "implementation raised %r" % e,
                         dict(case=case, which="elbo"))
        if case["family"] != "bound":
            continue
        # ---- bound statements, evaluated on the real code (TESTS), for every batch element
        bds = [decode_bound(r, case["m"]) for _, r in sorted(dec[("bound", ci)], key=lambda t: t[0])]
        if any(bd is None for bd in bds):
            out.fail("model:rejects:bound:%s" % tag, "the model could not evaluate the bound case", dict(case=case))
            continue
        N = case["num_data"]
        out.case(dict(desc, check="bound"), True, label="bound-checks" + (":batched" if bt else ""))
        nels = [N * v for v in as_list(objective(build(case), "elbo"))]
        for bi, (nel, bd) in enumerate(zip(nels, bds)):
            exact, coll, nopt = float(bd["exact"]), float(bd["collapsed"]), float(bd["nelbo_opt"])
            info = dict(case=case, which="bound", batch_element=bi)
            if not C.close(nel, bd["nelbo"], 1e-7, 1e-8):
                out.fail("bound:nelbo:%s%s" % (tag, bt), "N*ELBO differs from the dense full-batch value", info,
                         impl=nel, model=float(bd["nelbo"]))
            if nel > exact + 1e-8 * (1 + abs(exact)):
                out.fail("bound:elbo-exceeds-mll:%s%s" % (tag, bt), "N * full-batch ELBO exceeds the exact log marginal likelihood",
                         info, impl=nel, model=exact)
            if coll > exact + 1e-9 * (1 + abs(exact)) or nel > coll + 1e-8 * (1 + abs(coll)):
                out.fail("bound:collapsed-order:%s%s" % (tag, bt), "ordering N*ELBO(q) <= collapsed bound <= exact MLL violated",
                         info, impl=[nel, coll, exact])
            if abs(nopt - coll) > 1e-9 * (1 + abs(coll)):
                out.fail("model:optimal-q", "in the exact model ELBO(q*) != collapsed bound (%.12g vs %.12g)" % (nopt, coll),
                         info, no_input=True)
        colls = [float(bd["collapsed"]) for bd in bds]
        # q(u) := q* in the implementation (every batch element its own q*)
        b2 = build(case)
        if set_qu(b2, [[float(v) for v in bd["mopt"]] for bd in bds], [[[float(v) for v in r] for r in bd["Sopt"]] for bd in bds]):
            for bi, (v2, coll) in enumerate(zip([N * v for v in as_list(objective(b2, "elbo"))], colls)):
                if abs(v2 - coll) > 1e-6 * (1 + abs(coll)):
                    out.fail("bound:optimal-q:%s%s" % (tag, bt), "with q(u) = exact posterior over u, N*ELBO is not the collapsed bound",
                             dict(case=case, which="bound", batch_element=bi), impl=v2, model=coll)
                    break
        # one NGD step of size one reaches the optimum -- in every optimiser configuration
        for cfg in NGD_CONFIGS:
            try:
                v3s = ngd_step_value(case, cfg)
                out.case(dict(desc, check="ngd", optimiser=cfg), True, label="ngd-step" + (":batched" if bt else ""))
                out.count("ngd-config=" + cfg)
                for bi, (v3, coll) in enumerate(zip(v3s, colls)):
                    if abs(v3 - coll) > 1e-6 * (1 + abs(coll)):
                        out.fail("bound:ngd-step:%s:%s%s" % (case["strat"], cfg, bt), "one natural-gradient step of size one (optimiser set-up: %s) "
                                 "does not land on the collapsed bound" % cfg, dict(case=case, which="ngd", optimiser=cfg, batch_element=bi), impl=v3, model=coll)
                        break
            except OtherMoved as e:
                out.fail("bound:ngd-step:%s:%s:moves-gradless%s" % (case["strat"], cfg, bt), str(e), dict(case=case, which="ngd", optimiser=cfg))
            except Exception as e:  # noqa: BLE001
                out.fail("impl-exception:ngd:%s:%s:%s%s" % (case["strat"], cfg, type(e).__name__, bt), "NGD step (optimiser set-up: %s) raised %r" % (cfg, e),
                         dict(case=case, which="ngd", optimiser=cfg))
    # ---- gradients
    for gi, case in enumerate(grads):
        vals = {}
        for (pi, sgn), r in dec.get(("grad", gi), []):
            d = decode_elbo(r, len(case["batch"]))
            if d is not None:
                vals[(pi, sgn)] = d["elbo"]
        for pi, ent in enumerate(gplans[gi]):
            if (pi, 1) not in vals or (pi, -1) not in vals:
                continue
            fd = float((vals[(pi, 1)] - vals[(pi, -1)]) / (2 * mp.mpf(GRAD_H)))
            out.case(dict(short(case), check="grad", param=ent["param"], elem=ent["elem"]), True, label="grad")
            if not C.close(ent["autograd"], fd, GRAD_ATOL, GRAD_RTOL):
                out.fail("grad:%s:%s" % (case["strat"], ent["param"].split(".")[-1]),
                         "autograd gradient of VariationalELBO differs from the central difference of the dense objective",
                         dict(case=case, which="grad", param=ent["param"], elem=ent["elem"]), impl=ent["autograd"], model=fd)
    out.tested_not_proved = [
        "N * full-batch ELBO <= exact log marginal likelihood for every sampled q(u) (proved only along the KL term / mean-field "
        "KL >= 0; log det / trace monotonicity is out of reach, DESIGN 9.3)",
        "ELBO(q*) = collapsed (Titsias) bound (the log-det part needs the matrix determinant lemma); q* itself is proved to be the posterior",
        "one NGD step of size one on the natural parameters reaches the collapsed bound (9 optimiser set-ups per bound case)",
        "Module.named_added_loss_terms / named_priors of the objective equal the traversal model on every generated module tree (the traversal's "
        "exactly-once theorems are proved for all trees)",
        "gradients of the objective w.r.t. raw hyper-parameters and variational parameters (autograd vs central differences of "
        "the Coq-evaluated objective)",
        "values of the prior log-densities (C17) - recomputed with mpmath"]


def replay(path):
    d = json.load(open(path))
    info = d["case"]; case = info["case"]; which = info.get("which", "elbo")
    b = build(case)
    if case.get("multi"):
        mu = case["multi"]
        r = C.coq_run_cases("C15_replay", IMPORTS, RUN_DEF, [mt_term(b)])[0]
        dd = decode_mt(r, len(b.idx), mu["T"])
        bad = False
        for w in ("elbo", "pll"):
            v = objective(build(case), w)
            print(w, "impl", v, "model", float(dd[w]))
            bad = bad or not C.close(v, dd[w], TOL, TOL)
            pv = partition_values(case, w)
            for size, vals in sorted(pv.items()):
                print("  partition into minibatches of", size, ": mean", sum(vals) / len(vals), "full batch", pv[case["ntot"]][0])
                bad = bad or abs(sum(vals) / len(vals) - pv[case["ntot"]][0]) > 1e-9 * (1 + abs(pv[case["ntot"]][0]))
        bq = build(case); bq.model.train()
        with torch.no_grad(), gs.debug(False):
            qf = bq.model(bq.X)
        print("impl  q(f) mean", qf.mean.reshape(-1).tolist(), "var", qf.variance.reshape(-1).tolist())
        print("model q(f) mean", [float(x) for x in dd["mean"]], "var", [float(x) for x in dd["var"]], "KL", float(dd["kl"]))
        bad = bad or not all(C.close(a, w_, TOL, TOL) for a, w_ in zip(qf.mean.reshape(-1).tolist() + qf.variance.reshape(-1).tolist(),
                                                                       list(dd["mean"]) + list(dd["var"])))
    elif which in ("elbo", "pll"):
        rs = C.coq_run_cases("C15_replay", IMPORTS, RUN_DEF, elbo_terms(b))
        vs = as_list(objective(build(case), which))
        bad = False
        for bi, (r, v) in enumerate(zip(rs, vs)):
            dd = decode_elbo(r, len(b.idx))
            print("batch element", bi, which, "impl", v, "model", float(dd[which]))
            print("  model q(f) mean", [float(x) for x in dd["mean"]], "var", [float(x) for x in dd["var"]], "KL", float(dd["kl"]))
            bad = bad or not C.close(v, dd[which], TOL, TOL)
    elif which == "named":
        elbo_terms(b)           # a forward pass: the added-loss terms exist
        tree, names, oids, _ = added_tree(b)
        mll_ = gpytorch.mlls.VariationalELBO(b.lik, b.model, num_data=case["num_data"])
        ptree, pmods, pnames, poids = module_tree(mll_, b.prior_regs)
        ra, rp = C.coq_run_cases("C15_replay", IMPORTS, RUN_DEF, ["CNA " + tree, "CNP " + ptree])
        got_a = sorted((names.get(full.rsplit(".", 1)[-1], -1), oids.get(id(term), -1)) for full, term in b.model.named_added_loss_terms())
        want_a = sorted((ra[k + 1], ra[k + 2]) for k in range(0, len(ra), 3))
        got_p = sorted((pmods.get(id(mod), -1), pnames.get(full.rsplit(".", 1)[-1], -1), poids.get(id(pr), -1)) for full, mod, pr, _c, _s in mll_.named_priors())
        want_p = sorted((rp[k], rp[k + 1], rp[k + 2]) for k in range(0, len(rp), 3))
        print("model tree", tree); print("impl  named_added_loss_terms (name, object)", got_a); print("model", want_a)
        print("objective tree", ptree); print("impl  named_priors (module, name, object)", got_p); print("model", want_p)
        bad = got_a != want_a or got_p != want_p
    elif which == "grad":
        bad = False
        for ent in grad_plan(case):
            if ent["param"] == info["param"] and ent["elem"] == info["elem"]:
                rs = C.coq_run_cases("C15_replay", IMPORTS, RUN_DEF, [ent["terms"][1], ent["terms"][-1]])
                vp, vm = [decode_elbo(r, len(case["batch"]))["elbo"] for r in rs]
                fd = float((vp - vm) / (2 * mp.mpf(GRAD_H)))
                print("autograd", ent["autograd"], "central difference of the dense objective", fd)
                bad = not C.close(ent["autograd"], fd, GRAD_ATOL, GRAD_RTOL)
    else:
        rs = C.coq_run_cases("C15_replay", IMPORTS, RUN_DEF, bound_terms(b))
        bds = [decode_bound(r, case["m"]) for r in rs]
        N = case["num_data"]
        nels = [N * v for v in as_list(objective(build(case), "elbo"))]
        b2 = build(case)
        set_qu(b2, [[float(v) for v in bd["mopt"]] for bd in bds], [[[float(v) for v in r_] for r_ in bd["Sopt"]] for bd in bds])
        v2s = [N * v for v in as_list(objective(b2, "elbo"))]; v3s = ngd_step_value(case, info.get("optimiser", "plain"))
        bad = False
        for bi, (bd, nel, v2, v3) in enumerate(zip(bds, nels, v2s, v3s)):
            print("batch element", bi, "N*ELBO impl", nel, "model", float(bd["nelbo"]), "exact MLL", float(bd["exact"]), "collapsed",
                  float(bd["collapsed"]), "model ELBO(q*)", float(bd["nelbo_opt"]))
            print("  impl N*ELBO at q*", v2, " after one NGD step", v3)
            coll, exact = float(bd["collapsed"]), float(bd["exact"])
            bad = bad or (nel > exact + 1e-8 * (1 + abs(exact)) or abs(v2 - coll) > 1e-6 * (1 + abs(coll))
                          or abs(v3 - coll) > 1e-6 * (1 + abs(coll)) or not C.close(nel, bd["nelbo"], 1e-7, 1e-8))
    print("FAILS" if bad else "agrees")
    return 1 if bad else 0
