"""C16 — missing observations (observation_nan_policy 'mask' / 'fill') behave as deletion.
Tie C: the implementation supplies its own joint prior (K, m on [X; X*]) and train noise S as
exact rationals together with the targets and their NaN pattern; the Coq model
(Models/C16_missing.v, vm_compute over Qc) computes the posterior of the data set with the NaN
observations DELETED (C01's closed form on the gathered sub-problem: run_deletion) for EVERY case;
for a subset (every pattern on N <= 3, a sample above) also the mean / covariance / MLL of the model
of the CURRENT code under 'mask' (run_missing: _mean_cache + exact_predictive_mean +
exact_predictive_covar with its has_missing dispatch) and under 'fill' + policy histories (run_fill),
which the theorems prove equal to deletion (re-checked here on the executable model), and the OLD
unmasked covariance formula (run_coded_cov; only to label a regression of the covariance fix and to
decide which cases are non-trivial).  The implementation is run under both policies, both orders of
switching on one model object, fast_pred_var on/off, and compared with deletion.  Histories of calls on
one model object also start with / contain calls under the DEFAULT policy 'ignore' (NaN output, not
compared unless the batch element has no NaN) and toggle fast_pred_var between calls; the model of the
prediction strategy's state under such histories is Models/C16_settings.v (run_settings; theorem
c16_call_after_any_history_is_deletion)."""
import itertools
import json
import os
import random
import warnings

import torch

import gpytorch
from gpytorch import settings as gs
from harness.lib import common as C

COQ_TARGETS = ["Models/C16_missing.vo", "Models/C16_settings.vo"]
LEVEL_NOTE = ("theorems are about the Gallina model of the mask/fill code paths; tie to /repo is differential "
              "(public outputs in float64 vs exact rationals of the deletion model).  Batch reading: under 'mask' an "
              "index that is NaN in ANY batch element is deleted for the whole batch (documented in "
              "settings.observation_nan_policy); under 'fill' deletion is per batch element.  MLL reading: "
              "mask_value * N_total == log_prob(deleted) + priors == deleted_value * N_observed.")
IMPORTS = ("From Coq Require Import List ZArith QArith Qcanon.\n"
           "From GPV Require Import Base.LinAlg Base.Exec Base.Expr Models.C01_posterior Models.C16_missing Models.C16_settings.")
RUN_DEF = "Definition run := run_missing."
RUN_DEF_D = "Definition run := run_deletion."
RUN_DEF_F = "Definition run := run_fill."
RUN_DEF_C = "Definition run := run_coded_cov."
RUN_DEF_G = "Definition run := run_gauss_terms."
RUN_DEF_S = "Definition run := run_settings."
TAGSFX = os.environ.get("VERIF_TAG", "")    # development aid: keeps the scratch directories of concurrent runs apart
# the sentinel the implementation substitutes for NaN under 'fill' (read from the settings class, not assumed)
FILL = float(gs.observation_nan_policy._fill_value)
NAN = float("nan")
# observed values that collide with values the implementation uses as markers: the fill value itself, 0 (the
# value the masks multiply by), and a target whose OFFSET from the (prior / function) mean equals the fill value
SENT_KINDS = ["fill", "zero", "offset"]
TOL = 1e-8
TOL_FPV = 1e-5

torch.set_default_dtype(torch.float64)
warnings.filterwarnings("ignore")


class GP(gpytorch.models.ExactGP):
    def __init__(self, x, y, lik, mean, kern):
        super().__init__(x, y, lik)
        self.mean_module, self.covar_module = mean, kern

    def forward(self, x):
        return gpytorch.distributions.MultivariateNormal(self.mean_module(x), self.covar_module(x))


class MTGP(gpytorch.models.ExactGP):
    def __init__(self, x, y, lik, T, rng):
        super().__init__(x, y, lik)
        self.mean_module = gpytorch.means.MultitaskMean(gpytorch.means.ConstantMean(), num_tasks=T)
        base = gpytorch.kernels.RBFKernel()
        base.lengthscale = rng.uniform(0.5, 1.5)
        self.covar_module = gpytorch.kernels.MultitaskKernel(base, num_tasks=T, rank=1)
        for m in self.mean_module.base_means:
            m.constant.data.fill_(rng.uniform(-1, 1))
        self.covar_module.task_covar_module.covar_factor.data = torch.tensor(
            [[rng.uniform(0.3, 1.2)] for _ in range(T)])
        self.covar_module.task_covar_module.var = torch.tensor([rng.uniform(0.2, 1.0) for _ in range(T)])

    def forward(self, x):
        return gpytorch.distributions.MultitaskMultivariateNormal(self.mean_module(x), self.covar_module(x))


FAMILIES = ["gaussian", "fixednoise", "prior", "multitask", "batch"]


def fixed_noise(hseed, n):
    rng = random.Random(hseed + 1)
    return torch.tensor([rng.uniform(0.05, 0.8) for _ in range(n)])


def make_single(fam, X, y, hseed, batch=None, noise=None):
    """single-output model of family fam on inputs X (n x d) / targets y; deterministic in hseed"""
    rng = random.Random(hseed)
    n = X.shape[-2]
    bs = torch.Size([batch]) if batch else torch.Size()
    k = gpytorch.kernels
    if fam == "fixednoise":
        kern = k.MaternKernel(nu=1.5)
        kern.lengthscale = rng.uniform(0.5, 1.5)
        lik = gpytorch.likelihoods.FixedNoiseGaussianLikelihood(fixed_noise(hseed, n) if noise is None else noise)
    else:
        prior = gpytorch.priors.GammaPrior(2.0, 3.0) if fam == "prior" else None
        base = k.RBFKernel(batch_shape=bs, lengthscale_prior=prior)
        base.lengthscale = (torch.tensor([rng.uniform(0.5, 1.5) for _ in range(batch)]).view(batch, 1, 1)
                            if batch else rng.uniform(0.5, 1.5))
        kern = k.ScaleKernel(base, batch_shape=bs)
        kern.outputscale = (torch.tensor([rng.uniform(0.5, 2.0) for _ in range(batch)]) if batch
                            else rng.uniform(0.5, 2.0))
        lik = gpytorch.likelihoods.GaussianLikelihood(
            batch_shape=bs, noise_prior=gpytorch.priors.GammaPrior(1.5, 2.0) if fam == "prior" else None)
        lik.noise = (torch.tensor([rng.uniform(0.05, 0.5) for _ in range(batch)]).view(batch, 1) if batch
                     else rng.uniform(0.05, 0.5))
    mean = gpytorch.means.ConstantMean(batch_shape=bs)
    mean.constant.data = (torch.tensor([rng.uniform(-1, 1) for _ in range(batch)]) if batch
                          else torch.tensor(rng.uniform(-1, 1)))
    return GP(X, y, lik, mean, kern), lik


def build(ds, pattern=None, noise=None):
    """ds: dict(fam, n, t, T, X, Xs, y, hseed); pattern: flattened list of 0/1 (1 = missing) per batch element"""
    fam = ds["fam"]
    X, Xs = torch.tensor(ds["X"]), torch.tensor(ds["Xs"])
    y = torch.tensor(ds["y"])
    if pattern is not None:
        y = y.clone()
        y.view(-1)[torch.tensor(pattern, dtype=torch.bool).view(-1)] = NAN
    if fam == "multitask":
        rng = random.Random(ds["hseed"])
        lik = gpytorch.likelihoods.MultitaskGaussianLikelihood(num_tasks=ds["T"], rank=0)
        lik.noise = rng.uniform(0.05, 0.3)
        lik.task_noises = torch.tensor([rng.uniform(0.05, 0.4) for _ in range(ds["T"])])
        model = MTGP(X, y, lik, ds["T"], rng)
    elif fam == "batch":
        model, lik = make_single(fam, X, y, ds["hseed"], batch=ds["B"])
    else:
        model, lik = make_single(fam, X, y, ds["hseed"], noise=noise)
    return model, lik, X, Xs, y


def sentinel_value(kind, mean_i):
    """an ordinary (observed) target value that collides with a marker value of the implementation"""
    if kind == "zero":
        return 0.0
    if kind == "offset":
        v = float(mean_i) + FILL
        if v - float(mean_i) == FILL:       # the offset target - mean is exactly the fill value in float64
            return v
    return FILL


def draw_sentinels(rng, positions):
    """a non-empty subset of `positions` (at most half of them, at least one) with a kind each; the first is 'fill'"""
    positions = list(positions)
    if not positions:
        return []
    k = rng.randint(1, max(1, (len(positions) + 1) // 2))
    pos = rng.sample(positions, k)
    return [[i, "fill" if j == 0 else rng.choice(SENT_KINDS)] for j, i in enumerate(pos)]


def add_sentinels(ds, rng):
    """overwrite some targets of the data set with sentinel-colliding values (they stay OBSERVED values: deletion
    semantics treats them as ordinary data).  The prior mean is read from the model the data set builds."""
    model, lik, X, Xs, y = build(ds)
    with torch.no_grad():
        mu = model.mean_module(X).reshape(-1).tolist()
    yt = torch.tensor(ds["y"])
    flat = yt.reshape(-1).tolist()
    sent = draw_sentinels(rng, range(len(flat)))
    for i, kind in sent:
        flat[i] = sentinel_value(kind, mu[i])
    ds["y"] = torch.tensor(flat).reshape(yt.shape).tolist()
    ds["sent"] = sent
    return ds


def gen_dataset(rng, fam, n, t=2):
    """n = number of train points (per batch element); event size N = n*T"""
    grid = lambda: rng.randint(-16, 16) / 8.0  # noqa: E731
    B = 2 if fam == "batch" else None
    T = 2 if fam == "multitask" else 1

    def pts(k):
        for _ in range(500):
            p = [[grid()] for _ in range(k)]
            if all(abs(a[0] - b[0]) >= 0.25 for a, b in itertools.combinations(p, 2)):
                return p
        raise RuntimeError("could not separate points")
    if B:
        allp = [pts(n + t) for _ in range(B)]
        X, Xs = [p[:n] for p in allp], [p[n:] for p in allp]
        y = [[rng.randint(-16, 16) / 8.0 for _ in range(n)] for _ in range(B)]
    else:
        p = pts(n + t)
        X, Xs = p[:n], p[n:]
        y = ([[rng.randint(-16, 16) / 8.0 for _ in range(T)] for _ in range(n)] if T > 1
             else [rng.randint(-16, 16) / 8.0 for _ in range(n)])
    return dict(fam=fam, n=n, t=t, T=T, B=B, N=n * T, X=X, Xs=Xs, y=y, hseed=rng.randint(0, 10 ** 9))


def impl_prior(ds):
    """the model's own joint prior on [X; X*] and train noise, per batch element, as floats/Fractions"""
    model, lik, X, Xs, y = build(ds)
    model.train(); lik.train()
    N, T = ds["N"], ds["T"]
    with torch.no_grad(), gs.debug(False):
        joint = model.forward(torch.cat([X, Xs], -2))
        KJ, mu = joint.covariance_matrix, joint.mean.reshape(*joint.mean.shape[:joint.mean.dim() - (2 if T > 1 else 1)], -1)
        A = lik(model.forward(X), X).covariance_matrix
    out = []
    for b in range(ds["B"] or 1):
        KJb, mub, Ab = (KJ[b], mu[b], A[b]) if ds["B"] else (KJ, mu, A)
        S = [[C.frac(Ab[i, j].item()) - C.frac(KJb[i, j].item()) for j in range(N)] for i in range(N)]
        out.append((KJb.tolist(), mub.tolist(), S))
    return out


def policy(p, fpv):
    return _multi(gs.observation_nan_policy(p), gs.fast_pred_var(fpv), gs.max_root_decomposition_size(100))


class _multi:
    def __init__(self, *cms):
        self.cms = cms

    def __enter__(self):
        for c in self.cms:
            c.__enter__()

    def __exit__(self, *a):
        for c in reversed(self.cms):
            c.__exit__(*a)
        return False


def predict(model, Xs, ds):
    post = model(Xs)
    B = ds["B"] or 1
    mean = post.mean.reshape(B, -1).tolist()
    cov = post.covariance_matrix.reshape(B, ds["t"] * ds["T"], ds["t"] * ds["T"]).tolist()
    return mean, cov


# a history = the sequence of settings under which ONE eval-mode model object is called.  A step is a policy name,
# optionally followed by "~": fast_pred_var is then the OPPOSITE of the history's base value for that call (the setting is
# toggled in between).  'ignore' (the default policy) as a first or intermediate step: with NaN targets such a call returns
# NaNs, which is not compared - but the NEXT call under mask / fill must be the deletion posterior all the same.
HISTORIES = [("mask", "fill", "mask", "fill"), ("fill", "ignore~", "mask", "mask~"),
             ("ignore", "mask", "fill~"), ("ignore~", "fill", "mask")]


def step_policy(step):
    return step.rstrip("~")


def step_fpv(step, fpv):
    return (not fpv) if step.endswith("~") else fpv


def impl_predictions(ds, pattern, fpv):
    """for each history of policies on ONE model object: every prediction (mean, cov) per batch element,
    keyed by the history prefix that produced it"""
    res = {}
    for h in HISTORIES:
        model, lik, X, Xs, y = build(ds, pattern)
        model.eval(); lik.eval()
        with torch.no_grad():
            for i, p in enumerate(h):
                with policy(step_policy(p), step_fpv(p, fpv)):
                    res["/".join(h[:i + 1])] = predict(model, Xs, ds)
    return res


def impl_mll(ds, pattern):
    """(value under 'mask', sum of prior terms, what happens under 'fill')"""
    model, lik, X, Xs, y = build(ds, pattern)
    model.train(); lik.train()
    mll = gpytorch.mlls.ExactMarginalLogLikelihood(lik, model)
    with torch.no_grad():
        with gs.observation_nan_policy("mask"):
            v = mll(model(X), y)
        prior = 0.0
        for _, module, pr, closure, _ in model.named_priors():
            prior = prior + pr.log_prob(closure(module)).sum().item()
        try:
            with gs.observation_nan_policy("fill"):
                f = mll(model(X), y)
            fill = "nan" if bool(torch.isnan(f).any()) else "value"
        except Exception as e:
            fill = type(e).__name__
    return v.reshape(-1).tolist(), prior, fill


def impl_mll_deleted(ds, pattern):
    """property-level oracle (single-output, non-batch): the model trained on the observed subset"""
    obs = [i for i, m in enumerate(pattern) if not m]
    d2 = dict(ds, X=[ds["X"][i] for i in obs], y=[ds["y"][i] for i in obs], n=len(obs), N=len(obs))
    # per-point noise must be deleted together with the points
    model, lik, X, Xs, y = build(d2, noise=fixed_noise(ds["hseed"], ds["n"])[obs] if ds["fam"] == "fixednoise" else None)
    model.train(); lik.train()
    mll = gpytorch.mlls.ExactMarginalLogLikelihood(lik, model)
    with torch.no_grad():
        v = mll(model(X), y).item()
        model.eval(); lik.eval()
        mean, cov = predict(model, Xs, d2)
    return v, mean[0], cov[0]


def ylit(yflat):
    return "[" + "; ".join("None" if v != v else "Some %s" % C.qc_lit(v) for v in yflat) + "]"


def coq_case(N, tt, KJ, mu, S, yflat):
    return "(%d%%nat, %d%%nat, %s, %s, %s, %s)" % (N, tt, C.qc_mat(KJ), C.qc_vec(mu), C.qc_mat(S), ylit(yflat))


def coq_case_fill(N, tt, KJ, mu, S, yflat):
    return "(%d%%nat, %d%%nat, %s, %s, %s, %s, %s)" % (N, tt, C.qc_mat(KJ), C.qc_vec(mu), C.qc_mat(S), ylit(yflat),
                                                       C.qc_lit(FILL))


def coq_case_coded(N, tt, KJ, S):
    return "(%d%%nat, %d%%nat, %s, %s)" % (N, tt, C.qc_mat(KJ), C.qc_mat(S))


def decode(r, tt):
    rd = C.Reader(r)
    if rd.int() != 1:
        return None
    d = dict(k=rd.int())
    d["del_mean"] = rd.qs(tt); d["del_cov"] = rd.qmat(tt, tt)
    d["mask_mean"] = rd.qs(tt); d["mask_cov"] = rd.qmat(tt, tt)
    d["logprob"] = float(rd.expr())
    assert rd.done()
    return d


def decode_del(r, tt):
    rd = C.Reader(r)
    if rd.int() != 1:
        return None
    d = dict(k=rd.int())
    d["del_mean"] = rd.qs(tt); d["del_cov"] = rd.qmat(tt, tt)
    d["logprob"] = float(rd.expr())
    assert rd.done()
    return d


def decode_fill(r, tt):
    rd = C.Reader(r)
    if rd.int() != 1:
        return None
    d = dict(fill_mean=rd.qs(tt), fill_cov=rd.qmat(tt, tt), hist_fm=rd.qs(tt), hist_mfmf=rd.qs(tt))
    assert rd.done()
    return d


def decode_settings(r, tt):
    """run_settings: mean / covariance of a call under mask resp. fill after the history [ignore; fill + fast_pred_var;
    ignore + fast_pred_var] on the model of the prediction strategy's state (Models/C16_settings.v)"""
    rd = C.Reader(r)
    if rd.int() != 1:
        return None
    if len(r) != 1 + 2 * (2 * tt + 2 * tt * tt):      # a NaN mean prints one entry instead of tt rationals
        return dict(bad=True)
    d = dict(mask_mean=rd.qs(tt), mask_cov=rd.qmat(tt, tt), fill_mean=rd.qs(tt), fill_cov=rd.qmat(tt, tt))
    assert rd.done()
    return d


def decode_coded(r, tt):
    rd = C.Reader(r)
    if rd.int() != 1:
        return None
    return rd.qmat(tt, tt)


def balanced(terms, costs, bins=16):
    """order the Coq cases so that contiguous shards of equal size carry similar cost; returns
    (permuted terms, shard size, inverse map: position of original case i in the permuted list)"""
    n = len(terms)
    if n == 0:
        return [], 1, []
    bins = min(bins, n)
    order = sorted(range(n), key=lambda i: -costs[i])
    size = (n + bins - 1) // bins
    slots = [[] for _ in range(bins)]
    for r, i in enumerate(order):   # snake order over the bins
        rnd, pos = divmod(r, bins)
        slots[pos if rnd % 2 == 0 else bins - 1 - pos].append(i)
    flat, where = [], {}
    for sl in slots:
        for i in sl:
            where[i] = len(flat)
            flat.append(terms[i])
        while len(flat) % size and sl is not slots[-1]:
            flat.append(terms[order[-1]])     # pad with the cheapest case
    return flat, size, [where[i] for i in range(n)]


def run_coq(tag, run_def, terms, costs, bins=16):
    flat, size, where = balanced(terms, costs, bins)
    if not flat:
        return []
    res = C.coq_run_cases(tag + TAGSFX, IMPORTS, run_def, flat, shard=size)
    return [res[w] for w in where]


def vec_close(a, b, tol):
    return all(C.close(x, y, tol, tol) for x, y in zip(a, b))


def mat_close(a, b, tol):
    return all(vec_close(r, s, tol) for r, s in zip(a, b))


def has_nan(x):
    return any(v != v for v in (x if not isinstance(x[0], list) else [u for r in x for u in r]))


def flt(m):
    return [[float(v) for v in r] for r in m] if isinstance(m[0], list) else [float(v) for v in m]


def patterns_for(ds, rng, tier):
    """all NaN patterns (1 = missing) on the event, minus all-missing; for batch: pairs"""
    N = ds["N"]
    allp = [list(p) for p in itertools.product([0, 1], repeat=N) if not all(p)]
    if not ds["B"]:
        return [[p] for p in allp], True
    pairs = [[p, q] for p in allp for q in allp]
    # the union must leave at least one observation (mask deletes the union)
    pairs = [pq for pq in pairs if not all(a or b for a, b in zip(*pq))]
    cap = 60 if tier == "quick" else 400
    if len(pairs) <= cap:
        return pairs, True
    return rng.sample(pairs, cap), False


def check_case(out, ds, pattern, models, fpv_list):
    """pattern: list over batch elements of 0/1 lists; models: decoded Coq results, one per
    (batch element, effective pattern) -> dict with keys 'mask' (union pattern) and 'fill' (own)"""
    fam, tt = ds["fam"], ds["t"] * ds["T"]
    desc = dict(ds=ds, pattern=pattern)
    for fpv in fpv_list:
        try:
            preds = impl_predictions(ds, pattern, fpv)
        except Exception as e:
            out.fail("impl-exception:predict:%s:%s:fpv=%d" % (fam, type(e).__name__, fpv),
                     "prediction under a NaN policy raised %r" % e, dict(desc, fpv=fpv))
            continue
        for h, (means, covs) in preds.items():
            last = h.split("/")[-1]
            pol, fpv_now = step_policy(last), step_fpv(last, fpv)
            tol = TOL_FPV if fpv_now else TOL
            hk = "fresh" if "/" not in h else "after-" + "-".join(h.split("/")[:-1])
            for b in range(ds["B"] or 1):
                if pol == "ignore":
                    # the default policy: compared only for a batch element without any NaN (then nothing is to be
                    # deleted and the element must be its own full posterior: models[b]["fill"] is the element's own pattern)
                    if any(pattern[b]):
                        continue
                    m = models[b]["fill"]
                else:
                    m = models[b][pol]
                d = dict(desc, history=h, fpv=fpv, b=b)
                if has_nan(means[b]) or has_nan(covs[b]):
                    out.fail("nan-in-output:%s:%s" % (pol, hk), "NaN in the posterior under policy %s" % pol, d,
                             impl=dict(mean=means[b], cov=covs[b]))
                    continue
                if not vec_close(means[b], m["del_mean"], tol):
                    out.fail("posterior-mean:%s:%s:%s:fpv=%d" % (pol, hk, fam, fpv_now),
                             "posterior mean under policy '%s' differs from the mean after deleting the NaN "
                             "observations" % pol, d, impl=means[b], model=flt(m["del_mean"]))
                if not mat_close(covs[b], m["del_cov"], tol):
                    if mat_close(covs[b], m["coded_cov"], tol):
                        key = "posterior-cov:unmasked-train-rows:%s" % pol
                        what = ("posterior covariance under policy '%s' is computed from ALL training rows, NaN "
                                "ones included (equals the no-mask formula, differs from deletion)" % pol)
                    else:
                        key = "posterior-cov:%s:%s:%s:fpv=%d" % (pol, hk, fam, fpv_now)
                        what = ("posterior covariance under policy '%s' differs from the covariance after deleting "
                                "the NaN observations" % pol)
                    out.fail(key, what, d, impl=covs[b], model=flt(m["del_cov"]))


def check_mll(out, ds, pattern, models):
    fam = ds["fam"]
    desc = dict(ds=ds, pattern=pattern)
    try:
        vals, prior, fill = impl_mll(ds, pattern)
    except Exception as e:
        out.fail("impl-exception:mll:%s:%s" % (fam, type(e).__name__), "ExactMarginalLogLikelihood under 'mask' raised %r" % e,
                 desc)
        return
    if fill not in ("ValueError",):
        out.fail("mll-fill:%s" % fill, "ExactMarginalLogLikelihood under 'fill' neither raised the documented ValueError "
                 "nor is covered by the property (outcome: %s)" % fill, desc)
    N = ds["N"]
    for b in range(ds["B"] or 1):
        m = models[b]["mask"]
        # batch models: the priors are summed over the batch by named_priors closure -> only unbatched prior families
        want = (m["logprob"] + prior) / N
        if vals[b] != vals[b]:
            out.fail("nan-in-output:mll", "NaN MLL under policy mask", dict(desc, b=b), impl=vals)
        elif not C.close(vals[b], want, 1e-8, 1e-8):
            out.fail("mll-mask:%s" % fam, "MLL under 'mask' times N_total differs from log N(y_obs; m_obs, A_obs) + priors",
                     dict(desc, b=b), impl=vals[b], model=want)
    if fam in ("gaussian", "fixednoise", "prior"):
        k = N - sum(pattern[0])
        vd, mean_d, cov_d = impl_mll_deleted(ds, pattern[0])
        if not C.close(vals[0] * N, vd * k, 1e-8, 1e-8):
            out.fail("mll-rescaled:%s" % fam, "mask_MLL * N_total != deleted_MLL * N_observed on the implementation",
                     desc, impl=vals[0] * N, model=vd * k)
        # the oracle itself: a gpytorch model trained on the deleted data set agrees with the Coq deletion model
        m = models[0]["mask"]
        if not (vec_close(mean_d, m["del_mean"], TOL) and mat_close(cov_d, m["del_cov"], TOL)):
            out.fail("oracle:deleted-model:%s" % fam, "gpytorch on the deleted data set disagrees with the Coq deletion "
                     "model (machinery or C01 problem)", desc, impl=dict(mean=mean_d, cov=cov_d),
                     model=dict(mean=flt(m["del_mean"]), cov=flt(m["del_cov"])))


def model_self_check(out, ds, pattern, m, b):
    """the theorems say these coincide; a disagreement here means the build is inconsistent"""
    desc = dict(ds=ds, pattern=pattern, b=b)
    a = m.get("ascoded")
    bad = a is not None and (a["mask_mean"] != m["del_mean"] or a["mask_cov"] != m["del_cov"]
                             or a["del_mean"] != m["del_mean"] or a["del_cov"] != m["del_cov"]
                             or abs(a["logprob"] - m["logprob"]) > 1e-12 * (1 + abs(m["logprob"])))
    f = m.get("fillrun")
    if f is not None:
        bad = bad or f["fill_mean"] != m["del_mean"] or f["fill_cov"] != m["del_cov"] \
            or f["hist_fm"] != m["del_mean"] or f["hist_mfmf"] != m["del_mean"]
    g = m.get("settingsrun")
    if g is not None:
        bad = bad or g.get("bad") or g["mask_mean"] != m["del_mean"] or g["fill_mean"] != m["del_mean"] \
            or g["mask_cov"] != m["del_cov"] or g["fill_cov"] != m["del_cov"]
    if bad:
        out.fail("model:self-consistency", "executable model contradicts its theorems (exact rationals differ)", desc,
                 no_input=True)


# ------------------------------------------------------------------ Gaussian likelihood terms

def gauss_cases(rng, tier):
    """(n, T, pattern, y, m, V, noise...) for expected_log_prob / log_marginal"""
    cases = []
    nmax = 5 if tier == "quick" else 6
    for n in range(1, nmax + 1):
        for p in itertools.product([0, 1], repeat=n):
            if all(p):
                continue
            cases.append(dict(n=n, T=1, pattern=list(p), hseed=rng.randint(0, 10 ** 9)))
            if rng.random() < 0.6:
                cases[-1]["sent"] = draw_sentinels(rng, [i for i, q in enumerate(p) if not q])
    for n, T in ((1, 2), (2, 2), (3, 2)) if tier == "quick" else ((1, 2), (2, 2), (3, 2), (2, 3)):
        allp = [list(p) for p in itertools.product([0, 1], repeat=n * T) if not all(p)]
        for p in allp:
            cases.append(dict(n=n, T=T, pattern=p, hseed=rng.randint(0, 10 ** 9)))
            if rng.random() < 0.6:
                cases[-1]["sent"] = draw_sentinels(rng, [i for i, q in enumerate(p) if not q])
    return cases


def gauss_build(c):
    rng = random.Random(c["hseed"])
    n, T = c["n"], c["T"]
    N = n * T
    y = torch.tensor([rng.randint(-16, 16) / 8.0 for _ in range(N)])
    m = torch.tensor([rng.randint(-16, 16) / 8.0 for _ in range(N)])
    for i, kind in c.get("sent") or []:        # observed targets colliding with the implementation's marker values
        y[i] = sentinel_value(kind, m[i].item())
    y[torch.tensor(c["pattern"], dtype=torch.bool)] = NAN
    L = torch.tensor([[rng.randint(-8, 8) / 8.0 if j <= i else 0.0 for j in range(N)] for i in range(N)])
    V = L @ L.T + 0.25 * torch.eye(N)
    if T == 1:
        kind = rng.choice(["gaussian", "fixed"])
        if kind == "gaussian":
            lik = gpytorch.likelihoods.GaussianLikelihood(); lik.noise = rng.randint(1, 16) / 16.0
            noise = [lik.noise.item()] * N
        else:
            nz = torch.tensor([rng.randint(1, 16) / 16.0 for _ in range(N)])
            lik = gpytorch.likelihoods.FixedNoiseGaussianLikelihood(nz)
            noise = nz.tolist()
        dist = gpytorch.distributions.MultivariateNormal(m, V)
        tgt = y
    else:
        lik = gpytorch.likelihoods.MultitaskGaussianLikelihood(num_tasks=T, rank=0)
        lik.noise = rng.randint(1, 8) / 16.0
        tn = [rng.randint(1, 8) / 16.0 for _ in range(T)]
        lik.task_noises = torch.tensor(tn)
        noise = [lik.noise.item() + lik.task_noises[j].item() for _ in range(n) for j in range(T)]
        dist = gpytorch.distributions.MultitaskMultivariateNormal(m.view(n, T), V)
        tgt = y.view(n, T)
    return lik, dist, tgt, y.tolist(), m.tolist(), torch.diagonal(V).tolist(), noise


def gauss_impl(c):
    lik, dist, tgt, *_ = gauss_build(c)
    res = {}
    with torch.no_grad():
        for pol in ("mask", "fill"):
            with gs.observation_nan_policy(pol):
                res["elp:" + pol] = lik.expected_log_prob(tgt, dist).reshape(-1).tolist()
                res["lmarg:" + pol] = lik.log_marginal(tgt, dist).reshape(-1).tolist()
    return res


def gauss_coq_case(c):
    _, _, _, y, m, v, noise = gauss_build(c)
    ys = "[" + "; ".join("None" if a != a else "Some %s" % C.qc_lit(a) for a in y) + "]"
    return "(%d%%nat, %s, %s, %s, %s, %s)" % (c["n"] * c["T"], ys, C.qc_vec(m), C.qc_vec(v), C.qc_vec(noise),
                                            C.qc_lit(FILL))


def gauss_check(out, c, r):
    n, T = c["n"], c["T"]
    N = n * T
    rd = C.Reader(r)
    k = rd.int()
    model = {"elp:mask": [float(rd.expr()) for _ in range(k)], "elp:fill": [float(rd.expr()) for _ in range(N)]}
    model["lmarg:mask"] = [float(rd.expr()) for _ in range(k)]
    model["lmarg:fill"] = [float(rd.expr()) for _ in range(N)]
    assert rd.done() and k == N - sum(c["pattern"])
    try:
        impl = gauss_impl(c)
    except Exception as e:
        out.fail("impl-exception:gauss:%s" % type(e).__name__, "Gaussian likelihood term under a NaN policy raised %r" % e, c)
        return
    for key, got in impl.items():
        want = model[key]
        if key.endswith("fill") and T > 1:   # the code sums over the task dimension
            want = [sum(want[i * T:(i + 1) * T]) for i in range(n)]
        if has_nan(got):
            out.fail("nan-in-output:%s" % key, "NaN in %s" % key, c, impl=got)
        elif len(got) != len(want) or not vec_close(got, want, 1e-9):
            out.fail("gauss-term:%s:%s" % (key, "multitask" if T > 1 else "single"),
                     "%s differs from the terms of the observed points (deletion)" % key, c, impl=got, model=want)
        # summed: equals the deleted data set's total whichever policy
        tot = sum(model[key.split(":")[0] + ":mask"])
        if not has_nan(got) and not C.close(sum(got), tot, 1e-9, 1e-9):
            out.fail("gauss-term-sum:%s" % key, "sum of %s differs from the deleted data set's" % key, c,
                     impl=sum(got), model=tot)


# ---- batched targets: 'mask' deletes the UNION of the batch elements' NaN indices, 'fill' works per element

def gauss_batch_cases(rng, tier):
    cases = []
    for n, T in ((2, 1), (3, 1), (2, 2)) if tier == "quick" else ((2, 1), (3, 1), (4, 1), (2, 2), (3, 2)):
        N = n * T
        allp = [list(p) for p in itertools.product([0, 1], repeat=N) if not all(p)]
        pairs = [[p, q] for p in allp for q in allp if not all(a or b for a, b in zip(p, q)) and (any(p) or any(q))]
        cap = 24 if tier == "quick" else 120
        if len(pairs) > cap:
            pairs = rng.sample(pairs, cap)
        for pq in pairs:
            cases.append(dict(n=n, T=T, B=2, pattern=pq, hseed=rng.randint(0, 10 ** 9)))
            if rng.random() < 0.6:             # per batch element: observed targets colliding with marker values
                cases[-1]["sent"] = [draw_sentinels(rng, [i for i, q in enumerate(p) if not q]) for p in pq]
    return cases


def gauss_batch_build(c):
    rng = random.Random(c["hseed"])
    n, T, B = c["n"], c["T"], c["B"]
    N = n * T
    ys, ms, Vs = [], [], []
    for b in range(B):
        y = torch.tensor([rng.randint(-16, 16) / 8.0 for _ in range(N)])
        m = torch.tensor([rng.randint(-16, 16) / 8.0 for _ in range(N)])
        for i, kind in (c["sent"][b] if c.get("sent") else []):
            y[i] = sentinel_value(kind, m[i].item())
        y[torch.tensor(c["pattern"][b], dtype=torch.bool)] = NAN
        L = torch.tensor([[rng.randint(-8, 8) / 8.0 if j <= i else 0.0 for j in range(N)] for i in range(N)])
        ys.append(y); ms.append(m); Vs.append(L @ L.T + 0.25 * torch.eye(N))
    y, m, V = torch.stack(ys), torch.stack(ms), torch.stack(Vs)
    if T == 1:
        lik = gpytorch.likelihoods.GaussianLikelihood(); lik.noise = rng.randint(1, 16) / 16.0
        noise = [lik.noise.item()] * N
        dist = gpytorch.distributions.MultivariateNormal(m, V)
        tgt = y
    else:
        lik = gpytorch.likelihoods.MultitaskGaussianLikelihood(num_tasks=T, rank=0)
        lik.noise = rng.randint(1, 8) / 16.0
        lik.task_noises = torch.tensor([rng.randint(1, 8) / 16.0 for _ in range(T)])
        noise = [lik.noise.item() + lik.task_noises[j].item() for _ in range(n) for j in range(T)]
        dist = gpytorch.distributions.MultitaskMultivariateNormal(m.view(B, n, T), V)
        tgt = y.view(B, n, T)
    return lik, dist, tgt, y.tolist(), m.tolist(), [torch.diagonal(Vb).tolist() for Vb in V], noise


def gauss_batch_impl(c):
    lik, dist, tgt, *_ = gauss_batch_build(c)
    res = {}
    with torch.no_grad():
        for pol in ("mask", "fill"):
            with gs.observation_nan_policy(pol):
                res["elp:" + pol] = lik.expected_log_prob(tgt, dist).reshape(c["B"], -1).tolist()
                res["lmarg:" + pol] = lik.log_marginal(tgt, dist).reshape(c["B"], -1).tolist()
    return res


def gauss_batch_coq_cases(c):
    """per batch element two model runs: targets with the UNION pattern (what 'mask' deletes) and with the
    element's own pattern (what 'fill' deletes)"""
    _, _, _, y, m, v, noise = gauss_batch_build(c)
    N = c["n"] * c["T"]
    union = [any(p[i] for p in c["pattern"]) for i in range(N)]
    terms = []
    for b in range(c["B"]):
        for yy in ([NAN if u else a for a, u in zip(y[b], union)], y[b]):
            ys = "[" + "; ".join("None" if a != a else "Some %s" % C.qc_lit(a) for a in yy) + "]"
            terms.append("(%d%%nat, %s, %s, %s, %s, %s)" % (N, ys, C.qc_vec(m[b]), C.qc_vec(v[b]), C.qc_vec(noise), C.qc_lit(FILL)))
    return terms


def gauss_batch_check(out, c, rs):
    n, T, B = c["n"], c["T"], c["B"]
    N = n * T

    def dec(r):
        rd = C.Reader(r)
        k = rd.int()
        d = {"elp:mask": [float(rd.expr()) for _ in range(k)], "elp:fill": [float(rd.expr()) for _ in range(N)]}
        d["lmarg:mask"] = [float(rd.expr()) for _ in range(k)]
        d["lmarg:fill"] = [float(rd.expr()) for _ in range(N)]
        assert rd.done()
        return d
    try:
        impl = gauss_batch_impl(c)
    except Exception as e:
        out.fail("impl-exception:gauss-batch:%s" % type(e).__name__, "batched Gaussian likelihood term under a NaN policy raised %r" % e, c)
        return
    for b in range(B):
        m_union, m_own = dec(rs[2 * b]), dec(rs[2 * b + 1])
        for key, gotb in impl.items():
            got = gotb[b]
            if key.endswith("mask"):
                want = m_union[key]
            else:
                want = m_own[key]
                if T > 1:
                    want = [sum(want[i * T:(i + 1) * T]) for i in range(n)]
            cc = dict(c, b=b)
            if has_nan(got):
                out.fail("nan-in-output:%s:batch" % key, "NaN in %s (batched targets)" % key, cc, impl=got)
            elif len(got) != len(want) or not vec_close(got, want, 1e-9):
                out.fail("gauss-term:%s:%s:batch" % (key, "multitask" if T > 1 else "single"),
                         "%s of batch element %d differs from the terms of the points that are observed (mask: in every batch "
                         "element; fill: in this element)" % (key, b), cc, impl=got, model=want)


# ------------------------------------------------------------------ main

def effective(ds, pattern):
    """per batch element: the pattern deletion refers to under each policy"""
    union = [int(any(p[i] for p in pattern)) for i in range(ds["N"])]
    return [dict(mask=union, fill=p) for p in pattern]


def plan(tier, rng):
    """datasets: (family, n)"""
    dsl = []
    if tier == "quick":
        sizes = {"gaussian": [1, 2, 3, 4, 5], "fixednoise": [2, 3, 4, 5], "prior": [3, 4], "multitask": [1, 2], "batch": [2, 3]}
    else:
        sizes = {"gaussian": [1, 2, 3, 4, 5, 6], "fixednoise": [2, 3, 4, 5, 6], "prior": [3, 4, 5], "multitask": [1, 2, 3],
                 "batch": [2, 3, 4]}
    for fam in FAMILIES:
        for n in sizes[fam]:
            dsl.append(gen_dataset(rng, fam, n))
    # data sets whose OBSERVED targets collide with the implementation's marker values (fill value, 0, offset from the
    # prior mean equal to the fill value): every NaN pattern again, so that the colliding targets are observed in many
    # of them (and there are patterns without any NaN)
    if tier == "quick":
        ssizes = {"gaussian": [2, 4], "fixednoise": [3], "prior": [3], "multitask": [2], "batch": [2]}
    else:
        ssizes = {"gaussian": [2, 3, 4, 5], "fixednoise": [3, 4, 5], "prior": [3, 4], "multitask": [2, 3], "batch": [2, 3]}
    for fam in FAMILIES:
        for n in ssizes[fam]:
            dsl.append(add_sentinels(gen_dataset(rng, fam, n), rng))
    return dsl


def ybatch(ds):
    B = ds["B"] or 1
    return [torch.tensor(ds["y"]).reshape(B, -1)[b].tolist() for b in range(B)]


def needed(ds, pats):
    """distinct (batch element, effective pattern) pairs"""
    need = set()
    for pattern in pats:
        for b, eff in enumerate(effective(ds, pattern)):
            for pol in ("mask", "fill"):
                need.add((b, tuple(eff[pol])))
    return sorted(need)


def run_all_models(tag, work, rng, budget):
    """work: list of (ds, pats).  Returns per work item dict[(b, pattern)] -> decoded deletion model
    (the specification: run_deletion) with 'coded_cov' (the OLD unmasked formula, for labelling) and - for a
    subset: every pattern on N <= 3, `budget` sampled patterns per larger data set - 'ascoded' (run_missing:
    the mean / covariance / MLL of the CURRENT code's model under 'mask') and 'fillrun' (run_fill: the
    same under 'fill' and after policy histories) attached.  The theorems say those coincide with
    deletion; the subset re-checks that on the executable model."""
    t_d, c_d, t_m, c_m, t_f, c_f, t_c, c_c, idx, c_s = [], [], [], [], [], [], [], [], [], []
    for ds, pats in work:
        N, tt = ds["N"], ds["t"] * ds["T"]
        priors, yb = impl_prior(ds), ybatch(ds)
        keys = needed(ds, pats)
        big = [k for k in keys if N > 3]
        chosen = set(k for k in keys if N <= 3) | set(rng.sample(big, min(len(big), budget)))
        ent = dict(keys=keys, d0=len(t_d), f={}, c0=len(t_c))
        for b, p in keys:
            KJ, mu, S = priors[b]
            y = [NAN if miss else v for v, miss in zip(yb[b], p)]
            k = N - sum(p)
            t_d.append(coq_case(N, tt, KJ, mu, S, y)); c_d.append(k ** 4 + 1)
            if (b, p) in chosen:
                ent["f"][(b, p)] = len(t_f)
                t_m.append(coq_case(N, tt, KJ, mu, S, y)); c_m.append(k ** 4 + 1)
                t_f.append(coq_case_fill(N, tt, KJ, mu, S, y)); c_f.append(k ** 4 + N ** 3 + 1); c_s.append(N ** 4)
        for b in range(ds["B"] or 1):
            KJ, mu, S = priors[b]
            t_c.append(coq_case_coded(N, tt, KJ, S)); c_c.append(N ** 4 + 1)
        idx.append(ent)
    # the deletion batch first (16 shards), then the three small batches together
    from concurrent.futures import ThreadPoolExecutor
    r_d = run_coq(tag, RUN_DEF_D, t_d, c_d)
    with ThreadPoolExecutor(4) as ex:
        fm = ex.submit(run_coq, tag + "m", RUN_DEF, t_m, c_m, 6)
        ff = ex.submit(run_coq, tag + "f", RUN_DEF_F, t_f, c_f, 6)
        fs = ex.submit(run_coq, tag + "s", RUN_DEF_S, t_f, [c + n3 for c, n3 in zip(c_f, c_s)], 6)
        fc = ex.submit(run_coq, tag + "c", RUN_DEF_C, t_c, c_c, 4)
        r_m, r_f, r_s, r_c = fm.result(), ff.result(), fs.result(), fc.result()
    outl = []
    for (ds, pats), ent in zip(work, idx):
        tt = ds["t"] * ds["T"]
        dec = {}
        for j, key in enumerate(ent["keys"]):
            d = decode_del(r_d[ent["d0"] + j], tt)
            coded = decode_coded(r_c[ent["c0"] + key[0]], tt)
            if d is not None and coded is not None:
                d["coded_cov"] = coded
                if key in ent["f"]:
                    d["ascoded"] = decode(r_m[ent["f"][key]], tt)
                    d["fillrun"] = decode_fill(r_f[ent["f"][key]], tt)
                    d["settingsrun"] = decode_settings(r_s[ent["f"][key]], tt)
                    if d["fillrun"] is None or d["ascoded"] is None or d["settingsrun"] is None:
                        d = None
            else:
                d = None
            dec[key] = d
        outl.append(dec)
    return outl


def run(out, ctx):
    tier, seed = ctx["tier"], ctx["seed"]
    rng = random.Random(seed * 104729 + 16)
    torch.manual_seed(seed)
    dsl = plan(tier, rng)
    out.rule = ("per data set (families gaussian / fixed-noise / with priors / multitask T=2 / batch B=2; n up to %d "
                "train points) ALL NaN patterns on the flattened targets except all-missing (batch: pairs of patterns, "
                "capped); each under policies mask/fill, every step of the histories %s on one model object (a step "
                "'ignore' = a call under the default policy: compared only for batch elements without NaN, the calls after it "
                "always; '~' = fast_pred_var toggled for that call), base fast_pred_var off/on; every output is compared with the Coq deletion posterior (exact rationals) of the "
                "same kernel matrices; non-trivial = at least one missing value and the deletion covariance differs "
                "from the no-mask covariance by > 1e-6.  Sentinel axis: additional data sets of every family (and 60%% of "
                "the Gaussian-term cases) carry OBSERVED targets equal to the fill value %r (read from "
                "settings.observation_nan_policy._fill_value), to 0, or with target - mean equal to the fill value; "
                "deletion semantics treats them as ordinary observations under both policies"
                % (5 if tier == "quick" else 6, ["/".join(h) for h in HISTORIES], FILL))
    out.extra["tolerances"] = {"dense": TOL, "fast_pred_var (full-rank Lanczos)": TOL_FPV, "gaussian terms": 1e-9}
    work, exhaustive = [], True
    for ds in dsl:
        pats, ex = patterns_for(ds, rng, tier)
        exhaustive = exhaustive and ex
        work.append((ds, pats))
    decs = run_all_models("C16", work, rng, 2 if tier == "quick" else 12)
    for (ds, pats), dec in zip(work, decs):
        tt = ds["t"] * ds["T"]
        for pattern in pats:
            nmiss = sum(sum(p) for p in pattern)
            desc = dict(fam=ds["fam"], n=ds["n"], T=ds["T"], B=ds["B"], pattern=pattern)
            if ds.get("sent"):
                desc["sent"] = ds["sent"]
            models, bad = [], False
            for b, eff in enumerate(effective(ds, pattern)):
                d = {pol: dec[(b, tuple(eff[pol]))] for pol in ("mask", "fill")}
                if d["mask"] is None or d["fill"] is None:
                    out.fail("model:singular", "model could not invert a train covariance (exact rational)",
                             dict(ds=ds, pattern=pattern), no_input=False)
                    bad = True
                    break
                for pol in ("mask", "fill"):
                    model_self_check(out, ds, pattern, d[pol], b)
                models.append(d)
            if bad:
                continue
            nontrivial = nmiss > 0 and any(
                abs(float(models[b][pol]["del_cov"][i][i] - models[b][pol]["coded_cov"][i][i])) > 1e-6
                for b in range(len(models)) for pol in ("mask", "fill") for i in range(tt))
            out.case(desc, nontrivial, label="family=" + ds["fam"])
            out.count("n=%d" % ds["N"]); out.count("missing=%d" % nmiss)
            if ds.get("sent"):
                obs_sent = sum(1 for i, _ in ds["sent"] if not pattern[i // ds["N"]][i % ds["N"]])
                out.count("sentinel-valued targets in the data set: %s" % ("some observed" if obs_sent else "all NaN-ed"))
            check_case(out, ds, pattern, models, (False, True))
            check_mll(out, ds, pattern, models)
    out.exhaustive = exhaustive
    # Gaussian likelihood terms
    gc = gauss_cases(rng, tier)
    gres = C.coq_run_cases("C16g" + TAGSFX, IMPORTS, RUN_DEF_G, [gauss_coq_case(c) for c in gc], shard=max(1, (len(gc) + 15) // 16))
    for c, r in zip(gc, gres):
        out.case(dict(kind="gauss-terms", n=c["n"], T=c["T"], pattern=c["pattern"], sent=c.get("sent")),
                 sum(c["pattern"]) > 0 or bool(c.get("sent")), label="gauss-terms T=%d" % c["T"])
        if c.get("sent"):
            out.count("gauss-terms with observed sentinel-valued targets")
        gauss_check(out, c, r)
    gb = gauss_batch_cases(rng, tier)
    gbt = [t for c in gb for t in gauss_batch_coq_cases(c)]
    gbres = C.coq_run_cases("C16gb" + TAGSFX, IMPORTS, RUN_DEF_G, gbt, shard=max(1, (len(gbt) + 15) // 16))
    for i, c in enumerate(gb):
        out.case(dict(kind="gauss-terms-batch", n=c["n"], T=c["T"], pattern=c["pattern"], sent=c.get("sent")), True,
                 label="gauss-terms batch T=%d" % c["T"])
        gauss_batch_check(out, c, gbres[4 * i:4 * i + 4])
    out.tested_not_proved = [
        "agreement of torch/linear_operator numerics (Cholesky, MaskedLinearOperator, Lanczos) with exact algebra",
        "batch reading of 'mask' (union of the batch elements' NaN patterns) is taken from the settings docstring",
        "ExactMarginalLogLikelihood under 'fill' raises the documented ValueError (not a value to compare)"]


def replay(path):
    d = json.load(open(path))
    case = d["case"]
    out = C.Outcome("C16", "quick", 0)
    if "ds" not in case and case.get("B"):      # batched gauss-terms case
        case = {k: v for k, v in case.items() if k != "b"}
        rs = C.coq_run_cases("C16_replay", IMPORTS, RUN_DEF_G, gauss_batch_coq_cases(case))
        print("impl ", gauss_batch_impl(case))
        gauss_batch_check(out, case, rs)
    elif "ds" not in case:      # gauss-terms case
        r = C.coq_run_cases("C16_replay", IMPORTS, RUN_DEF_G, [gauss_coq_case(case)])[0]
        print("impl ", gauss_impl(case))
        gauss_check(out, case, r)
    else:
        ds, pattern = case["ds"], case["pattern"]
        dec = run_all_models("C16_replay", [(ds, [pattern])], random.Random(0), 100)[0]
        models = [{pol: dec[(b, tuple(eff[pol]))] for pol in ("mask", "fill")} for b, eff in enumerate(effective(ds, pattern))]
        for b, m in enumerate(models):
            for pol in ("mask", "fill"):
                print("b=%d %s: deletion mean %s" % (b, pol, flt(m[pol]["del_mean"])))
                print("b=%d %s: deletion cov  %s" % (b, pol, flt(m[pol]["del_cov"])))
                print("b=%d %s: no-mask cov   %s" % (b, pol, flt(m[pol]["coded_cov"])))
        fpvs = (bool(case["fpv"]),) if "fpv" in case else (False, True)
        for fpv in fpvs:
            for h, (mean, cov) in impl_predictions(ds, pattern, fpv).items():
                print("impl fpv=%d history=%s mean %s cov %s" % (fpv, h, mean, cov))
        check_case(out, ds, pattern, models, fpvs)
        check_mll(out, ds, pattern, models)
    for f in out.failures:
        print("FAIL", f["key"], "-", f["what"])
    print("FAILS" if out.failures else "agrees")
    return 1 if out.failures else 0
