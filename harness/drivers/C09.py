"""C09 — structure-exploiting kernels and prediction strategies equal their dense meaning.
Tie C.  Families (each case carries everything needed to rebuild it; `replay` re-runs one case):
  multitask : MultitaskKernel / IndexKernel / Hadamard / LCMKernel dense output vs the explicit entry formula
              evaluated by the Coq model (run_multitask / run_lcm, exact rationals)
  interp    : Interpolation.interpolate (Keys cubic weights, boundary snapping, flat index) vs run_interp
  gridkernel: create_data_from_grid rows vs colmajor digits; GridKernel(Toeplitz x Kronecker) dense vs
              run_grid_kernel on the per-dimension first rows and vs the base kernel on the full grid
  kiss      : GridInterpolationKernel(x1,x2).to_dense() vs W1 K_UU W2^T with W from the Coq interpolation model and
              K_UU the product kernel on the grid nodes (order free: defined on multi-indices)
  strategy  : model(x*) in eval mode (KISS-GP, WISKI fantasy, SGPR, RFF) under the settings of the property vs the
              C01 Coq model (run_posterior) on the dense blocks of the SAME approximate kernel
  sgpr      : Nystrom matrix, textbook SGPR predictive equations, Titsias bound vs run_sgpr
  rff       : RFFKernel dense output on every branch (x1 is x2 with 2D < n / 2D >= n, x1 != x2, diag) vs the documented
              (1/D) sum_j cos(w_j . (x - x')) with the kernel's own frequencies (float oracle, TESTED formula)
  converge  : KISS-GP kernel -> base kernel under grid refinement (TESTED only)
  reeval    : evaluate (eval mode) / change parameters through the public API / evaluate again, for the SGPR, KISS-GP and RFF
              models vs run_posterior on the blocks of a fresh model at the new parameters; the gridkernel, kiss and sgpr
              families carry cases with a `reeval` key that do the same on the kernel alone (eval-mode caches)"""
import itertools
import json
import math
import random

import numpy as np
import torch

import gpytorch
from gpytorch import settings as gs
from gpytorch.utils.grid import create_data_from_grid, create_grid
from gpytorch.utils.interpolation import Interpolation
from harness.lib import common as C

COQ_TARGETS = ["Models/C09_structured.vo", "Models/C01_posterior.vo"]
LEVEL_NOTE = ("theorems are about the Gallina model; tie to /repo is differential (public outputs, float64 vs exact "
              "rationals, tolerances in coverage.tolerances); grid-refinement convergence is tested, not proved")
IMPORTS = ("From Coq Require Import List ZArith QArith Qcanon.\n"
           "From GPV Require Import Base.LinAlg Base.Exec Models.C01_posterior Models.C09_structured.")

torch.set_default_dtype(torch.float64)
K = gpytorch.kernels
TOL_DENSE, TOL_ITER = 1e-8, 1e-5


class _multi:
    def __init__(self, *cms):
        self.cms = cms

    def __enter__(self):
        for c in self.cms:
            c.__enter__()

    def __exit__(self, *a):
        for c in reversed(self.cms):
            c.__exit__(*a)
        return False


FLAGS = {
    "cg": lambda: _multi(gs.max_cholesky_size(0), gs.cg_tolerance(1e-12), gs.eval_cg_tolerance(1e-12),
                         gs.max_cg_iterations(2000), gs.min_preconditioning_size(10 ** 6)),
    "fast_pred_var": lambda: _multi(gs.fast_pred_var(True), gs.max_root_decomposition_size(200)),
    "fast_pred_samples": lambda: gs.fast_pred_samples(True),
    "no_sgpr_correction": lambda: gs.sgpr_diagonal_correction(False),
    "no_toeplitz": lambda: gs.use_toeplitz(False),
}


def flags_cm(flags):
    return _multi(*[FLAGS[f]() for f in flags])


def qrow(r):
    return "(@nil Qc)" if len(r) == 0 else C.qc_vec(r)


def qmat(m):
    return "(@nil (list Qc))" if len(m) == 0 else "[" + "; ".join(qrow(r) for r in m) + "]"


def nats(v):
    return "(@nil nat)" if len(v) == 0 else C.nat_list(v)


def maxdiff(a, b):
    a = np.asarray(a, dtype=float)
    b = np.asarray(b, dtype=float)
    if a.shape != b.shape:
        return float("inf")
    if a.size == 0:
        return 0.0
    d = np.abs(a - b) / (1.0 + np.abs(b))
    return float(np.nanmax(d)) if not np.isnan(d).any() else float("inf")


def dy(rng, lo, hi, q=64):
    """dyadic number in [lo, hi]"""
    return rng.randint(int(lo * q), int(hi * q)) / q


def separated(rng, n, d, lo, hi, sep=0.08):
    for _ in range(500):
        pts = [[dy(rng, lo, hi) for _ in range(d)] for _ in range(n)]
        if all(max(abs(a - b) for a, b in zip(p, q)) >= sep for p, q in itertools.combinations(pts, 2)):
            return pts
    return pts


class GP(gpytorch.models.ExactGP):
    def __init__(self, x, y, lik, mean, kern):
        super().__init__(x, y, lik)
        self.mean_module, self.covar_module = mean, kern

    def forward(self, x):
        return gpytorch.distributions.MultivariateNormal(self.mean_module(x), self.covar_module(x))


def base_kernel(name, d, ls):
    if name == "rbf":
        k = K.RBFKernel(ard_num_dims=d)
    else:
        k = K.MaternKernel(nu={"matern15": 1.5, "matern25": 2.5, "matern05": 0.5}[name], ard_num_dims=d)
    k.lengthscale = torch.tensor(ls)
    return k


# =========================================================================== multitask family

def gen_multitask(rng, tier):
    cases = []
    nc = 10 if tier == "quick" else 60
    for kind in ("multitask", "index", "hadamard", "lcm"):
        for _ in range(nc):
            t, n, m, d = rng.randint(1, 3), rng.randint(1, 4), rng.randint(1, 4), rng.randint(1, 2)
            r = rng.randint(0, min(2, t))
            c = dict(family="multitask", kind=kind, n=n, m=m, t=t, r=r, d=d, hseed=rng.randint(0, 10 ** 9),
                     X1=separated(rng, n, d, -2, 2), X2=separated(rng, m, d, -2, 2),
                     i1=[rng.randint(0, t - 1) for _ in range(n)], i2=[rng.randint(0, t - 1) for _ in range(m)])
            if kind == "lcm":
                c["ranks"] = [rng.randint(0, min(2, t)) for _ in range(rng.randint(1, 3))]
            cases.append(c)
    return cases


def _mt_task_params(ik, rng, t, r):
    ik.covar_factor.data = torch.tensor([[dy(rng, -1.5, 1.5) for _ in range(r)] for _ in range(t)]).reshape(t, r)
    ik.var = torch.tensor([dy(rng, 0.1, 2.0) for _ in range(t)])


def mt_impl(c):
    rng = random.Random(c["hseed"])
    X1, X2 = torch.tensor(c["X1"]), torch.tensor(c["X2"])
    t, r = c["t"], c["r"]
    with torch.no_grad():
        if c["kind"] == "lcm":
            bks = []
            for _ in c["ranks"]:
                bks.append(base_kernel(rng.choice(["rbf", "matern15", "matern25"]), c["d"],
                                       [dy(rng, 0.4, 2.0) for _ in range(c["d"])]))
            kern = K.LCMKernel(bks, num_tasks=t, rank=list(c["ranks"]))
            terms = []
            for mk, rq in zip(kern.covar_module_list, c["ranks"]):
                _mt_task_params(mk.task_covar_module, rng, t, rq)
                terms.append((rq, mk.data_covar_module(X1, X2).to_dense().tolist(),
                              mk.task_covar_module.covar_factor.tolist(), mk.task_covar_module.var.tolist()))
            dense = kern(X1, X2).to_dense().tolist()
            return dense, terms
        data = base_kernel("rbf", c["d"], [dy(rng, 0.4, 2.0) for _ in range(c["d"])])
        if c["kind"] == "multitask":
            kern = K.MultitaskKernel(data, num_tasks=t, rank=r)
            ik = kern.task_covar_module
            _mt_task_params(ik, rng, t, r)
            dense = kern(X1, X2).to_dense().tolist()
        else:
            ik = K.IndexKernel(num_tasks=t, rank=r)
            _mt_task_params(ik, rng, t, r)
            i1 = torch.tensor(c["i1"], dtype=torch.long).unsqueeze(-1)
            i2 = torch.tensor(c["i2"], dtype=torch.long).unsqueeze(-1)
            if c["kind"] == "index":
                dense = ik(i1, i2).to_dense().tolist()
            else:
                dense = data(X1, X2).mul(ik(i1, i2)).to_dense().tolist()
        Kx = data(X1, X2).to_dense().tolist()
        return dense, (Kx, ik.covar_factor.tolist(), ik.var.tolist())


def mt_coq(c, aux):
    if c["kind"] == "lcm":
        terms = "; ".join("(%d%%nat, %s, %s, %s)" % (rq, qmat(kx), qmat(f), qrow(v)) for rq, kx, f, v in aux)
        return "lcm", "(%d%%nat, %d%%nat, %d%%nat, [%s])" % (c["n"], c["m"], c["t"], terms)
    kx, f, v = aux
    kind = {"multitask": 0, "index": 1, "hadamard": 2}[c["kind"]]
    return "mt", "(%d%%nat, (%d%%nat, %d%%nat, %d%%nat, %d%%nat), %s, %s, %s, %s, %s)" % (
        kind, c["n"], c["m"], c["t"], c["r"], qmat(kx), qmat(f), qrow(v), nats(c["i1"]), nats(c["i2"]))


def check_multitask(out, cases, verbose=False):
    impl = [mt_impl(c) for c in cases]
    terms = [mt_coq(c, a[1]) for c, a in zip(cases, impl)]
    mt = [i for i, (k, _) in enumerate(terms) if k == "mt"]
    lc = [i for i, (k, _) in enumerate(terms) if k == "lcm"]
    res = {}
    if mt:
        for i, r in zip(mt, C.coq_run_cases("C09_mt", IMPORTS, "Definition run := run_multitask.",
                                            [terms[i][1] for i in mt], shard=8)):
            res[i] = r
    if lc:
        for i, r in zip(lc, C.coq_run_cases("C09_lcm", IMPORTS, "Definition run := run_lcm.",
                                            [terms[i][1] for i in lc], shard=8)):
            res[i] = r
    for i, c in enumerate(cases):
        dense = impl[i][0]
        rows = len(dense)
        cols = len(dense[0]) if rows else 0
        model = C.Reader(res[i]).qmat(rows, cols)
        out.case(dict(family="multitask", kind=c["kind"], n=c["n"], m=c["m"], t=c["t"], r=c.get("ranks", c["r"])),
                 c["t"] >= 2, label="multitask:" + c["kind"])
        out.count("tasks=%d" % c["t"])
        dd = maxdiff(dense, model)
        if verbose:
            print("impl ", dense)
            print("model", [[float(v) for v in r] for r in model])
        if not dd <= 1e-9:
            out.fail("multitask:%s" % c["kind"], "%s kernel differs from the explicit entry formula (max rel diff %.3g)"
                     % (c["kind"], dd), c, impl=dense, model=[[float(v) for v in r] for r in model])


# =========================================================================== interpolation family

def grid_positions(rng, G, k):
    """k positions (in index space) covering nodes, the interior, both boundary cells"""
    pos = []
    for _ in range(k):
        kind = rng.choice(["node", "interior", "interior", "left", "right"])
        if kind == "node":
            pos.append(float(rng.randint(0, G - 1)))
        elif kind == "interior":
            pos.append(rng.randint(1, G - 3) + rng.randint(3, 61) / 64.0)
        else:
            t = rng.choice([rng.randint(3, 27), rng.randint(37, 61)]) / 64.0  # away from the snapping tie at 1/2
            pos.append(t if kind == "left" else G - 2 + t)
    return pos


def make_grid(sizes, bounds):
    return create_grid(list(sizes), [tuple(b) for b in bounds], dtype=torch.float64)


def targets_on(grid, poss):
    """points at index-space positions poss[p][i] of the implementation's grid"""
    X = []
    for row in poss:
        X.append([min(max(grid[i][0].item() + p * (grid[i][1] - grid[i][0]).item(), grid[i][0].item()),
                      grid[i][-1].item()) for i, p in enumerate(row)])
    return X


def gen_grid_spec(rng, d, tier, ragged=None):
    gmax = 12 if tier == "quick" else 16
    if ragged is None:
        ragged = rng.random() < 0.7
    sizes = [rng.randint(5, gmax) for _ in range(d)]
    if not ragged:
        sizes = [sizes[0]] * d
    bounds = []
    for _ in range(d):
        lo = dy(rng, -2, 1, 8)
        bounds.append([lo, lo + dy(rng, 1, 3, 8)])
    return sizes, bounds


def gen_interp(rng, tier):
    cases = []
    for d, k in ((1, 12), (2, 14), (3, 3)) if tier == "quick" else ((1, 60), (2, 80), (3, 12)):
        for _ in range(k):
            sizes, bounds = gen_grid_spec(rng, d, tier)
            if d == 3:
                sizes = [min(s, 7) for s in sizes]
            npts = rng.randint(2, 6)
            cols = [grid_positions(rng, g, npts) for g in sizes]
            cases.append(dict(family="interp", d=d, sizes=sizes, bounds=bounds,
                              pos=[[cols[i][p] for i in range(d)] for p in range(npts)]))
    return cases


def model_interp(grids, Xs_list):
    """run_interp for several (grid, targets) pairs -> list (per pair) of list (per target) of
    [(colmajor idx, lex idx, Fraction weight)]"""
    terms = ["(%s, %s)" % (qmat(g), qmat(X)) for g, X in zip(grids, Xs_list)]
    res = C.coq_run_cases("C09_interp", IMPORTS, "Definition run := run_interp.", terms, shard=8)
    outl = []
    for g, X, r in zip(grids, Xs_list, res):
        rd = C.Reader(r)
        per = []
        for _ in X:
            ents = []
            for _ in range(4 ** len(g)):
                cm, lx = rd.int(), rd.int()
                ents.append((cm, lx, rd.q()))
            per.append(ents)
        outl.append(per)
    return outl


def dense_W(ents_per_target, G, which):
    W = np.zeros((len(ents_per_target), G))
    for p, ents in enumerate(ents_per_target):
        for cm, lx, w in ents:
            W[p, cm if which == "colmajor" else lx] += float(w)
    return W


def check_interp(out, cases, verbose=False):
    grids, Xs = [], []
    for c in cases:
        grid = make_grid(c["sizes"], c["bounds"])
        grids.append([g.tolist() for g in grid])
        Xs.append(targets_on(grid, c["pos"]))
    models = model_interp(grids, Xs)
    for c, g, X, mod in zip(cases, grids, Xs, models):
        G = int(np.prod(c["sizes"]))
        out.case(dict(family="interp", d=c["d"], sizes=c["sizes"], npts=len(X), pos=c["pos"]), True,
                 label="interp:d=%d" % c["d"])
        try:
            idx, val = Interpolation().interpolate([torch.tensor(a) for a in g], torch.tensor(X))
        except Exception as e:
            out.fail("interp:exception:%s" % type(e).__name__, "Interpolation.interpolate raised %r" % e, c)
            continue
        Wi = np.zeros((len(X), G))
        for p in range(len(X)):
            for j, v in zip(idx[p].tolist(), val[p].tolist()):
                if 0 <= j < G:
                    Wi[p, j] += v
                else:
                    Wi[p, :] = float("nan")
        # the flat index of interpolate is documented (and pinned by the repo's tests) as lexicographic
        Wm = dense_W(mod, G, "lex")
        dd = maxdiff(Wi, Wm)
        if verbose:
            print("impl  W rows (lexicographic columns):", Wi.tolist())
            print("model W rows:", Wm.tolist())
        if not dd <= 1e-9:
            out.fail("interp:weights:d%d" % c["d"],
                     "cubic interpolation weights/indices differ from the Keys model (max diff %.3g)" % dd, c,
                     impl=Wi.tolist(), model=Wm.tolist())
        rs = np.abs(Wi.sum(1) - 1).max()
        if not rs <= 1e-9:
            out.fail("interp:rowsum:d%d" % c["d"], "interpolation weights do not sum to one (off by %.3g)" % rs, c,
                     impl=Wi.sum(1).tolist())


# =========================================================================== grid kernel family

def gen_gridkernel(rng, tier):
    cases = []
    for d, k in ((1, 4), (2, 8), (3, 3)) if tier == "quick" else ((1, 12), (2, 40), (3, 12)):
        for _ in range(k):
            sizes = [rng.randint(2, 6 if d < 3 else 3) for _ in range(d)]
            bounds = []
            for _ in range(d):
                lo = dy(rng, -2, 1, 8)
                bounds.append([lo, lo + dy(rng, 1, 3, 8)])
            cases.append(dict(family="gridkernel", d=d, sizes=sizes, bounds=bounds,
                              kernel=rng.choice(["rbf", "rbf", "matern15", "matern25"]),
                              ls=[dy(rng, 0.4, 2.0) for _ in range(d)], toeplitz=rng.random() < 0.5,
                              evalmode=rng.random() < 0.5))
    # evaluate in eval mode (fills the cached Toeplitz / Kronecker matrix), change the lengthscale / load a state dict /
    # replace the grid, evaluate again
    for j, how in enumerate(["assign", "state_dict", "update_grid"] * (1 if tier == "quick" else 4)):
        for d in (1, 2):
            sizes = [rng.randint(2, 4) for _ in range(d)]
            bounds, bounds0 = [], []
            for _ in range(d):
                lo = dy(rng, -2, 1, 8)
                bounds.append([lo, lo + dy(rng, 1, 3, 8)])
                lo = dy(rng, -2, 1, 8)
                bounds0.append([lo, lo + dy(rng, 1, 3, 8)])
            cases.append(dict(family="gridkernel", d=d, sizes=sizes, bounds=bounds, bounds0=bounds0,
                              kernel=rng.choice(["rbf", "matern15", "matern25"]),
                              ls=[dy(rng, 0.4, 2.0) for _ in range(d)], ls0=[dy(rng, 0.4, 2.0) for _ in range(d)],
                              toeplitz=rng.random() < 0.5, evalmode=True, reeval=how))
    return cases


def axis_gram(base, grid, i):
    """1-D factor of the (ARD) stationary kernel along axis i on grid[i]: base kernel evaluated on points that
    differ in coordinate i only"""
    g = grid[i]
    P = torch.zeros(len(g), len(grid))
    P[:, i] = g
    with torch.no_grad():
        return base(P, P).to_dense()


def check_gridkernel(out, cases, verbose=False):
    digits = C.coq_run_cases("C09_digits", IMPORTS, "Definition run := run_grid_digits.",
                             [nats(c["sizes"]) for c in cases], shard=8)
    impl, terms = [], []
    for c in cases:
        grid = [torch.linspace(b[0], b[1], g, dtype=torch.float64) for g, b in zip(c["sizes"], c["bounds"])]
        full = create_data_from_grid(grid)
        how = c.get("reeval")
        with torch.no_grad(), gs.use_toeplitz(c["toeplitz"]):
            if how:
                grid0 = grid if how != "update_grid" else [torch.linspace(b[0], b[1], g, dtype=torch.float64)
                                                           for g, b in zip(c["sizes"], c["bounds0"])]
                base = base_kernel(c["kernel"], c["d"], c["ls0"] if how != "update_grid" else c["ls"])
                gk = K.GridKernel(base, grid0)
                gk.eval()
                full0 = create_data_from_grid(grid0)
                first = gk(full0, full0).to_dense().clone()
                if how == "assign":
                    gk.train()
                    base.lengthscale = torch.tensor(c["ls"])
                    gk.eval()
                elif how == "state_dict":
                    gk.load_state_dict(K.GridKernel(base_kernel(c["kernel"], c["d"], c["ls"]), grid).state_dict())
                else:
                    gk.update_grid(grid)
                dense = gk(full, full).to_dense()
                c["_moved"] = float((dense - first).abs().max())
            else:
                base = base_kernel(c["kernel"], c["d"], c["ls"])
                gk = K.GridKernel(base, grid)
                if c.get("evalmode"):
                    gk.eval()
                    gk(full, full).to_dense()       # second call below is served from the eval-mode cache
                dense = gk(full, full).to_dense()
            direct = base(full, full).to_dense()
        rows = [axis_gram(base, grid, i)[0].tolist() for i in range(c["d"])]
        impl.append((grid, full, dense, direct))
        terms.append("[" + "; ".join(qrow(r) for r in rows) + "]")
    res = C.coq_run_cases("C09_gridk", IMPORTS, "Definition run := run_grid_kernel.", terms, shard=4)
    for c, (grid, full, dense, direct), dg, r in zip(cases, impl, digits, res):
        d, G = c["d"], int(np.prod(c["sizes"]))
        how = c.get("reeval")
        rk = (":after-" + how) if how else ""
        moved = c.pop("_moved", None)
        out.case(dict(family="gridkernel", d=d, sizes=c["sizes"], kernel=c["kernel"], toeplitz=c["toeplitz"],
                      evalmode=bool(c.get("evalmode")), reeval=how, ls=c["ls"]),
                 (d >= 2 and len(set(c["sizes"])) > 1) if not how else moved > 1e-3,
                 label="gridkernel:d=%d%s" % (d, ":reeval-" + how if how else ""))
        rd = C.Reader(dg)
        bad = None
        for p in range(G):
            cm = [rd.int() for _ in range(d)]
            [rd.int() for _ in range(d)]
            want = [grid[i][cm[i]].item() for i in range(d)]
            if full[p].tolist() != want:
                bad = (p, full[p].tolist(), want)
                break
        if bad:
            out.fail("grid:create_data_from_grid-order", "row %d of create_data_from_grid is %s, column-major digits give %s"
                     % bad, c, impl=bad[1], model=bad[2])
        model = C.Reader(r).qmat(G, G)
        dd = maxdiff(dense.tolist(), model)
        if verbose:
            print("GridKernel dense row 0:", dense[0].tolist())
            print("model row 0:           ", [float(v) for v in model[0]])
        if not dd <= 1e-9:
            out.fail("gridkernel:kron-toeplitz:%s%s" % ("toeplitz" if c["toeplitz"] else "dense-factors", rk),
                     "GridKernel differs from K_{d-1} kron ... kron K_0 of the Toeplitz factors (%.3g)" % dd, c,
                     impl=dense.tolist(), model=[[float(v) for v in row] for row in model])
        if c["kernel"] == "rbf":
            d2 = maxdiff(dense.tolist(), direct.tolist())
            if not d2 <= 1e-9:
                out.fail("gridkernel:vs-base-kernel" + rk, "GridKernel on create_data_from_grid differs from the base kernel "
                         "(%.3g)" % d2, c, impl=dense.tolist(), model=direct.tolist())


# =========================================================================== KISS-GP kernel family

def gen_kiss(rng, tier):
    cases = []
    for d, k in ((1, 10), (2, 26)) if tier == "quick" else ((1, 50), (2, 150)):
        for j in range(k):
            sizes, bounds = gen_grid_spec(rng, d, tier, ragged=(j % 3 != 0))
            n1, n2 = rng.randint(1, 4), rng.randint(1, 4)
            cases.append(dict(family="kiss", d=d, sizes=sizes, bounds=bounds, dynamic=(j % 5 == 4),
                              kernel=rng.choice(["rbf", "rbf", "matern25"]),
                              ls=[dy(rng, 0.3, 2.0) for _ in range(d)] if j % 3 != 0 else [dy(rng, 0.3, 2.0)] * d,
                              pos1=[[grid_positions(rng, g, 1)[0] for g in sizes] for _ in range(n1)],
                              pos2=[[grid_positions(rng, g, 1)[0] for g in sizes] for _ in range(n2)],
                              same=(j % 4 == 1), toeplitz=rng.random() < 0.6))
    # evaluate in eval mode, change the base kernel's lengthscale (train() + setter / load_state_dict) or, for a
    # data-dependent grid, present wider data (the grid is rebuilt), evaluate again
    for j, how in enumerate(["assign", "state_dict", "regrid"] * (1 if tier == "quick" else 4)):
        for d in (1, 2):
            sizes, bounds = gen_grid_spec(rng, d, tier, ragged=True)
            sizes = [min(g, 8) for g in sizes]
            n1, n2 = rng.randint(2, 4), rng.randint(1, 3)
            cases.append(dict(family="kiss", d=d, sizes=sizes, bounds=bounds, dynamic=(how == "regrid"),
                              kernel=rng.choice(["rbf", "matern25"]), ls=[dy(rng, 0.3, 2.0) for _ in range(d)],
                              ls0=[dy(rng, 0.3, 2.0) for _ in range(d)],
                              pos1=[[grid_positions(rng, g, 1)[0] for g in sizes] for _ in range(n1)],
                              pos2=[[grid_positions(rng, g, 1)[0] for g in sizes] for _ in range(n2)],
                              same=(j % 2 == 1), toeplitz=rng.random() < 0.6, reeval=how))
    return cases


def kiss_build(c, initial=False):
    base = base_kernel(c["kernel"], c["d"], c["ls0"] if initial else c["ls"])
    g0 = make_grid(c["sizes"], c["bounds"])
    X1 = torch.tensor(targets_on(g0, c["pos1"]))
    X2 = X1 if c["same"] else torch.tensor(targets_on(g0, c["pos2"]))
    if c["dynamic"]:
        kern = K.GridInterpolationKernel(base, grid_size=list(c["sizes"]), num_dims=c["d"])
    else:
        kern = K.GridInterpolationKernel(base, grid_size=list(c["sizes"]), grid_bounds=[tuple(b) for b in c["bounds"]])
    # GridInterpolationKernel creates its grid buffers with create_grid's default dtype (float32) whatever the
    # default dtype is; .double() is the documented way to run a model in float64
    return base, kern.double(), X1, X2


def kuu_product(base, grid):
    """product kernel on the nodes, in the column-major (create_data_from_grid) order: K_{d-1} kron ... kron K_0
    (Coq: c09_grid_kernel_is_product_kernel)"""
    Kd = [axis_gram(base, grid, i).numpy() for i in range(len(grid))]
    M = np.ones((1, 1))
    for Ki in Kd:
        M = np.kron(Ki, M)
    return M


def check_kiss(out, cases, verbose=False):
    impl, grids, X1s, X2s = [], [], [], []
    for c in cases:
        how = c.get("reeval")
        base, kern, X1, X2 = kiss_build(c, initial=how in ("assign", "state_dict"))
        try:
            with torch.no_grad(), gs.use_toeplitz(c["toeplitz"]):
                if how:
                    kern.eval()
                    if how == "regrid":
                        # first the inputs shrunk towards their centre (the data-dependent grid is fitted to them), then
                        # the inputs themselves, which lie outside that grid
                        ctr = torch.cat([X1, X2]).mean(0)
                        first = kern(ctr + 0.4 * (X1 - ctr), ctr + 0.4 * (X2 - ctr)).to_dense().clone()
                        c["_grid_first"] = [g.clone() for g in kern.grid]
                    else:
                        first = kern(X1, X2).to_dense().clone()
                        kern(X1).to_dense(), kern(X1, diag=True)
                        if how == "assign":
                            kern.train()
                            base.lengthscale = torch.tensor(c["ls"])
                            kern.eval()
                        else:
                            kern.load_state_dict(kiss_build(c)[1].state_dict())
                dense = kern(X1, X2).to_dense().numpy()
                if how:
                    c["_moved"] = float(np.abs(dense - first.numpy()).max())
            err = None
        except Exception as e:
            dense, err = None, e
        grid = [g.clone() for g in kern.grid]
        impl.append((base, grid, dense, err))
        grids.append([g.tolist() for g in grid])
        X1s.append(X1.tolist())
        X2s.append(X2.tolist())
    mboth = model_interp(grids + grids, X1s + X2s)
    m1, m2 = mboth[:len(grids)], mboth[len(grids):]
    for c, (base, grid, dense, err), a, b in zip(cases, impl, m1, m2):
        d, G = c["d"], int(np.prod(c["sizes"]))
        asym = d >= 2 and (len(set(c["sizes"])) > 1 or len(set(c["ls"])) > 1 or len({tuple(x) for x in c["bounds"]}) > 1)
        how = c.get("reeval")
        rk = (":after-" + how) if how else ""
        moved = c.pop("_moved", None)
        gfirst = c.pop("_grid_first", None)
        out.case(dict(family="kiss", d=d, sizes=c["sizes"], kernel=c["kernel"], ls=c["ls"], dynamic=c["dynamic"],
                      toeplitz=c["toeplitz"], pos1=c["pos1"], reeval=how),
                 (d == 1 or asym) if not how else (moved is not None and moved > 1e-3),
                 label="kiss:d=%d%s" % (d, ":reeval-" + how if how else ""))
        if how == "regrid" and err is None and all(torch.equal(a_, b_) for a_, b_ in zip(gfirst, grid)):
            out.fail("kiss-kernel:dynamic-grid-not-rebuilt", "inputs outside the data-dependent grid did not rebuild it", c)
        if asym:
            out.count("kiss:d2-asymmetric(index-order visible)")
        if err is not None:
            out.fail("kiss-kernel:exception:%s%s" % (type(err).__name__, rk), "GridInterpolationKernel raised %r" % err, c)
            continue
        KUU = kuu_product(base, grid)
        want = dense_W(a, G, "colmajor") @ KUU @ dense_W(b, G, "colmajor").T
        dd = maxdiff(dense, want)
        # The grid buffers are created in float32 (create_grid's default dtype), so the nodes are equispaced only up
        # to ~1e-7 and the Toeplitz first row reproduces the Gram matrix of the actual nodes only to that accuracy
        # (measured 8e-8); without Toeplitz the factors are evaluated on the actual nodes and the dense tolerance holds
        tol = TOL_ITER if c["toeplitz"] else TOL_DENSE
        if verbose:
            print("impl  kernel:", dense.tolist())
            print("model W1 K_UU W2^T:", want.tolist())
        if dd <= tol:
            continue
        # diagnosis: lexicographic flat indices used on the column-major ordered K_{d-1} kron ... kron K_0
        alt = dense_W(a, G, "lex") @ KUU @ dense_W(b, G, "lex").T
        if maxdiff(dense, alt) <= tol:
            out.fail("kiss-kernel:index-order:lex-index-into-colmajor-kron" + rk,
                     "KISS-GP kernel = W K_UU W^T only if the lexicographic interpolation indices are read in "
                     "GridKernel's column-major Kronecker order (dimensions mixed up; max diff %.3g)" % dd, c,
                     impl=dense.tolist(), model=want.tolist())
        else:
            out.fail("kiss-kernel:mismatch:d%d%s" % (d, rk), "KISS-GP kernel differs from W K_UU W^T (max diff %.3g)" % dd, c,
                     impl=dense.tolist(), model=want.tolist())


# =========================================================================== prediction strategies

STRAT_FLAGS = {
    "kiss": [(), ("cg",), ("fast_pred_var",), ("fast_pred_samples",), ("fast_pred_var", "fast_pred_samples"),
             ("no_toeplitz",), ("no_toeplitz", "fast_pred_var")],
    "wiski": [(), ("fast_pred_var",), ("no_toeplitz",)],
    "sgpr": [(), ("no_sgpr_correction",), ("cg",), ("cg", "no_sgpr_correction"), ("fast_pred_var",),
             ("fast_pred_var", "no_sgpr_correction")],
    "rff": [(), ("cg",), ("fast_pred_var",)],
}


def gen_strategy(rng, tier):
    cases = []
    per = 4 if tier == "quick" else 40
    nmax = 5 if tier == "quick" else 6
    for model in ("kiss", "wiski", "sgpr", "rff"):
        for j in range(per):
            d = 1 if (model in ("kiss", "wiski") and j % 2 == 0) else 2
            n, t = rng.randint(2, nmax if model != "wiski" else 4), rng.randint(1, 3)
            pts = separated(rng, n + t + 2, d, 0.0, 1.0, sep=0.06)
            c = dict(family="strategy", model=model, d=d, n=n, t=t, X=pts[:n], Xs=pts[n:n + t], Xf=pts[n + t:],
                     y=[dy(rng, -2, 2, 8) for _ in range(n)], yf=[dy(rng, -2, 2, 8) for _ in range(2)],
                     hseed=rng.randint(0, 10 ** 9), mean=rng.choice(["zero", "constant"]),
                     scale=rng.random() < 0.6)
            if model in ("kiss", "wiski"):
                c["sizes"] = [rng.randint(5, 12) for _ in range(d)]
            if model in ("sgpr", "kiss", "rff"):
                c["hetero"] = (j % 2 == 1)
            if model == "sgpr":
                c["Z"] = separated(rng, rng.randint(2, 5), d, 0.0, 1.0, sep=0.1)
            if model == "rff":
                c["D"] = rng.randint(2, 6)
            if model == "wiski":
                c["depth"] = rng.randint(1, 2)
            for fl in STRAT_FLAGS[model]:
                cc = dict(c)
                cc["flags"] = list(fl)
                cases.append(cc)
    return cases


def strat_build(c):
    rng = random.Random(c["hseed"])
    d = c["d"]
    X, Xs, y = torch.tensor(c["X"]), torch.tensor(c["Xs"]), torch.tensor(c["y"])
    if c.get("hetero"):
        # heteroskedastic fixed noise: D = diag(noise_i) (the Woodbury cache and the Titsias term divide per point)
        lik = gpytorch.likelihoods.FixedNoiseGaussianLikelihood(
            noise=torch.tensor([dy(rng, 0.05, 0.6) for _ in range(len(c["X"]))]), learn_additional_noise=False)
    else:
        lik = gpytorch.likelihoods.GaussianLikelihood()
        lik.noise = dy(rng, 0.05, 0.6)
    if c["mean"] == "zero":
        mean = gpytorch.means.ZeroMean()
    else:
        mean = gpytorch.means.ConstantMean()
        mean.constant.data.fill_(dy(rng, -1, 1))
    ls = [dy(rng, 0.3, 1.5) for _ in range(d)]
    base = None
    if c["model"] in ("kiss", "wiski"):
        inner = K.GridInterpolationKernel(base_kernel("rbf", d, ls), grid_size=list(c["sizes"]),
                                          grid_bounds=[(-0.1, 1.1)] * d).double()
    elif c["model"] == "sgpr":
        base = base_kernel("rbf", d, ls)
        if c["scale"]:
            base = K.ScaleKernel(base)
            base.outputscale = dy(rng, 0.5, 2.5)
        kern = K.InducingPointKernel(base, torch.tensor(c["Z"]), lik)
    else:
        inner = K.RFFKernel(num_samples=c["D"], ard_num_dims=d)
        inner.lengthscale = torch.tensor(ls)
        torch.manual_seed(c["hseed"] % (2 ** 31))
        with torch.no_grad():
            inner(X[:1]).to_dense()  # registers the random weights deterministically
    if c["model"] != "sgpr":
        kern = inner
        if c["scale"]:
            kern = K.ScaleKernel(inner)
            kern.outputscale = dy(rng, 0.5, 2.5)
    model = GP(X, y, lik, mean, kern)
    return model, lik, base, X, Xs, y


def strat_data(c):
    """training set actually conditioned on (WISKI: train + fantasy points)"""
    X, y = list(c["X"]), list(c["y"])
    if c["model"] == "wiski":
        for k in range(c["depth"]):
            X.append(c["Xf"][k])
            y.append(c["yf"][k])
    return X, y


def strat_blocks(c, state=None):
    """dense blocks of the SAME approximate kernel (public kernel calls), mean and noise; state: state_dict of the
    parameters to evaluate at (loaded into a freshly constructed model that has never been evaluated)"""
    model, lik, base, X, Xs, y = strat_build(c)
    if state is not None:
        model.load_state_dict(state)
    Xa, ya = strat_data(c)
    Xa = torch.tensor(Xa)
    model.eval()
    lik.eval()
    kern = model.covar_module
    fl = [f for f in c["flags"] if f in ("no_sgpr_correction", "no_toeplitz")]
    with torch.no_grad(), flags_cm(fl):
        Kxx = kern(Xa).to_dense()
        Ksx = kern(Xs, Xa).to_dense()
        # SGPR: the prior covariance of the test points is the base kernel's (exact_prediction_strategies.py:836-846)
        Tss = base(Xs).to_dense() if c["model"] == "sgpr" else kern(Xs).to_dense()
        mx, ms = model.mean_module(Xa), model.mean_module(Xs)
        noise = lik.noise.detach().reshape(-1).tolist()
    n = len(ya)
    noise = noise * n if len(noise) == 1 else noise
    KJ = torch.cat([torch.cat([Kxx, Ksx.t()], 1), torch.cat([Ksx, Tss], 1)], 0).tolist()
    S = [[noise[i] if i == j else 0.0 for j in range(n)] for i in range(n)]
    return KJ, torch.cat([mx, ms]).tolist(), S, ya


def strat_outputs(c):
    model, lik, base, X, Xs, y = strat_build(c)
    model.eval()
    lik.eval()
    with torch.no_grad(), flags_cm(c["flags"]):
        if c["model"] == "wiski":
            model(Xs)
            for k in range(c["depth"]):
                model = model.get_fantasy_model(torch.tensor([c["Xf"][k]]), torch.tensor([c["yf"][k]]))
        post = model(Xs)
        return post.mean.tolist(), post.covariance_matrix.tolist(), type(model.prediction_strategy).__name__


# --------------------------------------------------------------------------- evaluate / mutate / evaluate again
# Every structured kernel and strategy with an eval-mode cache is evaluated, its parameters are changed through the
# public API (train() + setters, train() + optimiser steps on the marginal log likelihood, load_state_dict in eval mode)
# and it is evaluated again; the SECOND result must be the dense meaning at the NEW parameters.

REEVAL_HOWS = ["assign", "optim", "state_dict"]


def new_values(rng, d):
    return dict(ls=[dy(rng, 0.3, 1.5) for _ in range(d)], outputscale=dy(rng, 0.5, 2.5), noise=dy(rng, 0.05, 0.6),
                const=dy(rng, -1, 1))


def stationary_of(kern):
    """the stationary (or RFF) kernel carrying the lengthscale inside a ScaleKernel / structured wrapper"""
    k = kern
    while not hasattr(k, "raw_lengthscale") or k.raw_lengthscale is None:
        k = k.base_kernel
    return k


def mutate_model(c, model, lik, rng):
    """change every hyperparameter of the model (kernel lengthscales / outputscale, mean constant, noise, inducing points)
    the way c["reeval"] says; the model is in eval mode with filled caches on entry and in eval mode on return"""
    how = c["reeval"]
    d = c["d"]
    nv = new_values(rng, d)
    if how == "state_dict":
        # parameters of a differently parameterised model of the same architecture, loaded while in eval mode
        other, olik, _, _, _, _ = strat_build(dict(c, hseed=c["hseed"] + 1))
        sd = other.state_dict()
        if c["model"] == "sgpr":
            sd["covar_module.inducing_points"] = torch.tensor(c["Z2"])
        model.load_state_dict(sd)
        return
    model.train()
    lik.train()
    if how == "assign":
        with torch.no_grad():
            kern = model.covar_module
            stationary_of(kern).lengthscale = torch.tensor(nv["ls"])
            for k in (kern, getattr(kern, "base_kernel", None)):
                if isinstance(k, K.ScaleKernel):
                    k.outputscale = nv["outputscale"]
            if isinstance(model.mean_module, gpytorch.means.ConstantMean):
                model.mean_module.constant = nv["const"]
            if not c.get("hetero"):
                lik.noise = nv["noise"]
            if c["model"] == "sgpr":
                kern.inducing_points.copy_(torch.tensor(c["Z2"]))
    else:
        mll = gpytorch.mlls.ExactMarginalLogLikelihood(lik, model)
        opt = torch.optim.Adam(model.parameters(), lr=0.15)
        X, y = model.train_inputs[0], model.train_targets
        for _ in range(2):
            opt.zero_grad()
            loss = -mll(model(X), y)
            loss.backward()
            opt.step()
    model.eval()
    lik.eval()


def reeval_outputs(c):
    """(mean, cov, strategy class, state_dict after the mutation, max change of the prediction) of the second evaluation"""
    model, lik, base, X, Xs, y = strat_build(c)
    rng = random.Random(c["hseed"] + 77)
    model.eval()
    lik.eval()
    with flags_cm(c["flags"]):
        with torch.no_grad():
            first = model(Xs)
            m0, c0 = first.mean.clone(), first.covariance_matrix.clone()
            # also the kernel on its own, train / cross / diag (fills the kernel's eval-mode caches on every branch)
            model.covar_module(X).to_dense()
            model.covar_module(Xs, X).to_dense()
            model.covar_module(X, diag=True)
        mutate_model(c, model, lik, rng)
        with torch.no_grad():
            post = model(Xs)
            mean, cov = post.mean, post.covariance_matrix
    state = {k: v.detach().clone() for k, v in model.state_dict().items()}
    moved = max(float((mean - m0).abs().max()), float((cov - c0).abs().max()))
    return mean.tolist(), cov.tolist(), type(model.prediction_strategy).__name__, state, moved


def gen_reeval(rng, tier):
    cases = []
    reps = 1 if tier == "quick" else 6
    nmax = 4 if tier == "quick" else 5
    for model in ("sgpr", "kiss", "rff"):
        for how in REEVAL_HOWS:
            for j in range(reps * (2 if model == "sgpr" else 1)):
                d = 1 if (model == "kiss" and j % 2 == 0) else 2
                n, t = rng.randint(2, nmax), rng.randint(1, 2)
                pts = separated(rng, n + t, d, 0.0, 1.0, sep=0.06)
                c = dict(family="reeval", model=model, reeval=how, d=d, n=n, t=t, X=pts[:n], Xs=pts[n:], Xf=[],
                         y=[dy(rng, -2, 2, 8) for _ in range(n)], yf=[], hseed=rng.randint(0, 10 ** 9),
                         mean=rng.choice(["zero", "constant"]), scale=rng.random() < 0.6, hetero=rng.random() < 0.4)
                if model == "kiss":
                    c["sizes"] = [rng.randint(5, 10) for _ in range(d)]
                if model == "sgpr":
                    mz = rng.randint(2, 4)
                    c["Z"] = separated(rng, mz, d, 0.0, 1.0, sep=0.15)
                    c["Z2"] = separated(rng, mz, d, 0.0, 1.0, sep=0.15)
                if model == "rff":
                    c["D"] = rng.randint(2, 6)
                # default settings + one rotating settings combination of the property
                fls = [()] + [rng.choice(STRAT_FLAGS[model][1:])]
                for fl in fls:
                    cases.append(dict(c, flags=list(fl)))
    return cases


def check_reeval(out, cases, verbose=False):
    runs = []
    for c in cases:
        try:
            runs.append(reeval_outputs(c))
        except Exception as e:
            import traceback
            runs.append(("exc", e, traceback.format_exc()[-600:]))
    terms, idx = [], []
    for i, (c, r) in enumerate(zip(cases, runs)):
        if r[0] == "exc":
            continue
        b = strat_blocks(c, state=r[3])
        terms.append("(%d%%nat, %d%%nat, %s, %s, %s, %s)" % (len(b[3]), c["t"], C.qc_mat(b[0]), C.qc_vec(b[1]),
                                                           C.qc_mat(b[2]), C.qc_vec(b[3])))
        idx.append(i)
    res = dict(zip(idx, C.coq_run_cases("C09_reeval", IMPORTS, "Definition run := run_posterior.", terms, shard=2)))
    for i, (c, r) in enumerate(zip(cases, runs)):
        t = c["t"]
        path = "+".join(c["flags"]) or "default"
        desc = dict(family="reeval", model=c["model"], how=c["reeval"], d=c["d"], n=c["n"], t=t, flags=c["flags"],
                    hseed=c["hseed"], hetero=bool(c.get("hetero")))
        label = "reeval:%s:%s" % (c["model"], c["reeval"])
        if r[0] == "exc":
            out.case(desc, True, label=label)
            out.fail("reeval:%s:%s:exception:%s:%s" % (c["model"], c["reeval"], type(r[1]).__name__, path),
                     "evaluate / change parameters (%s) / evaluate again raised %r\n%s" % (c["reeval"], r[1], r[2]), c)
            continue
        mean, cov, strat, state, moved = r
        rd = C.Reader(res[i])
        if rd.int() != 1:
            out.case(desc, False, label=label)
            out.fail("strategy:model-singular", "model could not invert the dense train covariance", c, no_input=False)
            continue
        mm, mc = rd.qs(t), rd.qmat(t, t)
        # non-trivial: the mutation moved the prediction by more than the tolerance (a stale result would be visible)
        out.case(desc, moved > 1e-3, label=label)
        out.count("strategy-class=" + strat)
        a = strat_tol(c)
        dm, dc = maxdiff(mean, mm), maxdiff(cov, mc)
        if verbose:
            print("how", c["reeval"], "flags", c["flags"], "strategy", strat, "prediction moved by", moved)
            print("impl mean ", mean, "\nmodel mean", [float(v) for v in mm])
            print("impl cov  ", cov, "\nmodel cov ", [[float(v) for v in r_] for r_ in mc])
        if not dm <= a:
            out.fail("reeval:%s:%s:mean:%s" % (c["model"], c["reeval"], path), "after evaluate / change parameters (%s) / "
                     "evaluate again the predictive mean differs from the dense conditional at the NEW parameters (%.3g)"
                     % (c["reeval"], dm), c, impl=mean, model=[float(v) for v in mm])
        if not dc <= a:
            out.fail("reeval:%s:%s:cov:%s" % (c["model"], c["reeval"], path), "after evaluate / change parameters (%s) / "
                     "evaluate again the predictive covariance differs from the dense conditional at the NEW parameters "
                     "(%.3g)" % (c["reeval"], dc), c, impl=cov, model=[[float(v) for v in r_] for r_ in mc])


def strat_tol(c):
    if c["model"] == "wiski" or any(f in c["flags"] for f in ("cg", "fast_pred_var", "fast_pred_samples")):
        return TOL_ITER
    return TOL_DENSE


def check_strategy(out, cases, verbose=False):
    # one Coq case per distinct (case without flags that do not change the blocks)
    keyf = lambda c: json.dumps({k: v for k, v in c.items() if k != "flags"}, sort_keys=True) + \
        json.dumps(sorted(f for f in c["flags"] if f in ("no_sgpr_correction", "no_toeplitz")))  # noqa: E731
    uniq = {}
    for c in cases:
        uniq.setdefault(keyf(c), c)
    keys = list(uniq)
    blocks = [strat_blocks(uniq[k]) for k in keys]
    terms = ["(%d%%nat, %d%%nat, %s, %s, %s, %s)" % (len(b[3]), uniq[k]["t"], C.qc_mat(b[0]), C.qc_vec(b[1]),
                                                       C.qc_mat(b[2]), C.qc_vec(b[3])) for k, b in zip(keys, blocks)]
    res = dict(zip(keys, C.coq_run_cases("C09_post", IMPORTS, "Definition run := run_posterior.", terms, shard=2)))
    for c in cases:
        t = c["t"]
        rd = C.Reader(res[keyf(c)])
        path = "+".join(c["flags"]) or "default"
        desc = dict(family="strategy", model=c["model"], d=c["d"], n=c["n"], t=t, flags=c["flags"],
                    hseed=c["hseed"], extra=c.get("sizes") or c.get("D") or len(c.get("Z", [])),
                    hetero=bool(c.get("hetero")))
        if rd.int() != 1:
            out.case(desc, False, label="strategy:%s:%s" % (c["model"], path))
            out.fail("strategy:model-singular", "model could not invert the dense train covariance", c, no_input=False)
            continue
        mm, mc = rd.qs(t), rd.qmat(t, t)
        out.case(desc, c["n"] >= 2, label="strategy:%s:%s" % (c["model"], path))
        try:
            mean, cov, strat = strat_outputs(c)
        except Exception as e:
            out.fail("strategy:%s:exception:%s:%s" % (c["model"], type(e).__name__, path),
                     "implementation raised %r" % e, c)
            continue
        out.count("strategy-class=" + strat)
        a = strat_tol(c)
        dm, dc = maxdiff(mean, mm), maxdiff(cov, mc)
        if verbose:
            print("flags", c["flags"], "strategy", strat)
            print("impl mean ", mean, "\nmodel mean", [float(v) for v in mm])
            print("impl cov  ", cov, "\nmodel cov ", [[float(v) for v in r] for r in mc])
        if not dm <= a:
            out.fail("strategy:%s:mean:%s" % (c["model"], path), "predictive mean differs from the dense conditional of "
                     "the represented matrix (%.3g)" % dm, c, impl=mean, model=[float(v) for v in mm])
        if not dc <= a:
            out.fail("strategy:%s:cov:%s" % (c["model"], path), "predictive covariance differs from the dense "
                     "conditional of the represented matrix (%.3g)" % dc, c, impl=cov,
                     model=[[float(v) for v in r] for r in mc])


# =========================================================================== SGPR: Nystrom, textbook equations, bound

def gen_sgpr(rng, tier):
    cases = []
    # exact rational arithmetic through two nested inverses is expensive (n = m = 4: ~60 s of CPU per case)
    for j in range(5 if tier == "quick" else 32):
        d = rng.randint(1, 2)
        n, t = rng.randint(2, 3 if tier == "quick" else 4), rng.randint(1, 2)
        pts = separated(rng, n + t, d, 0.0, 1.0, sep=0.06)
        cases.append(dict(family="sgpr", d=d, n=n, t=t, X=pts[:n], Xs=pts[n:], y=[dy(rng, -2, 2, 8) for _ in range(n)],
                          Z=separated(rng, rng.randint(2, 3 if tier == "quick" else 5), d, 0.0, 1.0, sep=0.2),
                          hseed=rng.randint(0, 10 ** 9),
                          mean=rng.choice(["zero", "constant"]), scale=rng.random() < 0.6, model="sgpr",
                          hetero=(j % 2 == 0),
                          flags=["no_sgpr_correction"] + (["cg"] if j % 4 == 3 else [])))
    # the same three comparisons on ONE object that was evaluated in eval mode, changed (see mutate_model) and is then
    # taken through train mode (Nystrom matrix, bound) and eval mode (corrected kernel, predictions) again
    for j, how in enumerate(REEVAL_HOWS * (1 if tier == "quick" else 4)):
        d = rng.randint(1, 2)
        n, t, mz = rng.randint(2, 3), rng.randint(1, 2), rng.randint(2, 3)
        pts = separated(rng, n + t, d, 0.0, 1.0, sep=0.06)
        cases.append(dict(family="sgpr", d=d, n=n, t=t, X=pts[:n], Xs=pts[n:], y=[dy(rng, -2, 2, 8) for _ in range(n)],
                          Z=separated(rng, mz, d, 0.0, 1.0, sep=0.2), Z2=separated(rng, mz, d, 0.0, 1.0, sep=0.2),
                          hseed=rng.randint(0, 10 ** 9), mean=rng.choice(["zero", "constant"]), scale=rng.random() < 0.6,
                          model="sgpr", hetero=(j % 2 == 1), flags=["no_sgpr_correction"], reeval=how))
    return cases


def check_sgpr(out, cases, verbose=False):
    terms, impl = [], []
    Qcorr_all, Qdiag_all, Kxd_all = {}, {}, {}
    for c in cases:
        model, lik, base, X, Xs, y = strat_build(c)
        kern = model.covar_module
        if c.get("reeval"):
            model.eval()
            lik.eval()
            with torch.no_grad():
                model(Xs).covariance_matrix
                kern(X).to_dense(), kern(Xs, X).to_dense(), kern(X, diag=True)
            mutate_model(c, model, lik, random.Random(c["hseed"] + 77))
            base = kern.base_kernel
        Z = kern.inducing_points.detach().clone()
        # training mode: kernel = Nystrom matrix, objective = collapsed bound
        model.train()
        lik.train()
        mll = gpytorch.mlls.ExactMarginalLogLikelihood(lik, model)
        with flags_cm([f for f in c["flags"] if f == "cg"]):
            outp = model(X)
            obj = mll(outp, y).item()
        with torch.no_grad():
            Qtrain = kern(X).to_dense().tolist()
            Kzz, Kxz, Ksz = base(Z).to_dense().tolist(), base(X, Z).to_dense().tolist(), base(Xs, Z).to_dense().tolist()
            Kss, Kxd = base(Xs).to_dense().tolist(), base(X, diag=True).tolist()
            noise = lik.noise.detach().reshape(-1).tolist()
            noise = noise * c["n"] if len(noise) == 1 else noise
            r = (y - model.mean_module(X)).tolist()
            ms = model.mean_module(Xs).tolist()
        if c.get("reeval"):
            model.eval()
            lik.eval()
            with torch.no_grad(), flags_cm(c["flags"]):
                post = model(Xs)
                mean, cov = post.mean.tolist(), post.covariance_matrix.tolist()
            m2, X2 = model, X
        else:
            mean, cov, _ = strat_outputs(c)
            m2, _, _, X2, _, _ = strat_build(c)
        impl.append((Qtrain, obj, mean, cov, noise))
        m2.eval()
        with torch.no_grad():
            Qcorr_all[id(c)] = m2.covar_module(X2).to_dense().tolist()
            Qdiag_all[id(c)] = m2.covar_module(X2, diag=True).tolist()
        Kxd_all[id(c)] = Kxd
        terms.append("((%d%%nat, %d%%nat, %d%%nat), %s, %s, %s, %s, %s, %s, %s, %s)" % (
            c["n"], c["t"], len(c["Z"]), C.qc_mat(Kzz), C.qc_mat(Kxz), C.qc_mat(Ksz), C.qc_mat(Kss), C.qc_vec(Kxd),
            C.qc_vec(noise), C.qc_vec(r), C.qc_vec(ms)))
    res = C.coq_run_cases("C09_sgpr", IMPORTS, "Definition run := run_sgpr.", terms, shard=1)
    for c, (Qtrain, obj, mean, cov, noise), r in zip(cases, impl, res):
        n, t = c["n"], c["t"]
        out.case(dict(family="sgpr", d=c["d"], n=n, t=t, m=len(c["Z"]), flags=c["flags"], hseed=c["hseed"],
                      hetero=bool(c.get("hetero")), reeval=c.get("reeval")), n >= 2,
                 label="sgpr:nystrom+textbook+bound:%s%s" % ("fixed-noise" if c.get("hetero") else "homoskedastic",
                                                             ":reeval-" + c["reeval"] if c.get("reeval") else ""))
        rd = C.Reader(r)
        if rd.int() != 1:
            out.fail("sgpr:model-singular", "model could not invert K_zz / Q + s2 I", c, no_input=False)
            continue
        Q, tm, tc = rd.qmat(n, n), rd.qs(t), rd.qmat(t, t)
        quad, det, added = rd.q(), rd.q(), rd.q()
        a = TOL_ITER if "cg" in c["flags"] else TOL_DENSE
        rk = (":after-" + c["reeval"]) if c.get("reeval") else ""
        if verbose:
            print("impl Nystrom", Qtrain, "\nmodel      ", [[float(v) for v in row] for row in Q])
            print("impl mean", mean, "textbook", [float(v) for v in tm])
            print("impl cov ", cov, "textbook", [[float(v) for v in row] for row in tc])
        if not maxdiff(Qtrain, Q) <= TOL_DENSE:
            out.fail("sgpr:nystrom" + rk, "InducingPointKernel (training mode) differs from K_xz K_zz^-1 K_zx", c, impl=Qtrain,
                     model=[[float(v) for v in row] for row in Q])
        # eval mode with sgpr_diagonal_correction on (the default): the represented train matrix is
        # Q + diag(max(K_ii - Q_ii, 0)); cross blocks carry no correction
        Qf = np.array([[float(v) for v in row] for row in Q])
        corr = np.maximum(np.array(Kxd_all[id(c)]) - np.diag(Qf), 0.0)
        if not maxdiff(Qcorr_all[id(c)], (Qf + np.diag(corr)).tolist()) <= TOL_DENSE:
            out.fail("sgpr:diagonal-correction" + rk, "InducingPointKernel (eval mode, sgpr_diagonal_correction on) differs from "
                     "Q + diag(K - Q)", c, impl=Qcorr_all[id(c)], model=(Qf + np.diag(corr)).tolist())
        if not maxdiff(Qdiag_all[id(c)], (np.diag(Qf) + corr).tolist()) <= TOL_DENSE:
            out.fail("sgpr:diagonal-correction:diag" + rk, "InducingPointKernel(diag=True) (eval mode, correction on) differs "
                     "from diag(Q) + diag(K - Q)", c, impl=Qdiag_all[id(c)], model=(np.diag(Qf) + corr).tolist())
        if not maxdiff(mean, tm) <= a:
            out.fail("sgpr:textbook-mean" + rk, "SGPR predictive mean differs from the textbook equation", c, impl=mean,
                     model=[float(v) for v in tm])
        if not maxdiff(cov, tc) <= a:
            out.fail("sgpr:textbook-cov" + rk, "SGPR predictive covariance differs from the textbook equation", c, impl=cov,
                     model=[[float(v) for v in row] for row in tc])
        bound = (-0.5 * float(quad) - 0.5 * math.log(float(det)) - 0.5 * n * math.log(2 * math.pi) + float(added)) / n
        if verbose:
            print("impl objective", obj, "collapsed bound / n", bound)
        if not abs(obj - bound) <= a * (1 + abs(bound)):
            out.fail("sgpr:titsias-bound" + rk, "ExactMarginalLogLikelihood of the SGPR model differs from the collapsed bound "
                     "(log N(y; m, Q + D) - 1/2 sum_i (K_ii - Q_ii)/D_ii)/n", c, impl=obj, model=bound)


# =========================================================================== RFF kernel formula (float oracle)

def gen_rff(rng, tier):
    cases = []
    for j in range(12 if tier == "quick" else 80):
        d, D = rng.randint(1, 3), rng.randint(1, 6)
        # n straddles 2D so that both the LowRankRoot (2D < n) and the Root branch are taken
        n = rng.choice([1, 2, 2 * D, 2 * D + 1, 2 * D + 2]) if j % 2 == 0 else rng.randint(1, 6)
        n = min(n, 9)
        cases.append(dict(family="rff", d=d, D=D, n=n, m=rng.randint(1, 4), hseed=rng.randint(0, 10 ** 9),
                          ls=[dy(rng, 0.3, 2.0) for _ in range(d)], ard=rng.random() < 0.6,
                          X1=[[dy(rng, -2, 2) for _ in range(d)] for _ in range(n)],
                          X2=[[dy(rng, -2, 2) for _ in range(d)] for _ in range(rng.randint(1, 4))],
                          given_dims=rng.random() < 0.5))
    return cases


def check_rff(out, cases, verbose=False):
    for c in cases:
        d, D = c["d"], c["D"]
        X1, X2 = torch.tensor(c["X1"]), torch.tensor(c["X2"])
        torch.manual_seed(c["hseed"] % (2 ** 31))
        kw = dict(num_dims=d) if c["given_dims"] else {}
        kern = K.RFFKernel(num_samples=D, ard_num_dims=d if c["ard"] else None, **kw)
        kern.lengthscale = torch.tensor(c["ls"] if c["ard"] else c["ls"][0])
        out.case(dict(family="rff", d=d, D=D, n=c["n"], ard=c["ard"], hseed=c["hseed"]), True,
                 label="rff:%s" % ("lowrank" if 2 * D < c["n"] else "root"))
        try:
            with torch.no_grad():
                same = kern(X1).to_dense().numpy()
                same2 = kern(X1, X1.clone()).to_dense().numpy()
                cross = kern(X1, X2).to_dense().numpy()
                dg = kern(X1, diag=True).numpy()
                W = (kern.randn_weights / kern.lengthscale.transpose(-1, -2)).numpy()      # d x D
        except Exception as e:
            out.fail("rff-kernel:exception:%s" % type(e).__name__, "RFFKernel raised %r" % e, c)
            continue

        def oracle(A, B):
            diff = np.asarray(A)[:, None, :] - np.asarray(B)[None, :, :]
            return np.cos(diff @ W).mean(-1)
        for name, got, want in (("same", same, oracle(c["X1"], c["X1"])), ("same-by-value", same2, oracle(c["X1"], c["X1"])),
                                ("cross", cross, oracle(c["X1"], c["X2"])),
                                ("diag", dg, np.diag(oracle(c["X1"], c["X1"])))):
            dd = maxdiff(got, want)
            if verbose:
                print(name, "impl", got.tolist(), "\n     formula", want.tolist())
            if not dd <= 1e-10:
                out.fail("rff-kernel:%s" % name, "RFFKernel (%s branch) differs from (1/D) sum_j cos(w_j.(x-x')) by %.3g"
                         % (name, dd), c, impl=got.tolist(), model=want.tolist())


# =========================================================================== grid refinement (tested only)

def gen_converge(rng, tier):
    cases = []
    for d in (1, 2):
        for _ in range(2 if tier == "quick" else 8):
            n = rng.randint(3, 6)
            cases.append(dict(family="converge", d=d, X=separated(rng, n, d, 0.0, 1.0, sep=0.05),
                              ls=[dy(rng, 0.4, 1.2)] * d, sizes=[8, 16, 32, 64] if d == 1 else [8, 16, 32]))
    return cases


def check_converge(out, cases, verbose=False):
    for c in cases:
        X = torch.tensor(c["X"])
        base = base_kernel("rbf", c["d"], c["ls"])
        errs = []
        with torch.no_grad():
            want = base(X, X).to_dense()
            for g in c["sizes"]:
                kern = K.GridInterpolationKernel(base, grid_size=g, grid_bounds=[(0.0, 1.0)] * c["d"]).double()
                errs.append((kern(X, X).to_dense() - want).abs().max().item())
        out.case(dict(family="converge", d=c["d"], ls=c["ls"], n=len(c["X"])), True, label="converge:d=%d" % c["d"])
        if verbose:
            print("grid sizes", c["sizes"], "errors", errs)
        if not (all(b < a for a, b in zip(errs, errs[1:])) and errs[-1] < 1e-3):
            out.fail("kiss-kernel:refinement:d%d" % c["d"], "KISS-GP kernel error does not decrease under grid refinement: %s"
                     % errs, c, impl=errs)


FAMILIES = {
    "multitask": (gen_multitask, check_multitask), "interp": (gen_interp, check_interp),
    "gridkernel": (gen_gridkernel, check_gridkernel), "kiss": (gen_kiss, check_kiss),
    "strategy": (gen_strategy, check_strategy), "reeval": (gen_reeval, check_reeval),
    "sgpr": (gen_sgpr, check_sgpr), "rff": (gen_rff, check_rff),
    "converge": (gen_converge, check_converge),
}


def run(out, ctx):
    tier, seed = ctx["tier"], ctx["seed"]
    torch.manual_seed(seed)
    out.rule = ("per family (see module docstring): multitask tasks 1..3 ranks 0..2; interpolation grids 5..12 per "
                "dim, d 1..3, ragged, targets on nodes / interior / both boundary cells; GridKernel d 1..3 ragged, "
                "Toeplitz on/off; KISS-GP kernel d 1..2, ragged sizes, per-dim bounds and ARD lengthscales (so that "
                "index-order errors are visible), fixed and data-dependent grids; strategies {KISS-GP, WISKI fantasy "
                "depth 1..2, SGPR (inducing 2..5), RFF (features 2..6)} x settings {Cholesky/CG, fast_pred_var, "
                "fast_pred_samples, sgpr_diagonal_correction, use_toeplitz}; SGPR kernel with the diagonal correction vs "
                "Q + diag(K - Q); RFF kernel (features 1..6, d 1..3, n straddling 2D) on every branch; re-evaluation: every object "
                "with an eval-mode cache (InducingPointKernel, GridKernel, GridInterpolationKernel incl. the data-dependent grid, "
                "SGPR / KISS-GP / RFF prediction strategies) is evaluated in eval mode, changed through the public API (train() + "
                "setters of lengthscale / outputscale / noise / mean / inducing points, train() + 2 Adam steps on the marginal "
                "log likelihood, load_state_dict in eval mode, update_grid / wider data) and evaluated again: the second result "
                "vs the dense meaning at the new parameters (Coq model on blocks of a freshly constructed object carrying the "
                "new state); non-trivial = tasks>=2 / n>=2 / asymmetric grid / (re-evaluation) the change moved the result by > 1e-3")
    out.extra["tolerances"] = {"explicit formulas": 1e-9, "dense/cholesky": TOL_DENSE,
                               "cg / lanczos / fast_pred_samples root / WISKI (jittered Cholesky of a rank-deficient "
                               "cache) / KISS-GP kernel with use_toeplitz on (float32-created grid buffers)": TOL_ITER}
    import time
    timing = {}
    for name, (gen, chk) in FAMILIES.items():
        rng = random.Random(seed * 7919 + sum(map(ord, name)))
        t0 = time.time()
        chk(out, gen(rng, tier))
        timing[name] = round(time.time() - t0, 1)
    out.extra["family_wall_s"] = timing
    out.tested_not_proved = [
        "the KISS-GP kernel converges to the base kernel as the grid is refined (decreasing error sequence only)",
        "WISKI: numerics of the jittered Cholesky roots of W^T D^-1 W and of the inner cache, and the fast_pred_var "
        "branch of fantasy_covar_cache (the algebra of fantasy mean / covariance caches is proved)",
        "RFF kernel Gram = (1/D) sum_j cos(w_j.(x-y)) is checked in float only (family rff, every branch)",
        "agreement of torch/linear_operator numerics (Cholesky, CG, Lanczos) with exact algebra"]


def replay(path):
    d = json.load(open(path))
    case = d["case"]
    out = C.Outcome("C09", "quick", 0)
    FAMILIES[case["family"]][1](out, [case], verbose=True)
    for f in out.failures:
        print("FAILS:", f["key"], "-", f["what"])
    print("FAILS" if out.failures else "agrees")
    return 1 if out.failures else 0
