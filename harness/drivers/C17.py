"""C17 — constraints, parameter setters and priors.
Tie C.  Model: Models/C17_constraints.v (transform / inverse / parameter cell / prior log densities as
Expr terms over exact rationals; proved over R in Props/C17.v).  The driver
 A. sweeps every constraint class (scalar and tensor bounds) over a raw grid covering the whole float64
    range and compares transform / inverse_transform with the model (mpmath, 40 digits), checks closed
    bounds, finiteness and monotonicity on the floats themselves (float saturation: a TEST, the real-number
    theorems cannot exhibit it);
 B. walks named_parameters_and_constraints() of one instance of every kernel / likelihood / mean, and for
    every constrained parameter runs the setter round trip, an out-of-bounds assignment and random histories
    of set / initialize / optimiser-step operations against the model cell;
 C. compares every prior's log_prob with the documented density (model Expr), integrates the
    implementation's density with mpmath.quad where a normalised density is claimed, evaluates registered
    priors on the constrained value and checks sample_from_prior read-back;
 D. LKJCholeskyFactorPrior / LKJPrior / LKJCovariancePrior on exact rational correlation matrices against the density of
    the Cholesky factor and the documented density of the matrix (Props: they differ by the log Jacobian);
 E. Prior(transform=log/exp/square) = base density at transform(x); MultivariateNormalPrior against exact rational
    linear algebra (inverse certificate + determinant in Coq);
 F. modules with several constrained parameters, each under its own constraint (multi-parameter model);
 G. histories in which the BOUNDS of a parameter are replaced (load_state_dict from a module built with other bounds,
    register_constraint, casts / copies) followed by the usual operations, against the model cell under the bounds in
    force (Models/C17_constraints.v bstep / btrace)."""
import inspect
import json
import math
import os
import random

import mpmath
import torch

import gpytorch
from gpytorch import priors as P
from gpytorch.constraints import GreaterThan, Interval, LessThan, Positive
from harness.lib import common as C

COQ_TARGETS = ["Models/C17_constraints.vo"]
LEVEL_NOTE = ("theorems are over Coq reals about the Gallina/Expr model; float64 saturation, libm rounding and "
              "normalisation of densities are tested (sweeps / mpmath.quad), not proved; tie to /repo is differential")
IMPORTS = ("From Coq Require Import List ZArith QArith Qcanon.\n"
           "From GPV Require Import Base.LinAlg Base.Exec Base.Expr Models.C17_constraints.")
RUN_DEF = "Definition run := run_c17."
TAGSFX = os.environ.get("VERIF_TAG", "")    # development aid: keeps the scratch directories of concurrent runs apart
torch.set_default_dtype(torch.float64)
mpmath.mp.dps = 40
k_, L_, M_ = gpytorch.kernels, gpytorch.likelihoods, gpytorch.means
INF = math.inf


def close(a, b, atol=1e-9, rtol=1e-9):
    return C.close(a, b, atol, rtol)


# ------------------------------------------------------------------------------- Coq literals

def cons_lit(l, u):
    """constraint of ONE element with bounds l, u (floats, +-inf for one-sided)"""
    if l == -INF:
        return "(CLess %s)" % C.qc_lit(u)
    if u == INF:
        return "CPositive" if l == 0.0 else "(CGreater %s)" % C.qc_lit(l)
    return "(CInterval %s %s)" % (C.qc_lit(l), C.qc_lit(u))


def econst(x):
    return "(EConst %s)" % C.qc_lit(x)


def efloat(x):
    """exact term for a float: a rational constant in the mid range, m * 2^e (no gcd work) at the extremes"""
    if x == 0.0 or 1e-18 < abs(x) < 1e18:
        return econst(x)
    m, e = math.frexp(x)
    m, e = int(m * 2 ** 53), e - 53
    two = "(EConst (qc 2 1))"
    mm = "(EConst (qc %s 1))" % (m if m >= 0 else "(%d)" % m)
    return "(EMul %s (EIPow %s %d%%nat))" % (mm, two, e) if e >= 0 else "(EDiv %s (EIPow %s %d%%nat))" % (mm, two, -e)


# ------------------------------------------------------------------------------- A. transform sweep

RAW_GRID = sorted(set(
    [0.0] + [s * v for s in (1, -1) for v in
             (5e-324, 2.2e-308, 1e-308, 1e-300, 1e-200, 1e-100, 1e-30, 1e-16, 1e-10, 1e-5, 1e-3, 0.1, 0.5, 1.0, 2.0,
              3.5, 5.0, 10.0, 15.0, 19.9, 20.0, 20.1, 25.0, 30.0, 33.0, 36.0, 36.8, 37.0, 40.0, 50.0, 100.0, 500.0,
              700.0, 709.0, 709.8, 710.0, 745.0, 746.0, 800.0, 1e4, 1e10, 1e100, 1e300, 1e308, 1.7976931348623157e308)]))


def constraints_table():
    t = torch.tensor
    yield "Interval(0.1,5)", Interval(0.1, 5.0)
    yield "Interval(-3,-1)", Interval(-3.0, -1.0)
    yield "Interval(-1e-3,1e3)", Interval(-1e-3, 1e3)
    yield "Interval(0,1e-6)", Interval(0.0, 1e-6)
    yield "Interval(tensor)", Interval(t([0.0, -2.0, 1.5]), t([1.0, 7.0, 1.75]))
    yield "GreaterThan(1e-4)", GreaterThan(1e-4)
    yield "GreaterThan(-2.5)", GreaterThan(-2.5)
    yield "GreaterThan(tensor)", GreaterThan(t([0.01, 0.2, 30.0]))
    yield "LessThan(3)", LessThan(3.0)
    yield "LessThan(-0.5)", LessThan(-0.5)
    yield "LessThan(tensor)", LessThan(t([0.0, 2.0, -7.0]))
    yield "Positive", Positive()


def bounds_elems(c):
    lo, hi = torch.broadcast_tensors(c.lower_bound, c.upper_bound)
    return [(a, b) for a, b in zip(lo.reshape(-1).tolist(), hi.reshape(-1).tolist())]


def interior_values(l, u, rng):
    if l != -INF and u != INF:
        fr = [1e-6, 1e-3, 0.1, 0.5, 0.9, 0.999, rng.uniform(0.05, 0.95)]
        return [l + (u - l) * f for f in fr]
    off = [1e-6, 1e-3, 0.1, 1.0, 5.0, 19.0, 21.0, 50.0, 1e3, 1e6, rng.uniform(0.1, 10)]
    return [l + o for o in off] if u == INF else [u - o for o in off]


def part_transforms(out, rng, tier):
    names, cons, terms, meta = [], [], [], []
    grid = RAW_GRID + sorted(rng.gauss(0, 6) for _ in range(20 if tier == "quick" else 200))
    grid = sorted(grid)
    for name, c in constraints_table():
        for ei, (l, u) in enumerate(bounds_elems(c)):
            vals = interior_values(l, u, rng)
            terms.append("(KTransformE (%s, [%s]))" % (cons_lit(l, u), "; ".join(efloat(r) for r in grid)))
            terms.append("(KInverse (%s, %s))" % (cons_lit(l, u), C.qc_vec(vals)))
            meta.append((name, c, ei, l, u, vals))
    res = C.coq_run_cases("C17_tr" + TAGSFX, IMPORTS, RUN_DEF, terms, shard=2)
    for mi, (name, c, ei, l, u, vals) in enumerate(meta):
        nel = len(bounds_elems(c))
        scale = 1.0 + sum(abs(b) for b in (l, u) if abs(b) != INF)
        rd = C.Reader(res[2 * mi])
        with torch.no_grad():
            T = c.transform(torch.tensor(grid).unsqueeze(-1).expand(len(grid), nel))[:, ei].tolist() if nel > 1 \
                else c.transform(torch.tensor(grid)).reshape(-1).tolist()
        prev = None
        for r, t in zip(grid, T):
            model = rd.expr()
            desc = dict(constraint=name, elem=ei, raw=r)
            out.case(desc, abs(r) > 1e-3, label="transform:" + type(c).__name__)
            if not math.isfinite(t) or t < l or t > u:
                out.fail("transform:%s:bounds" % type(c).__name__, "transform(raw) = %r is not a finite value in [%r, %r]"
                         % (t, l, u), desc, impl=t, model=float(model))
            elif not close(t, model, 1e-9 * scale, 1e-9):
                out.fail("transform:%s:value" % type(c).__name__, "transform(raw) differs from the documented map", desc,
                         impl=t, model=float(model))
            if prev is not None and t < prev[1]:
                out.fail("transform:%s:monotone" % type(c).__name__, "transform is not monotone: raw %r -> %r but raw %r -> %r"
                         % (prev[0], prev[1], r, t), desc, impl=[prev[1], t])
            if prev is not None and abs(r) <= 15 and abs(prev[0]) <= 15 and r - prev[0] > 1e-3 and not t > prev[1]:
                out.fail("transform:%s:strict" % type(c).__name__, "transform is not strictly increasing in the mid range",
                         desc, impl=[prev[1], t])
            prev = (r, t)
        # inverse on the interior, and the two compositions
        rd = C.Reader(res[2 * mi + 1])
        with torch.no_grad():
            vt = torch.tensor(vals).unsqueeze(-1).expand(len(vals), nel) if nel > 1 else torch.tensor(vals)
            inv = c.inverse_transform(vt)
            back = c.transform(inv)
            inv = (inv[:, ei] if nel > 1 else inv.reshape(-1)).tolist()
            back = (back[:, ei] if nel > 1 else back.reshape(-1)).tolist()
        for v, iv, bk in zip(vals, inv, back):
            ok = rd.int()
            desc = dict(constraint=name, elem=ei, value=v)
            out.case(desc, True, label="inverse:" + type(c).__name__)
            if ok != 1:
                out.fail("inverse:%s:model" % type(c).__name__, "model says the generated value is not interior", desc)
                continue
            model = rd.expr()
            if not close(iv, model, 1e-9, 1e-9):
                out.fail("inverse:%s:value" % type(c).__name__, "inverse_transform(v) differs from the documented inverse",
                         desc, impl=iv, model=float(model))
            if not close(bk, v, 1e-9 * scale, 1e-9):
                out.fail("inverse:%s:roundtrip" % type(c).__name__, "transform(inverse_transform(v)) != v", desc, impl=bk,
                         model=v)
        mid = [r for r in grid if abs(r) <= 15]
        with torch.no_grad():
            mt = torch.tensor(mid).unsqueeze(-1).expand(len(mid), nel) if nel > 1 else torch.tensor(mid)
            rt = c.inverse_transform(c.transform(mt))
            rt = (rt[:, ei] if nel > 1 else rt.reshape(-1)).tolist()
        for r, x in zip(mid, rt):
            # float cancellation near the bounds limits this to ~1e-6 (labelled test)
            if not close(x, r, 1e-6, 1e-6):
                out.fail("inverse:%s:left-inverse" % type(c).__name__, "inverse_transform(transform(raw)) != raw",
                         dict(constraint=name, elem=ei, raw=r), impl=x, model=r)


# ------------------------------------------------------------------------------- B. modules

def modules_table():
    B = torch.Size([2])
    t = torch.tensor
    yield "RBF", lambda: k_.RBFKernel()
    yield "RBF-ard", lambda: k_.RBFKernel(ard_num_dims=3)
    yield "RBF-batch", lambda: k_.RBFKernel(batch_shape=B)
    yield "RBF-interval", lambda: k_.RBFKernel(lengthscale_constraint=Interval(0.1, 5.0))
    yield "RBF-greaterthan", lambda: k_.RBFKernel(lengthscale_constraint=GreaterThan(0.25))
    yield "RBF-lessthan", lambda: k_.RBFKernel(lengthscale_constraint=LessThan(8.0))
    yield "Matern", lambda: k_.MaternKernel(nu=1.5, ard_num_dims=2)
    yield "RQ", lambda: k_.RQKernel()
    yield "Periodic", lambda: k_.PeriodicKernel(ard_num_dims=2)
    yield "Cosine", lambda: k_.CosineKernel()
    yield "Linear", lambda: k_.LinearKernel()
    yield "Linear-ard", lambda: k_.LinearKernel(ard_num_dims=2)
    yield "Polynomial", lambda: k_.PolynomialKernel(power=2)
    yield "PolynomialGrad", lambda: k_.PolynomialKernelGrad(power=2)
    yield "PiecewisePolynomial", lambda: k_.PiecewisePolynomialKernel(q=2)
    yield "Constant", lambda: k_.ConstantKernel()
    yield "Scale", lambda: k_.ScaleKernel(k_.RBFKernel())
    yield "Scale-batch", lambda: k_.ScaleKernel(k_.RBFKernel(batch_shape=B), batch_shape=B)
    yield "Scale-interval", lambda: k_.ScaleKernel(k_.RBFKernel(), outputscale_constraint=Interval(0.5, 4.0))
    yield "SpectralMixture", lambda: k_.SpectralMixtureKernel(num_mixtures=2, ard_num_dims=2)
    yield "SpectralDelta", lambda: k_.SpectralDeltaKernel(num_dims=2, num_deltas=4)
    yield "Arc", lambda: k_.ArcKernel(k_.MaternKernel(nu=2.5), ard_num_dims=2)
    yield "Cylindrical", lambda: k_.CylindricalKernel(num_angular_weights=3, radial_base_kernel=k_.RBFKernel())
    yield "HammingIMQ", lambda: k_.HammingIMQKernel(vocab_size=5)
    yield "Index", lambda: k_.IndexKernel(num_tasks=3, rank=1)
    yield "Multitask", lambda: k_.MultitaskKernel(k_.RBFKernel(), num_tasks=2, rank=1)
    yield "LCM", lambda: k_.LCMKernel([k_.RBFKernel(), k_.MaternKernel()], num_tasks=2, rank=1)
    yield "RBFGrad", lambda: k_.RBFKernelGrad()
    yield "RBFGradGrad", lambda: k_.RBFKernelGradGrad()
    yield "Matern52Grad", lambda: k_.Matern52KernelGrad()
    yield "RFF", lambda: k_.RFFKernel(num_samples=4, num_dims=2)
    yield "GaussianSymmetrizedKL", lambda: k_.GaussianSymmetrizedKLKernel()
    yield "GridInterpolation", lambda: k_.GridInterpolationKernel(k_.RBFKernel(), grid_size=8, num_dims=1)
    yield "InducingPoint", lambda: k_.InducingPointKernel(k_.RBFKernel(), torch.zeros(3, 1), L_.GaussianLikelihood())
    yield "AdditiveStructure", lambda: k_.AdditiveStructureKernel(k_.RBFKernel(), num_dims=2)
    yield "ProductStructure", lambda: k_.ProductStructureKernel(k_.RBFKernel(), num_dims=2)
    yield "NewtonGirard", lambda: k_.NewtonGirardAdditiveKernel(k_.RBFKernel(), num_dims=3)
    yield "Sum", lambda: k_.RBFKernel() + k_.LinearKernel()
    yield "Product", lambda: k_.RBFKernel() * k_.PeriodicKernel()
    yield "Gaussian", lambda: L_.GaussianLikelihood()
    yield "Gaussian-batch", lambda: L_.GaussianLikelihood(batch_shape=B)
    yield "Gaussian-interval", lambda: L_.GaussianLikelihood(noise_constraint=Interval(1e-3, 2.0))
    yield "Gaussian-tensorbounds", lambda: L_.GaussianLikelihood(noise_constraint=GreaterThan(t([[0.01], [0.2]])),
                                                                 batch_shape=B)
    yield "FixedNoise+learned", lambda: L_.FixedNoiseGaussianLikelihood(torch.ones(3) * 0.1, learn_additional_noise=True)
    yield "MultitaskGaussian", lambda: L_.MultitaskGaussianLikelihood(num_tasks=3)
    yield "StudentT", lambda: L_.StudentTLikelihood()
    yield "Laplace", lambda: L_.LaplaceLikelihood()
    yield "Beta", lambda: L_.BetaLikelihood()
    yield "ConstantMean-interval", lambda: M_.ConstantMean(constant_constraint=Interval(-1.0, 2.0))
    yield "ConstantMean-lessthan", lambda: M_.ConstantMean(constant_constraint=LessThan(1.5))


def discover(m):
    """[(param path, owner module, raw leaf name, public name, constraint)] for constrained parameters"""
    found = []
    for pn, p, c in m.named_parameters_and_constraints():
        if c is None:
            continue
        owner = m
        *path, leaf = pn.split(".")
        for s in path:
            owner = getattr(owner, s)
        pub = leaf[4:] if leaf.startswith("raw_") else None
        found.append((pn, owner, leaf, pub, c))
    return found


def elem_bounds(c, shape):
    lo = c.lower_bound.expand(shape) if c.lower_bound.dim() else c.lower_bound.expand(shape)
    hi = c.upper_bound.expand(shape)
    return lo.reshape(-1)[0].item(), hi.reshape(-1)[0].item()


def pick_interior(l, u, rng):
    if l != -INF and u != INF:
        return l + (u - l) * rng.uniform(0.05, 0.95)
    return l + rng.uniform(0.05, 4.0) if u == INF else u - rng.uniform(0.05, 4.0)


def pick_outside(l, u, rng):
    choices = []
    if l != -INF:
        choices.append(l - rng.uniform(0.01, 2.0))
    if u != INF:
        choices.append(u + rng.uniform(0.01, 2.0))
    return rng.choice(choices)


def uniform_bounds(c, shape):
    lo, hi = c.lower_bound.expand(shape), c.upper_bound.expand(shape)
    return bool((lo == lo.reshape(-1)[0]).all() and (hi == hi.reshape(-1)[0]).all())


def gen_history(rng, l, u, maxlen):
    ops = []
    for _ in range(rng.randint(1, maxlen)):
        kind = rng.choice(["set", "set", "initcons", "initraw", "step", "step", "set_bad"])
        if kind in ("set", "initcons"):
            ops.append((kind, pick_interior(l, u, rng)))
        elif kind == "set_bad":
            ops.append(("set", pick_outside(l, u, rng)))
        elif kind == "initraw":
            ops.append((kind, rng.choice([rng.gauss(0, 3), rng.uniform(-40, 40), rng.choice([-800.0, 800.0, -1e5, 1e5])])))
        else:
            ops.append((kind, rng.choice([0.01, 0.5, 5.0, 100.0]), rng.uniform(-3, 3)))   # (lr, target shift)
    return ops


def apply_history(m, owner, leaf, pub, ops):
    """run ops on the implementation; returns per op (rejected so far, read elem0, all-in-bounds, step delta)"""
    c = owner.constraint_for_parameter_name(leaf)
    rej, trace = 0, []
    for o in ops:
        delta = None
        try:
            if o[0] == "set":
                setattr(owner, pub, torch.tensor(o[1]))
            elif o[0] == "initcons":
                owner.initialize(**{pub: torch.tensor(o[1])})
            elif o[0] == "initraw":
                owner.initialize(**{leaf: torch.full_like(getattr(owner, leaf).data, o[1])})
        except RuntimeError:
            rej += 1
        if o[0] == "step":
            raw = getattr(owner, leaf)
            delta = 0.0
            if raw.requires_grad:       # parameters frozen by the module (ArcKernel's base kernel) are not stepped
                before = raw.detach().clone()
                opt = torch.optim.SGD([raw], lr=o[1])
                opt.zero_grad()
                loss = ((getattr(owner, pub) - (getattr(owner, pub).detach() + o[2])) ** 2).sum()
                loss.backward()
                opt.step()
                delta = (raw.detach() - before).reshape(-1)[0].item()
        with torch.no_grad():
            rd = getattr(owner, pub)
            lo, hi = c.lower_bound.expand(rd.shape), c.upper_bound.expand(rd.shape)
            inb = bool(torch.isfinite(rd).all() and (rd >= lo).all() and (rd <= hi).all())
            trace.append((rej, rd.reshape(-1)[0].item(), inb, delta, getattr(owner, leaf).detach().reshape(-1)[0].item()))
    return trace


def part_modules(out, rng, tier):
    nh = 2 if tier == "quick" else 12
    plan, terms = [], []
    for mname, mk in modules_table():
        m = mk()
        for pn, owner, leaf, pub, c in discover(m):
            key = "%s:%s" % (type(owner).__name__, pub or leaf)
            desc0 = dict(module=mname, param=pn)
            prop = getattr(type(owner), pub, None) if pub else None
            if not isinstance(prop, property) or prop.fset is None:
                out.fail("setter:%s:missing" % key, "constrained parameter %s has no public property/setter" % pn, desc0)
                continue
            shape = getattr(owner, pub).shape
            l, u = elem_bounds(c, shape)
            # 1. setter round trip with a scalar and with a full tensor of distinct interior values
            for mode in ("scalar", "tensor"):
                m2 = mk()
                _, owner2, _, _, c2 = [d for d in discover(m2) if d[0] == pn][0]
                lo, hi = c2.lower_bound.expand(shape), c2.upper_bound.expand(shape)
                if mode == "scalar" and uniform_bounds(c2, shape):
                    v = pick_interior(l, u, rng)
                    want = torch.full(shape, v)
                    arg = torch.tensor(v)
                else:
                    want = torch.tensor([pick_interior(a, b, rng) for a, b in
                                         zip(lo.reshape(-1).tolist(), hi.reshape(-1).tolist())]).reshape(shape)
                    arg = want.clone()
                desc = dict(module=mname, param=pn, mode=mode, value=want.reshape(-1).tolist()[:4])
                out.case(desc, True, label="setter-roundtrip")
                try:
                    setattr(owner2, pub, arg)
                    got = getattr(owner2, pub).detach()
                except Exception as e:
                    out.fail("setter:%s:exception" % key, "assigning an interior value raised %s: %s" % (type(e).__name__, str(e)[:200]), desc)
                    continue
                if got.shape != want.shape or not torch.allclose(got, want, rtol=1e-9, atol=1e-12):
                    out.fail("setter:%s:roundtrip" % key, "module.%s = v does not read back v" % pub, desc,
                             impl=got.reshape(-1).tolist()[:6], model=want.reshape(-1).tolist()[:6])
            # 2. out-of-bounds assignment is rejected and leaves the parameter unchanged
            m2 = mk()
            _, owner2, _, _, c2 = [d for d in discover(m2) if d[0] == pn][0]
            setattr(owner2, pub, torch.tensor(pick_interior(l, u, rng)) if uniform_bounds(c2, shape) else want)
            before = getattr(owner2, pub).detach().clone()
            bad = torch.tensor(pick_outside(l, u, rng))
            desc = dict(module=mname, param=pn, bad_value=bad.item(), bounds=[l, u])
            out.case(desc, True, label="setter-out-of-bounds")
            try:
                setattr(owner2, pub, bad)
                out.fail("setter:%s:accepts-out-of-bounds" % key, "out-of-bounds assignment %r (bounds [%r, %r]) was accepted; "
                         "read-back %r" % (bad.item(), l, u, getattr(owner2, pub).reshape(-1)[0].item()), desc)
            except Exception:
                after = getattr(owner2, pub).detach()
                if not torch.equal(before, after):
                    out.fail("setter:%s:rejected-but-changed" % key, "rejected assignment changed the parameter", desc,
                             impl=after.reshape(-1).tolist()[:4], model=before.reshape(-1).tolist()[:4])
            # 3. histories (element 0 against the model cell; all elements in bounds)
            for _ in range(nh):
                m3 = mk()
                _, owner3, _, _, c3 = [d for d in discover(m3) if d[0] == pn][0]
                ops = gen_history(rng, l, u, 6)
                raw0 = getattr(owner3, leaf).detach().reshape(-1)[0].item()
                desc = dict(module=mname, param=pn, bounds=[l, u], raw0=raw0, ops=ops)
                try:
                    tr = apply_history(m3, owner3, leaf, pub, ops)
                except Exception as e:
                    out.fail("history:%s:exception" % key, "history raised %s: %s" % (type(e).__name__, str(e)[:200]), desc)
                    continue
                bad = [i for i, t in enumerate(tr) if not (math.isfinite(t[1]) and math.isfinite(t[4])
                                                           and (t[3] is None or math.isfinite(t[3])))]
                if bad:     # a NaN/inf parameter cannot be handed to the model: report it here
                    out.case(dict(module=mname, param=pn, ops=[o[0] for o in ops]), len(ops) >= 2, label="history")
                    out.fail("history:%s:out-of-bounds" % key, "after op %d the parameter (raw %r) reads %r: outside its bounds / "
                             "non-finite" % (bad[0], tr[bad[0]][4], tr[bad[0]][1]), desc, impl=tr[bad[0]][1])
                    continue
                cops = []
                for o, t in zip(ops, tr):
                    if o[0] == "set":
                        cops.append("Set_ %s" % C.qc_lit(o[1]))
                    elif o[0] == "initcons":
                        cops.append("InitCons %s" % C.qc_lit(o[1]))
                    elif o[0] == "initraw":
                        cops.append("InitRaw %s" % econst(o[1]))
                    else:
                        cops.append("Step %s" % econst(t[3] if t[3] is not None else 0.0))
                terms.append("(KHistory (%s, %s, [%s]))" % (cons_lit(l, u), C.qc_lit(raw0), "; ".join(cops)))
                plan.append((key, desc, tr, l, u))
    res = C.coq_run_cases("C17_hist" + TAGSFX, IMPORTS, RUN_DEF, terms, shard=max(8, (len(terms) + 15) // 16))
    for (key, desc, tr, l, u), r in zip(plan, res):
        rd = C.Reader(r)
        scale = 1.0 + sum(abs(b) for b in (l, u) if abs(b) != INF)
        out.case(dict(module=desc["module"], param=desc["param"], ops=[o[0] for o in desc["ops"]]),
                 len(desc["ops"]) >= 2, label="history")
        for i, t in enumerate(tr):
            rej_m = rd.int()
            read_m = rd.expr()
            if not t[2]:
                out.fail("history:%s:out-of-bounds" % key, "after op %d the parameter reads outside its bounds / non-finite" % i,
                         desc, impl=t[1])
                break
            if t[0] != rej_m:
                out.fail("history:%s:rejection" % key, "op %d: implementation rejected %d assignments so far, model %d"
                         % (i, t[0], rej_m), desc, impl=t[0], model=rej_m)
                break
            if not close(t[1], read_m, 1e-9 * scale, 1e-8):
                out.fail("history:%s:read" % key, "after op %d the parameter reads %r, model %r" % (i, t[1], float(read_m)),
                         desc, impl=t[1], model=float(read_m))
                break


# ------------------------------------------------------------------------------- F. several constrained parameters

def distinct_constraint(j, rot, shape, rng, wide=False):
    """the constraint given to the j-th constrained parameter of a module: the classes rotate Interval / GreaterThan /
    LessThan (a different class for neighbouring parameters, shifted by `rot`), the bounds are drawn from disjoint
    windows so that all parameters of one module get pairwise different bounds; parameters with more than one element get
    TENSOR-valued bounds (one bound per element) every other time."""
    kind = ("interval", "greater", "less")[(j + rot) % 3]
    base = 0.25 + 1.5 * j + rng.randint(0, 4) / 8.0
    width = rng.randint(4, 24) / 8.0
    if wide:        # constructors that initialise the parameter to a fixed default need bounds containing it
        base, width = (1 + j) / 64.0 + rng.randint(0, 4) / 256.0, 12.0 + j + rng.randint(0, 8) / 8.0
    n = 1
    for d in shape:
        n *= d
    tens = n > 1 and (j + rot) % 2 == 0
    if tens:
        off = (torch.arange(n, dtype=torch.float64) * 0.125).reshape(shape)
        lo, hi = base + off, base + width + 2 * off
    else:
        lo, hi = base, base + width
    if kind == "interval":
        return Interval(lo, hi)
    if kind == "greater":
        return GreaterThan(lo)
    return LessThan(hi)


def _own_kwargs(cls, suffix):
    names = []
    for c in cls.__mro__:
        if "__init__" in c.__dict__:
            try:
                sig = inspect.signature(c.__init__)
            except (TypeError, ValueError):
                continue
            for p_ in sig.parameters:
                if p_.endswith(suffix) and p_ not in names:
                    names.append(p_)
    if issubclass(cls, k_.Kernel) and not cls.has_lengthscale:
        names = [n_ for n_ in names if not n_.startswith("lengthscale_")]
    return names


def ctor_table():
    """(name, class, positional args, fixed kwargs): every class that takes `<param>_constraint` keyword arguments; the
    driver passes a DISTINCT non-default constraint for every one of them (found by signature inspection)"""
    yield "RBF-ard", k_.RBFKernel, (), dict(ard_num_dims=2)
    yield "Matern", k_.MaternKernel, (), dict(nu=1.5)
    yield "RQ", k_.RQKernel, (), {}
    yield "RQ-ard", k_.RQKernel, (), dict(ard_num_dims=2)
    yield "Periodic", k_.PeriodicKernel, (), {}
    yield "Periodic-ard", k_.PeriodicKernel, (), dict(ard_num_dims=2)
    yield "Periodic-batch", k_.PeriodicKernel, (), dict(batch_shape=torch.Size([2]))
    yield "Cosine", k_.CosineKernel, (), {}
    yield "Linear", k_.LinearKernel, (), {}
    yield "Polynomial", k_.PolynomialKernel, (), dict(power=2)
    yield "PolynomialGrad", k_.PolynomialKernelGrad, (), dict(power=2)
    yield "Constant", k_.ConstantKernel, (), {}
    yield "PiecewisePolynomial", k_.PiecewisePolynomialKernel, (), dict(q=1)
    yield "Scale", k_.ScaleKernel, ("@rbf",), {}
    yield "Scale-periodic", k_.ScaleKernel, ("@periodic",), {}
    yield "SpectralMixture", k_.SpectralMixtureKernel, (), dict(num_mixtures=2, ard_num_dims=2)
    yield "SpectralDelta", k_.SpectralDeltaKernel, (), dict(num_dims=2, num_deltas=3)
    yield "Cylindrical", k_.CylindricalKernel, (3, "@rbf"), {}
    yield "HammingIMQ", k_.HammingIMQKernel, (), dict(vocab_size=5)
    yield "Index", k_.IndexKernel, (), dict(num_tasks=3, rank=1)
    yield "RBFGrad", k_.RBFKernelGrad, (), {}
    yield "Gaussian", L_.GaussianLikelihood, (), {}
    yield "Gaussian-batch", L_.GaussianLikelihood, (), dict(batch_shape=torch.Size([2]))
    yield "Laplace", L_.LaplaceLikelihood, (), {}
    yield "StudentT", L_.StudentTLikelihood, (), {}
    yield "Beta", L_.BetaLikelihood, (), {}
    yield "ConstantMean", M_.ConstantMean, (), {}


def _ctor_args(args, rot, rng, with_priors):
    """positional sub-kernels are built through their own constructors with their own distinct constraints"""
    out = []
    for a in args:
        if a == "@rbf":
            c = distinct_constraint(5, rot, (1, 1), rng)
            out.append(k_.RBFKernel(lengthscale_constraint=c, lengthscale_prior=_prior_inside(c, (1, 1)) if with_priors else None))
        elif a == "@periodic":
            c1, c2 = distinct_constraint(5, rot, (1, 1), rng), distinct_constraint(6, rot, (1, 1), rng)
            out.append(k_.PeriodicKernel(lengthscale_constraint=c1, period_length_constraint=c2,
                                         lengthscale_prior=_prior_inside(c1, (1, 1)) if with_priors else None,
                                         period_length_prior=_prior_inside(c2, (1, 1)) if with_priors else None))
        else:
            out.append(a)
    return out


def _prior_inside(c, shape, wide=False):
    """a UniformPrior whose support lies strictly inside the bounds of c (elementwise for tensor bounds)"""
    lo, hi = c.lower_bound, c.upper_bound
    span = 12.0 if wide else 3.0
    lo2 = torch.where(torch.isfinite(lo), lo, hi - span)
    hi2 = torch.where(torch.isfinite(hi), hi, lo + span)
    f = 0.02 if wide else 0.25
    a, b = lo2 + f * (hi2 - lo2), lo2 + (1 - f) * (hi2 - lo2)
    return P.UniformPrior(a, b)


def build_ctor(cls, args, kw, rot, rng, with_priors, wide=False):
    """construct cls with a distinct constraint for every `<param>_constraint` keyword (and, with_priors, a prior inside
    the bounds for every `<param>_prior` keyword that has one).  Returns (module, {kwarg name: constraint object}).
    A constructor that sets a parameter to a fixed default rejects bounds / prior supports that do not contain it
    (StudentTLikelihood: deg_free = 4): then the `wide` variant is used (still a different class and different bounds
    for every parameter)."""
    proto = cls(*_ctor_args(args, rot, random.Random(0), False), **kw)
    st = rng.getstate()
    passed, extra = {}, {}
    for j, cn in enumerate(_own_kwargs(cls, "_constraint")):
        base = cn[:-len("_constraint")]
        attr = getattr(proto, base, None)
        shape = tuple(attr.shape) if torch.is_tensor(attr) else ()
        passed[cn] = distinct_constraint(j, rot, shape, rng, wide)
        if with_priors and base + "_prior" in _own_kwargs(cls, "_prior"):
            extra[base + "_prior"] = _prior_inside(passed[cn], shape, wide)
    try:
        return cls(*_ctor_args(args, rot, rng, with_priors), **kw, **passed, **extra), passed
    except (RuntimeError, ValueError):
        if wide:
            raise
        rng.setstate(st)
        return build_ctor(cls, args, kw, rot, rng, with_priors, wide=True)


def reregister(m, rot, rng):
    """give every constrained parameter of an existing module its own constraint through the public
    Module.register_constraint (what a user does to change a default)"""
    for j, (pn, owner, leaf, pub, c) in enumerate(discover(m)):
        shape = tuple(getattr(owner, pub).shape) if pub and hasattr(owner, pub) else tuple(getattr(owner, leaf).shape)
        owner.register_constraint(leaf, distinct_constraint(j, rot, shape, rng))
    return m


def settable(m):
    """constrained parameters with a public property + setter, as dicts"""
    out = []
    for pn, owner, leaf, pub, c in discover(m):
        prop = getattr(type(owner), pub, None) if pub else None
        if isinstance(prop, property) and prop.fset is not None:
            shape = tuple(getattr(owner, pub).shape)
            lo, hi = c.lower_bound.expand(shape).reshape(-1).tolist(), c.upper_bound.expand(shape).reshape(-1).tolist()
            out.append(dict(pn=pn, owner=owner, leaf=leaf, pub=pub, cons=c, shape=shape, lo=lo, hi=hi,
                            dotted=".".join(pn.split(".")[:-1] + [pub])))
    return out


def _inside(v, lo, hi):
    return lo < v < hi


def pick_for(params, i, rng, want_inside):
    """a value for element 0 of parameter i: inside (want_inside) or outside its own bounds; when possible on the other
    side for a sibling parameter (inside own / outside a sibling's, resp. outside own / inside a sibling's): that is the value a
    setter consulting the sibling's constraint treats differently"""
    l, u = params[i]["lo"][0], params[i]["hi"][0]
    sib = [(q_["lo"][0], q_["hi"][0]) for k, q_ in enumerate(params) if k != i]
    cands = []
    for _ in range(12):
        v = pick_interior(l, u, rng) if want_inside else pick_outside(l, u, rng)
        v = round(v * 64) / 64.0
        if _inside(v, l, u) != want_inside or v in (l, u):
            continue
        cands.append(v)
        if any(_inside(v, a, b) != want_inside for a, b in sib):
            return v
    return cands[0] if cands else (pick_interior(l, u, rng) if want_inside else pick_outside(l, u, rng))


def gen_mhistory(params, rng, maxlen, prior_names):
    ops = []
    for _ in range(rng.randint(2, maxlen)):
        i = rng.randrange(len(params))
        l, u = params[i]["lo"][0], params[i]["hi"][0]
        kind = rng.choice(["set", "set", "set_t", "initcons", "initroot", "initraw", "step", "set_bad", "set_bad", "sample"])
        if kind == "sample" and prior_names[i] is None:
            kind = "set"
        if kind == "set_t":
            vals = [round(pick_interior(a, b, rng) * 64) / 64.0 for a, b in zip(params[i]["lo"], params[i]["hi"])]
            vals = [v if a < v < b else (a + b) / 2 if math.isfinite(a + b) else v for v, a, b in zip(vals, params[i]["lo"], params[i]["hi"])]
            ops.append((i, "set_t", vals))
        elif kind in ("set", "initcons", "initroot"):
            uniform = all(a == params[i]["lo"][0] for a in params[i]["lo"]) and all(b == params[i]["hi"][0] for b in params[i]["hi"])
            if uniform:
                ops.append((i, kind, pick_for(params, i, rng, True)))
            else:       # a scalar must be inside EVERY element's bounds: use per-element values instead
                vals = [round(pick_interior(a, b, rng) * 64) / 64.0 for a, b in zip(params[i]["lo"], params[i]["hi"])]
                vals = [v if a < v < b else (a + b) / 2 if math.isfinite(a + b) else v for v, a, b in zip(vals, params[i]["lo"], params[i]["hi"])]
                ops.append((i, "set_t", vals))
        elif kind == "set_bad":
            ops.append((i, "set", pick_for(params, i, rng, False)))
        elif kind == "initraw":
            ops.append((i, kind, rng.choice([round(rng.gauss(0, 3), 3), round(rng.uniform(-30, 30), 2)])))
        elif kind == "sample":
            ops.append((i, kind, rng.randint(0, 10 ** 6)))
        else:
            ops.append((i, kind, rng.choice([0.01, 0.5, 5.0]), round(rng.uniform(-3, 3), 3)))
    return ops


def apply_mhistory(root, params, ops, prior_names):
    """run the ops on the implementation.  Per op: the op as the model sees it + per parameter (rejected so far, read of
    element 0, all elements in bounds, raw element 0) + the list of complaints that need no model (full-tensor read-back)"""
    rej = [0] * len(params)
    trace, complaints = [], []
    for oi, o in enumerate(ops):
        i, kind = o[0], o[1]
        Pm = params[i]
        owner, leaf, pub = Pm["owner"], Pm["leaf"], Pm["pub"]
        mop, want_all, exc = None, None, None
        try:
            if kind == "set":
                mop = ("Set_", o[2]); want_all = torch.full(Pm["shape"], o[2])
                setattr(owner, pub, torch.tensor(o[2]))
            elif kind == "set_t":
                mop = ("Set_", o[2][0]); want_all = torch.tensor(o[2]).reshape(Pm["shape"])
                setattr(owner, pub, want_all.clone())
            elif kind == "initcons":
                mop = ("InitCons", o[2]); want_all = torch.full(Pm["shape"], o[2])
                owner.initialize(**{pub: torch.tensor(o[2])})
            elif kind == "initroot":
                mop = ("InitCons", o[2]); want_all = torch.full(Pm["shape"], o[2])
                root.initialize(**{Pm["dotted"]: torch.tensor(o[2])})
            elif kind == "initraw":
                mop = ("InitRaw", o[2])
                owner.initialize(**{leaf: torch.full_like(getattr(owner, leaf).data, o[2])})
            elif kind == "sample":
                prior = owner._priors[prior_names[i]][0]
                torch.manual_seed(o[2])
                drawn = prior.sample().detach()
                want_all = drawn.expand(Pm["shape"]) if drawn.numel() <= max(1, int(torch.tensor(Pm["shape"]).prod())) else drawn.reshape(Pm["shape"])
                mop = ("Set_", want_all.reshape(-1)[0].item())
                torch.manual_seed(o[2])
                owner.sample_from_prior(prior_names[i])
        except Exception as e:      # noqa: BLE001 -- whether a rejection was due is decided by the model
            rej[i] += 1
            want_all = None
            exc = type(e).__name__
        if kind == "step":
            raw = getattr(owner, leaf)
            delta = 0.0
            if raw.requires_grad:
                before = raw.detach().clone()
                opt = torch.optim.SGD([raw], lr=o[2])
                opt.zero_grad()
                loss = ((getattr(owner, pub) - (getattr(owner, pub).detach() + o[3])) ** 2).sum()
                loss.backward()
                opt.step()
                delta = (raw.detach() - before).reshape(-1)[0].item()
            mop = ("Step", delta)
        row = []
        with torch.no_grad():
            for k, Q in enumerate(params):
                rd = getattr(Q["owner"], Q["pub"]).detach()
                c = Q["cons"]
                lo, hi = c.lower_bound.expand(rd.shape), c.upper_bound.expand(rd.shape)
                inb = bool(torch.isfinite(rd).all() and (rd >= lo).all() and (rd <= hi).all())
                row.append((rej[k], rd.reshape(-1)[0].item(), inb, getattr(Q["owner"], Q["leaf"]).detach().reshape(-1)[0].item()))
                if k == i and want_all is not None and inb:
                    if rd.shape != want_all.shape or not torch.allclose(rd, want_all, rtol=1e-9, atol=1e-11):
                        complaints.append((oi, "read", rd.reshape(-1).tolist()[:6], want_all.reshape(-1).tolist()[:6]))
        trace.append((mop, row, exc))
    return trace, complaints


def mhistory_term(params, raw0, trace):
    cs = "; ".join("(%s, %s)" % (cons_lit(Q["lo"][0], Q["hi"][0]), C.qc_lit(r)) for Q, r in zip(params, raw0))
    cops = []
    for (i, _k, *_), (mop, _row, _exc) in trace:
        cops.append("(%d%%nat, %s %s)" % (i, mop[0], C.qc_lit(mop[1]) if mop[0] in ("Set_", "InitCons") else econst(mop[1])))
    return "(KMHistory ([%s], [%s]))" % (cs, "; ".join(cops))


def part_multi(out, rng, tier):
    """EVERY module with constrained parameters, built so that each parameter has its own, non-default constraint
    (different classes, different bounds, tensor-valued bounds for ARD / batched parameters): (a) through the constructor's
    `<param>_constraint` keywords, (b) through Module.register_constraint on the instances of part B.  Then histories of
    operations addressed to ALL parameters of the module against the multi-parameter model (Models/C17_constraints.v mstate):
    set / initialize (local and dotted name from the root) / raw initialize / step / out-of-bounds set / sample_from_prior;
    after every op EVERY parameter is compared (the addressed one reads the assigned value, the others are unchanged)."""
    nrot = 2 if tier == "quick" else 6
    nh = 2 if tier == "quick" else 8
    builds = []
    for name, cls, args, kw in ctor_table():
        for rot in range(nrot):
            builds.append(("ctor", name, rot, (cls, args, kw)))
    for mname, mk in modules_table():
        if len(discover(mk())) >= 2:
            for rot in range(nrot):
                builds.append(("register", mname, rot, mk))
    plan, terms = [], []
    for how, name, rot, spec in builds:
        bseed = rng.randint(0, 10 ** 9)

        def make(with_priors, how=how, spec=spec, rot=rot, bseed=bseed):
            r2 = random.Random(bseed)
            if how == "ctor":
                return build_ctor(spec[0], spec[1], spec[2], rot, r2, with_priors)
            return reregister(spec(), rot, r2), {}
        desc0 = dict(module=name, how=how, rotation=rot)
        try:
            m, passed = make(False)
            params = settable(m)
        except Exception as e:
            out.fail("multi:%s:%s:construct:%s" % (how, name, type(e).__name__), "constructing the module with distinct constraints raised %s: %s"
                     % (type(e).__name__, str(e)[:200]), desc0)
            continue
        desc0["constraints"] = {Q["pn"]: "%s[%g,%g]" % (type(Q["cons"]).__name__, Q["lo"][0], Q["hi"][0]) for Q in params}
        out.case(dict(desc0, check="construct"), len(params) >= 2, label="multi-construct:" + how)
        out.count("multi-params=%d" % min(len(params), 4))
        # the constructor keyword <X>_constraint must end up on raw_<X> (on the module itself when it owns such a parameter)
        for cn, cobj in passed.items():
            leaf = "raw_" + cn[:-len("_constraint")]
            here = [Q for Q in params if Q["cons"] is cobj]
            if leaf in m._parameters and m.constraint_for_parameter_name(leaf) is not cobj:
                out.fail("multi:ctor:%s:%s:not-registered" % (type(m).__name__, cn), "the constraint passed as %s is not the one "
                         "registered for %s (found %s)" % (cn, leaf, m.constraint_for_parameter_name(leaf)), desc0)
            elif not here and not any(c_ is cobj for _, _, c_ in m.named_parameters_and_constraints()):
                out.fail("multi:ctor:%s:%s:dropped" % (type(m).__name__, cn), "the constraint passed as %s is not registered for any "
                         "parameter" % cn, desc0)
        if not params:
            continue
        # (i) sample_from_prior through the module's own <X>_prior closures (constructor keywords) under distinct constraints
        if how == "ctor":
            try:
                mp_, _ = make(True)
                for pname, owner, prior, closure, setting in mp_.named_priors():
                    local = pname.split(".")[-1]
                    key = "%s:%s" % (type(owner).__name__, local)
                    d2 = dict(desc0, prior=pname, check="sample-readback")
                    out.case(d2, True, label="multi-prior-sample-readback")
                    before = {Q["pn"]: getattr(Q["owner"], Q["pub"]).detach().clone() for Q in settable(mp_)}
                    seed = rng.randint(0, 10 ** 6)
                    try:
                        torch.manual_seed(seed); want = prior.sample().detach()
                        torch.manual_seed(seed); owner.sample_from_prior(local)
                        got = closure(owner).detach()
                    except Exception as e:
                        out.fail("multi:prior-closure:%s:sample-exception" % key, "sample_from_prior raised %s: %s" % (type(e).__name__, str(e)[:200]), d2)
                        continue
                    if not torch.allclose(got, want.expand_as(got) if want.numel() <= got.numel() else want.reshape(got.shape), rtol=1e-9, atol=1e-11):
                        out.fail("multi:prior-closure:%s:sample-readback" % key, "sample_from_prior drew %r but the parameter reads %r"
                                 % (want.reshape(-1).tolist()[:3], got.reshape(-1).tolist()[:3]), d2,
                                 impl=got.reshape(-1).tolist()[:4], model=want.reshape(-1).tolist()[:4])
                    pub = local[:-6] if local.endswith("_prior") else None
                    if pub and pub.startswith("raw_"):
                        pub = pub[4:]
                    named = any(Q["owner"] is owner and Q["pub"] == pub for Q in settable(mp_))
                    for Q in settable(mp_):
                        now = getattr(Q["owner"], Q["pub"]).detach()
                        if Q["owner"] is owner and not named:
                            continue        # the prior's name does not tell which parameter it addresses (ConstantMean: mean_prior)
                        if Q["owner"] is owner and Q["pub"] == pub:
                            if not torch.allclose(now, want.expand_as(now) if want.numel() <= now.numel() else want.reshape(now.shape), rtol=1e-9, atol=1e-11):
                                out.fail("multi:prior-closure:%s:sample-readback" % key, "after sample_from_prior(%s) module.%s reads %r, drawn %r"
                                         % (local, pub, now.reshape(-1).tolist()[:3], want.reshape(-1).tolist()[:3]), d2,
                                         impl=now.reshape(-1).tolist()[:4], model=want.reshape(-1).tolist()[:4])
                        elif not torch.equal(now, before[Q["pn"]]):
                            out.fail("multi:prior-closure:%s:sample-changes-other" % key, "sample_from_prior(%s) changed %s" % (local, Q["pn"]), d2,
                                     impl=now.reshape(-1).tolist()[:4], model=before[Q["pn"]].reshape(-1).tolist()[:4])
            except Exception as e:
                out.fail("multi:ctor:%s:construct-with-priors:%s" % (name, type(e).__name__), "constructing with priors raised %s: %s"
                         % (type(e).__name__, str(e)[:200]), desc0)
        # (ii) histories over all parameters against the multi-parameter model
        for h in range(nh):
            m3, _ = make(False)
            params3 = settable(m3)
            prior_names = []
            for Q in params3:       # priors registered BY NAME (setting closure = initialize(<param>=value))
                pn_ = "verif_%s_prior" % Q["pub"]
                try:
                    Q["owner"].register_prior(pn_, _prior_inside(Q["cons"], Q["shape"]), Q["pub"])
                    prior_names.append(pn_)
                except Exception:
                    prior_names.append(None)
            ops = gen_mhistory(params3, rng, 5 if tier == "quick" else 8, prior_names)
            raw0 = [getattr(Q["owner"], Q["leaf"]).detach().reshape(-1)[0].item() for Q in params3]
            if not all(math.isfinite(r) for r in raw0):
                k = [math.isfinite(r) for r in raw0].index(False)
                out.fail("multi:%s:%s:%s:non-finite-after-construction" % (how, type(m3).__name__, params3[k]["pub"]),
                         "right after construction with its constraints parameter %s is not finite (raw %r)" % (params3[k]["pn"], raw0[k]), desc0)
                break
            desc = dict(desc0, ops=[list(o) if not isinstance(o[2], list) else [o[0], o[1], o[2][:4]] for o in ops], raw0=raw0)
            key = "multi:%s:%s" % (how, type(m3).__name__)
            try:
                tr, complaints = apply_mhistory(m3, params3, ops, prior_names)
            except Exception as e:
                out.fail("%s:history-exception:%s" % (key, type(e).__name__), "history raised %s: %s" % (type(e).__name__, str(e)[:200]), desc)
                continue
            out.case(dict(module=name, how=how, rotation=rot, ops=["%d:%s" % (o[0], o[1]) for o in ops]), len(params3) >= 2, label="multi-history:" + how)
            for oi, what, got, want in complaints:
                out.fail("%s:%s:readback" % (key, params3[ops[oi][0]]["pub"]), "op %d (%s on %s): the parameter does not read back the assigned value"
                         % (oi, ops[oi][1], params3[ops[oi][0]]["pn"]), desc, impl=got, model=want)
            bad = [(oi, k) for oi, (_, row, _e) in enumerate(tr) for k, t in enumerate(row) if not (math.isfinite(t[1]) and math.isfinite(t[3]))]
            if bad or any(not math.isfinite(mop[1]) for mop, _, _e in tr):
                oi, k = bad[0] if bad else (0, 0)
                out.fail("%s:%s:non-finite" % (key, params3[k]["pub"]), "after op %d parameter %s is not finite" % (oi, params3[k]["pn"]), desc)
                continue
            try:
                term = mhistory_term(params3, raw0, list(zip(ops, tr)))
            except Exception as e:      # noqa: BLE001 -- a value the model cannot take (non-finite)
                out.fail("%s:history-not-representable:%s" % (key, type(e).__name__), "the recorded history cannot be handed to the model: %r" % e, desc)
                continue
            terms.append(term)
            plan.append((key, desc, ops, tr, params3))
    res = C.coq_run_cases("C17_multi" + TAGSFX, IMPORTS, RUN_DEF, terms, shard=max(8, (len(terms) + 15) // 16))
    for (key, desc, ops, tr, params3), r in zip(plan, res):
        rd = C.Reader(r)
        stop = False
        for oi, (mop, row, exc) in enumerate(tr):
            for k, t in enumerate(row):
                rej_m, read_m = rd.int(), rd.expr()
                if stop:
                    continue
                Q = params3[k]
                l, u = Q["lo"][0], Q["hi"][0]
                scale = 1.0 + sum(abs(b) for b in (l, u) if abs(b) != INF)
                who = "the addressed parameter" if k == ops[oi][0] else "ANOTHER parameter (%s)" % Q["pn"]
                if not t[2]:
                    out.fail("%s:%s:out-of-bounds" % (key, Q["pub"]), "after op %d (%s on %s) %s reads outside its bounds / non-finite"
                             % (oi, ops[oi][1], params3[ops[oi][0]]["pn"], who), desc, impl=t[1])
                    stop = True
                elif t[0] != rej_m:
                    out.fail("%s:%s:rejection" % (key, Q["pub"]), "op %d (%s %r on %s%s): implementation rejected %d assignments to %s so far, model %d"
                             % (oi, ops[oi][1], ops[oi][2], params3[ops[oi][0]]["pn"], (", raised " + exc) if exc else "", t[0], Q["pn"], rej_m), desc, impl=t[0], model=rej_m)
                    stop = True
                elif not close(t[1], read_m, 1e-9 * scale, 1e-8):
                    out.fail("%s:%s:read" % (key, Q["pub"]), "after op %d (%s on %s) %s reads %r, model %r"
                             % (oi, ops[oi][1], params3[ops[oi][0]]["pn"], who, t[1], float(read_m)), desc, impl=t[1], model=float(read_m))
                    stop = True


# ------------------------------------------------------------------------------- C. priors

def priors_table(rng):
    g = lambda a, b: round(rng.uniform(a, b), 3)  # noqa: E731
    for _ in range(3):
        mu, s = g(-2, 2), g(0.2, 3)
        yield "PNormal %s %s" % (C.qc_lit(mu), C.qc_lit(s)), P.NormalPrior(mu, s), (-INF, INF), [mu + s * z for z in (-4, -1, 0, 0.3, 2.5)]
        mu, s = g(-1, 1), g(0.2, 1.5)
        yield "PLogNormal %s %s" % (C.qc_lit(mu), C.qc_lit(s)), P.LogNormalPrior(mu, s), (0, INF), [math.exp(mu + s * z) for z in (-3, -1, 0, 1, 2.5)]
        s = g(0.2, 3)
        yield "PHalfNormal %s" % C.qc_lit(s), P.HalfNormalPrior(s), (0, INF), [s * z for z in (0.01, 0.5, 1, 3)]
        a, b = g(0.5, 5), g(0.3, 4)
        yield "PGamma %s %s" % (C.qc_lit(a), C.qc_lit(b)), P.GammaPrior(a, b), (0, INF), [a / b * z for z in (0.01, 0.5, 1, 2, 6)]
        s = g(0.2, 3)
        yield "PHalfCauchy %s" % C.qc_lit(s), P.HalfCauchyPrior(s), (0, INF), [s * z for z in (0.01, 0.5, 1, 10, 1000)]
        a = g(-2, 2); b = a + g(0.1, 3)
        yield "PUniform %s %s" % (C.qc_lit(a), C.qc_lit(b)), P.UniformPrior(a, b), (a, b), [a + (b - a) * z for z in (0.001, 0.3, 0.999)]
        a = g(-2, 2); b = a + g(0.1, 3); s = g(0.01, 0.5)
        yield ("PSmoothedBox %s %s %s" % (C.qc_lit(a), C.qc_lit(b), C.qc_lit(s)), P.SmoothedBoxPrior(a, b, s), (-INF, INF),
               [a - 3 * s, a - 0.1 * s, a, a + 0.3 * (b - a), b, b + 0.5 * s, b + 4 * s])
        s = g(0.2, 3)
        yield "PHorseshoe %s" % C.qc_lit(s), P.HorseshoePrior(s), None, [s * z for z in (-3, -0.2, 0.01, 1, 20)]


def part_priors(out, rng, tier):
    rows, terms = [], []
    for lit, prior, support, xs in priors_table(rng):
        xs = [float(x) for x in xs]
        terms.append("(KPrior (%s, %s))" % (lit, C.qc_vec(xs)))
        rows.append((lit, prior, support, xs))
    res = C.coq_run_cases("C17_pr" + TAGSFX, IMPORTS, RUN_DEF, terms, shard=4)
    normalised = set()
    for (lit, prior, support, xs), r in zip(rows, res):
        cls = type(prior).__name__
        rd = C.Reader(r)
        with torch.no_grad():
            lp = [prior.log_prob(torch.tensor([x]) if cls == "SmoothedBoxPrior" else torch.tensor(x)).reshape(-1)[0].item()
                  for x in xs]
        for x, got in zip(xs, lp):
            model = rd.expr()
            desc = dict(prior=lit, x=x)
            out.case(desc, True, label="prior-density:" + cls)
            if not close(got, model, 1e-9, 1e-9):
                out.fail("prior:%s:log_prob" % cls, "log_prob(%r) = %r, documented density gives %r" % (x, got, float(model)),
                         desc, impl=got, model=float(model))
        if support is not None and cls not in normalised:
            normalised.add(cls)
            mpmath.mp.dps = 15
            try:
                f = lambda x: mpmath.exp(prior.log_prob(torch.tensor([float(x)]) if cls == "SmoothedBoxPrior"  # noqa: E731
                                                        else torch.tensor(float(x))).reshape(-1)[0].item())
                a, b = support
                pts = [a] + sorted(x for x in xs if a < x < b) + [b]
                total = mpmath.quad(f, [mpmath.mpf(p) if abs(p) != INF else (mpmath.inf if p > 0 else -mpmath.inf) for p in pts],
                                    maxdegree=8)
            finally:
                mpmath.mp.dps = 40
            out.case(dict(prior=lit, check="normalisation"), True, label="prior-normalisation")
            if not close(float(total), 1.0, 1e-5, 0):
                out.fail("prior:%s:normalisation" % cls, "density integrates to %r over its support" % float(total),
                         dict(prior=lit), impl=float(total), model=1.0)


def prior_modules(rng):
    ln = lambda: P.LogNormalPrior(round(rng.uniform(-0.5, 0.5), 2), round(rng.uniform(0.2, 0.8), 2))  # noqa: E731
    ga = lambda: P.GammaPrior(round(rng.uniform(1.5, 4), 2), round(rng.uniform(1, 4), 2))  # noqa: E731
    yield "RBF", lambda: k_.RBFKernel(lengthscale_prior=ln())
    yield "RBF-ard", lambda: k_.RBFKernel(ard_num_dims=3, lengthscale_prior=ga())
    yield "Matern", lambda: k_.MaternKernel(nu=2.5, lengthscale_prior=ga())
    yield "RBFGrad", lambda: k_.RBFKernelGrad(lengthscale_prior=ln())
    yield "Scale", lambda: k_.ScaleKernel(k_.RBFKernel(lengthscale_prior=ln()), outputscale_prior=ga())
    yield "Periodic", lambda: k_.PeriodicKernel(period_length_prior=ln(), lengthscale_prior=ga())
    yield "Cosine", lambda: k_.CosineKernel(period_length_prior=ga())
    yield "Linear", lambda: k_.LinearKernel(variance_prior=ga())
    yield "Polynomial", lambda: k_.PolynomialKernel(power=2, offset_prior=ln())
    yield "PolynomialGrad", lambda: k_.PolynomialKernelGrad(power=2, offset_prior=ga())
    yield "Constant", lambda: k_.ConstantKernel(constant_prior=ga())
    yield "HammingIMQ", lambda: k_.HammingIMQKernel(vocab_size=4, alpha_prior=ga(), beta_prior=ln())
    yield "Cylindrical", lambda: k_.CylindricalKernel(3, k_.RBFKernel(), angular_weights_prior=ga(), alpha_prior=ln(), beta_prior=ga())
    yield "Arc", lambda: k_.ArcKernel(k_.MaternKernel(nu=2.5), radius_prior=ga(),
                                      angle_prior=P.UniformPrior(0.15, 0.85))
    yield "SpectralMixture", lambda: k_.SpectralMixtureKernel(num_mixtures=2, mixture_scales_prior=ga(),
                                                              mixture_means_prior=ln(), mixture_weights_prior=ga())
    yield "Gaussian", lambda: L_.GaussianLikelihood(noise_prior=ga())
    yield "Laplace", lambda: L_.LaplaceLikelihood(noise_prior=ln())
    yield "StudentT", lambda: L_.StudentTLikelihood(noise_prior=ga(), deg_free_prior=P.UniformPrior(2.5, 9.0))
    yield "Beta", lambda: L_.BetaLikelihood(scale_prior=ga())
    yield "MultitaskGaussian", lambda: L_.MultitaskGaussianLikelihood(num_tasks=2, noise_prior=ga())
    yield "ConstantMean", lambda: M_.ConstantMean(constant_prior=P.NormalPrior(0.3, 1.2))


def prior_lit(p):
    f = lambda x: C.qc_lit(x.reshape(-1)[0].item())  # noqa: E731
    n = type(p).__name__
    if n == "LogNormalPrior":
        return "PLogNormal %s %s" % (f(p.loc), f(p.scale))
    if n == "GammaPrior":
        return "PGamma %s %s" % (f(p.concentration), f(p.rate))
    if n == "NormalPrior":
        return "PNormal %s %s" % (f(p.loc), f(p.scale))
    if n == "UniformPrior":
        return "PUniform %s %s" % (f(p.low), f(p.high))
    raise ValueError(n)


def part_prior_modules(out, rng, tier):
    plan, terms = [], []
    for mname, mk in prior_modules(rng):
        st = rng.getstate()
        m = mk()
        for pname, owner, prior, closure, setting in m.named_priors():
            local = pname.split(".")[-1]
            key = "%s:%s" % (type(owner).__name__, local)
            desc = dict(module=mname, prior=pname, prior_class=type(prior).__name__)
            # (i) sample_from_prior then read back through the prior's closure
            out.case(dict(desc, check="sample-readback"), True, label="prior-sample-readback")
            if setting is None:
                out.fail("prior-closure:%s:no-setting-closure" % key, "prior registered without a setting closure: "
                         "sample_from_prior cannot store the sample", desc)
            else:
                seed = rng.randint(0, 10 ** 6)
                try:
                    torch.manual_seed(seed)
                    owner.sample_from_prior(local)
                    got = closure(owner).detach()
                    torch.manual_seed(seed)
                    want = prior.sample().detach()
                    if not torch.allclose(got, want.expand_as(got) if want.numel() <= got.numel() else want.reshape(got.shape),
                                          rtol=1e-9, atol=1e-12):
                        out.fail("prior-closure:%s:sample-readback" % key, "sample_from_prior stored %r but the parameter reads %r"
                                 % (want.reshape(-1).tolist()[:3], got.reshape(-1).tolist()[:3]), desc,
                                 impl=got.reshape(-1).tolist()[:4], model=want.reshape(-1).tolist()[:4])
                except Exception as e:
                    out.fail("prior-closure:%s:sample-exception" % key, "sample_from_prior raised %s: %s" % (type(e).__name__, str(e)[:200]), desc)
            # (ii) the registered prior is evaluated on the CONSTRAINED value
            with torch.no_grad():
                val = closure(owner).detach()
                lp = prior.log_prob(val).reshape(-1)
            vals = val.reshape(-1).tolist()
            terms.append("(KPrior (%s, %s))" % (prior_lit(prior), C.qc_vec(vals)))
            plan.append((key, desc, vals, lp.tolist(), owner, local))
    res = C.coq_run_cases("C17_prm" + TAGSFX, IMPORTS, RUN_DEF, terms, shard=4)
    for (key, desc, vals, lp, owner, local), r in zip(plan, res):
        rd = C.Reader(r)
        out.case(dict(desc, check="density-of-constrained-value"), True, label="prior-on-constrained-value")
        model = [rd.expr() for _ in vals]
        # the public constrained value the prior should see: the property named like the prior
        if len(lp) == len(model):
            bad = [i for i in range(len(lp)) if not close(lp[i], model[i], 1e-9, 1e-9)]
        else:       # reduced over the event dimension
            bad = [] if close(sum(lp), mpmath.fsum(model), 1e-9, 1e-9) else [0]
        if bad:
            out.fail("prior-closure:%s:density" % key, "registered prior log density differs from the documented density of the "
                     "constrained value", desc, impl=lp[:4], model=[float(x) for x in model[:4]])
        pub = local[:-6] if local.endswith("_prior") else None
        if pub and pub.startswith("raw_"):
            pub = pub[4:]
        if pub and isinstance(getattr(type(owner), pub, None), property):
            pv = getattr(owner, pub).detach().reshape(-1).tolist()
            if len(pv) != len(vals) or any(not close(a, b, 1e-12, 1e-12) for a, b in zip(pv, vals)):
                out.fail("prior-closure:%s:wrong-value" % key, "the prior's closure does not read the constrained parameter %s" % pub,
                         desc, impl=vals[:4], model=pv[:4])


# ------------------------------------------------------------------------------- D. LKJ priors

def lkj_factors():
    """lower-triangular factors with RATIONAL unit rows (exact correlation matrices L L^T)"""
    from fractions import Fraction as F
    yield 2, [[1, 0], [F(3, 5), F(4, 5)]]
    yield 2, [[1, 0], [F(-5, 13), F(12, 13)]]
    yield 2, [[1, 0], [0, 1]]
    yield 3, [[1, 0, 0], [F(3, 5), F(4, 5), 0], [F(2, 7), F(3, 7), F(6, 7)]]
    yield 3, [[1, 0, 0], [F(-4, 5), F(3, 5), 0], [F(1, 9), F(4, 9), F(8, 9)]]
    yield 3, [[1, 0, 0], [0, 1, 0], [F(2, 3), F(-1, 3), F(2, 3)]]
    yield 3, [[1, 0, 0], [F(8, 17), F(15, 17), 0], [0, 0, 1]]
    yield 4, [[1, 0, 0, 0], [F(3, 5), F(4, 5), 0, 0], [F(2, 7), F(3, 7), F(6, 7), 0], [F(1, 5), F(2, 5), F(2, 5), F(4, 5)]]
    yield 4, [[1, 0, 0, 0], [F(-5, 13), F(12, 13), 0, 0], [F(1, 3), F(-2, 3), F(2, 3), 0], [F(1, 2), F(-1, 2), F(1, 2), F(1, 2)]]


def part_lkj(out, rng, tier):
    """LKJCholeskyFactorPrior / LKJPrior / LKJCovariancePrior log_prob against the documented densities.
    Model: lp_lkj_chol (density of the Cholesky factor = torch LKJCholesky) and lp_lkj_corr (density of the
    correlation matrix, C |Sigma|^(eta-1), what LKJPrior documents); Props: the two differ by the log Jacobian."""
    from fractions import Fraction as F
    etas = [1.0, 0.5, 2.5, 4.0] if tier == "quick" else [1.0, 0.5, 0.75, 1.5, 2.5, 4.0, 10.0]
    sds_pool = [F(1, 2), F(3, 2), F(2), F(3, 4)]
    sd_priors = [("PGamma %s %s" % (C.qc_lit(2.0), C.qc_lit(3.0)), lambda n: P.GammaPrior(2.0, 3.0), "scalar"),
                 ("PLogNormal %s %s" % (C.qc_lit(0.25), C.qc_lit(0.75)), lambda n: P.LogNormalPrior(0.25, 0.75), "scalar"),
                 ("PSmoothedBox %s %s %s" % (C.qc_lit(0.25), C.qc_lit(2.5), C.qc_lit(0.125)),
                  lambda n: P.SmoothedBoxPrior(0.25, 2.5, 0.125), "event1")]
    rows, terms = [], []
    for n, L in lkj_factors():
        Lf = [[F(x) for x in r] for r in L]
        S = [[sum(Lf[i][k] * Lf[j][k] for k in range(n)) for j in range(n)] for i in range(n)]
        assert all(S[i][i] == 1 for i in range(n))
        sds = sds_pool[:n]
        for eta in etas:
            rows.append((n, Lf, S, eta, sds, len(terms)))
            terms.append("(KLKJ (%d%%nat, %s, %s))" % (n, C.qc_lit(eta), C.qc_vec([Lf[i][i] for i in range(n)])))
    sd_off = len(terms)
    for lit, _, _ in sd_priors:        # the sd-prior densities at the pool values
        terms.append("(KPrior (%s, %s))" % (lit, C.qc_vec(sds_pool)))
    res = C.coq_run_cases("C17_lkj" + TAGSFX, IMPORTS, RUN_DEF, terms, shard=max(4, (len(terms) + 7) // 8))
    sd_model = []
    for k in range(len(sd_priors)):
        rd = C.Reader(res[sd_off + k])
        sd_model.append([rd.expr() for _ in sds_pool])
    tof = lambda M: torch.tensor([[float(x) for x in r] for r in M])  # noqa: E731
    for n, Lf, S, eta, sds, ti in rows:
        rd = C.Reader(res[ti])
        m_chol, m_corr = rd.expr(), rd.expr()
        desc = dict(n=n, eta=eta, L=[[float(x) for x in r] for r in Lf])
        jac = abs(float(m_chol - m_corr)) > 1e-9
        # 1. the factor prior
        out.case(dict(desc, prior="LKJCholeskyFactorPrior"), True, label="prior-density:LKJCholeskyFactorPrior")
        with torch.no_grad():
            got = P.LKJCholeskyFactorPrior(n, eta).log_prob(tof(Lf)).item()
        if not close(got, m_chol, 1e-9, 1e-9):
            out.fail("prior:LKJCholeskyFactorPrior:log_prob", "log_prob(L) = %r, documented density of the Cholesky factor gives %r"
                     % (got, float(m_chol)), desc, impl=got, model=float(m_chol))
        # 2. the prior over correlation matrices
        out.case(dict(desc, prior="LKJPrior"), jac, label="prior-density:LKJPrior")
        with torch.no_grad():
            got = P.LKJPrior(n, eta).log_prob(tof(S)).item()
        if not close(got, m_corr, 1e-9, 1e-9):
            if close(got, m_chol, 1e-9, 1e-9):
                out.fail("prior:LKJPrior:factor-density-not-matrix-density",
                         "LKJPrior(n=%d, eta=%r).log_prob(Sigma) = %r is the density of the Cholesky FACTOR at chol(Sigma); the "
                         "documented density C|Sigma|^(eta-1) of the correlation matrix gives %r (they differ by the Jacobian "
                         "prod_i L_ii^(n-i), n >= 3)" % (n, eta, got, float(m_corr)), desc, impl=got, model=float(m_corr))
            else:
                out.fail("prior:LKJPrior:log_prob", "log_prob(Sigma) = %r matches neither the documented matrix density %r nor the "
                         "factor density %r" % (got, float(m_corr), float(m_chol)), desc, impl=got, model=float(m_corr))
        # 3. covariance prior = LKJ on the correlations + sd prior on the marginal standard deviations
        D = [[sds[i] if i == j else F(0) for j in range(n)] for i in range(n)]
        X = [[D[i][i] * S[i][j] * D[j][j] for j in range(n)] for i in range(n)]
        for k, (lit, mk, kind) in enumerate(sd_priors):
            d2 = dict(desc, prior="LKJCovariancePrior", sd_prior=lit, sds=[float(x) for x in sds])
            out.case(d2, True, label="prior-density:LKJCovariancePrior")
            sd_terms = [sd_model[k][sds_pool.index(x)] for x in sds]
            want = m_chol + mpmath.fsum(sd_terms)      # the correlation part as LKJPrior evaluates it (see 2.)
            try:
                with torch.no_grad():
                    got = P.LKJCovariancePrior(n, eta, mk(n)).log_prob(tof(X))
            except Exception as e:
                out.fail("prior:LKJCovariancePrior:exception", "log_prob raised %s: %s" % (type(e).__name__, str(e)[:200]), d2)
                continue
            if got.numel() == 1:
                if not close(got.item(), want, 1e-9, 1e-9):
                    out.fail("prior:LKJCovariancePrior:log_prob", "log_prob(X) = %r; LKJ density of the correlations + sum of the "
                             "sd-prior densities of sqrt(diag X) = %r" % (got.item(), float(want)), d2, impl=got.item(),
                             model=float(want))
            else:
                g = got.reshape(-1).tolist()
                per = [m_chol + t for t in sd_terms]
                if len(g) == n and all(close(a, b, 1e-9, 1e-9) for a, b in zip(g, per)):
                    out.fail("prior:LKJCovariancePrior:scalar-sd-prior-not-summed",
                             "with a scalar sd_prior (the documented usage) log_prob(X) returns %d values log p(corr) + log p(sd_i) "
                             "instead of the joint log density log p(corr) + sum_i log p(sd_i) = %r (the MLL sums them, counting the "
                             "LKJ term %d times)" % (n, float(want), n), d2, impl=g, model=float(want))
                else:
                    out.fail("prior:LKJCovariancePrior:log_prob", "log_prob(X) returns %r; expected the joint log density %r"
                             % (g, float(want)), d2, impl=g, model=float(want))


# ------------------------------------------------------------------------------- E. transform= / multivariate normal

def part_prior_transforms(out, rng, tier):
    """Prior(..., transform=t).log_prob(x) is the base density at t(x) (priors/prior.py); MultivariateNormalPrior
    against det(2 pi Sigma)^-1/2 exp(-1/2 (x-mu)' Sigma^-1 (x-mu)) with exact rational linear algebra."""
    g = lambda a, b: round(rng.uniform(a, b), 3)  # noqa: E731
    TR = {1: torch.log, 2: torch.exp, 3: torch.square}
    rows, terms = [], []
    for _ in range(2 if tier == "quick" else 8):
        mu, sd = g(-1, 1), g(0.3, 2)
        a, b = g(0.8, 4), g(0.5, 3)
        table = [("PNormal %s %s" % (C.qc_lit(mu), C.qc_lit(sd)), lambda t: P.NormalPrior(mu, sd, transform=t), 1, [0.05, 0.7, 1.0, 3.5, 40.0]),
                 ("PNormal %s %s" % (C.qc_lit(mu), C.qc_lit(sd)), lambda t: P.NormalPrior(mu, sd, transform=t), 3, [-2.0, -0.3, 0.0, 0.9, 2.5]),
                 ("PGamma %s %s" % (C.qc_lit(a), C.qc_lit(b)), lambda t: P.GammaPrior(a, b, transform=t), 2, [-3.0, -0.5, 0.0, 0.8, 2.0]),
                 ("PLogNormal %s %s" % (C.qc_lit(mu), C.qc_lit(sd)), lambda t: P.LogNormalPrior(mu, sd, transform=t), 2, [-2.0, 0.0, 0.4, 1.5]),
                 ("PHalfCauchy %s" % C.qc_lit(sd), lambda t: P.HalfCauchyPrior(sd, transform=t), 3, [-1.5, 0.2, 0.0, 3.0]),
                 ("PHalfNormal %s" % C.qc_lit(sd), lambda t: P.HalfNormalPrior(sd, transform=t), 2, [-4.0, -1.0, 0.0, 1.0]),
                 ("PHorseshoe %s" % C.qc_lit(sd), lambda t: P.HorseshoePrior(sd, transform=t), 2, [-2.0, 0.0, 1.0]),
                 ("PSmoothedBox %s %s %s" % (C.qc_lit(a), C.qc_lit(a + b), C.qc_lit(0.125)),
                  lambda t: P.SmoothedBoxPrior(a, a + b, 0.125, transform=t), 2, [-1.0, 0.0, 0.7, 1.4, 2.2])]
        for lit, mk, t, xs in table:
            xs = [float(x) for x in xs]
            rows.append(("tr", lit, mk(TR[t]), t, xs, len(terms)))
            terms.append("(KPriorT (%s, %d%%nat, %s))" % (lit, t, C.qc_vec(xs)))
    for k in (1, 2, 3, 4):
        for _ in range(2 if tier == "quick" else 6):
            Lm = [[rng.randint(-8, 8) / 8.0 if j < i else (rng.randint(2, 12) / 8.0 if j == i else 0.0) for j in range(k)] for i in range(k)]
            Lt = torch.tensor(Lm)
            Sg = (Lt @ Lt.T)
            mu = [rng.randint(-16, 16) / 8.0 for _ in range(k)]
            for kw in ("covariance_matrix", "scale_tril"):
                xs = [rng.randint(-24, 24) / 8.0 for _ in range(k)]
                prior = P.MultivariateNormalPrior(torch.tensor(mu), **{kw: Sg if kw == "covariance_matrix" else Lt})
                rows.append(("mvn", kw, prior, k, (mu, Sg.tolist(), xs), len(terms)))
                terms.append("(KMVN (%d%%nat, %s, %s, %s))" % (k, C.qc_vec(mu), C.qc_mat(Sg.tolist()), C.qc_vec(xs)))
    res = C.coq_run_cases("C17_ptr" + TAGSFX, IMPORTS, RUN_DEF, terms, shard=max(4, (len(terms) + 7) // 8))
    for kind, lit, prior, t, data, ti in rows:
        rd = C.Reader(res[ti])
        if kind == "tr":
            cls = type(prior).__name__
            for x in data:
                model = rd.expr()
                desc = dict(prior=lit, transform={1: "log", 2: "exp", 3: "square"}[t], x=x)
                out.case(desc, True, label="prior-transform:" + cls)
                with torch.no_grad():
                    got = prior.log_prob(torch.tensor([x]) if cls == "SmoothedBoxPrior" else torch.tensor(x)).reshape(-1)[0].item()
                if not close(got, model, 1e-9, 1e-9):
                    out.fail("prior:%s:transform" % cls, "%s(transform=%s).log_prob(%r) = %r, base density at transform(x) gives %r"
                             % (cls, desc["transform"], x, got, float(model)), desc, impl=got, model=float(model))
        else:
            mu, Sg, xs = data
            desc = dict(prior="MultivariateNormalPrior", given=lit, k=t, mu=mu, Sigma=Sg, x=xs)
            out.case(desc, True, label="prior-density:MultivariateNormalPrior")
            if rd.int() != 1:
                out.fail("prior:MultivariateNormalPrior:model", "model could not invert the generated covariance", desc)
                continue
            model = rd.expr()
            with torch.no_grad():
                got = prior.log_prob(torch.tensor(xs)).item()
            if not close(got, model, 1e-9, 1e-9):
                out.fail("prior:MultivariateNormalPrior:log_prob", "log_prob(x) = %r, documented density gives %r" % (got, float(model)),
                         desc, impl=got, model=float(model))


# ------------------------------------------------------------------------------- G. bounds replaced

def bounds_factories():
    """(name, mk(constraint) -> module, raw leaf name of the parameter that constraint governs)"""
    B = torch.Size([2])
    yield "Gaussian.noise", lambda c: L_.GaussianLikelihood(noise_constraint=c), "raw_noise"
    yield "Gaussian-batch.noise", lambda c: L_.GaussianLikelihood(noise_constraint=c, batch_shape=B), "raw_noise"
    yield "RBF.lengthscale", lambda c: k_.RBFKernel(lengthscale_constraint=c), "raw_lengthscale"
    yield "RBF-ard.lengthscale", lambda c: k_.RBFKernel(ard_num_dims=2, lengthscale_constraint=c), "raw_lengthscale"
    yield "Scale.outputscale", lambda c: k_.ScaleKernel(k_.RBFKernel(), outputscale_constraint=c), "raw_outputscale"
    yield "Periodic.period_length", lambda c: k_.PeriodicKernel(period_length_constraint=c), "raw_period_length"
    yield "RQ.alpha", lambda c: k_.RQKernel(alpha_constraint=c), "raw_alpha"
    yield "Linear.variance", lambda c: k_.LinearKernel(variance_constraint=c), "raw_variance"
    yield "ConstantMean.constant", lambda c: M_.ConstantMean(constant_constraint=c), "raw_constant"
    yield "Cosine.period_length", lambda c: k_.CosineKernel(period_length_constraint=c), "raw_period_length"
    yield "StudentT.noise", lambda c: L_.StudentTLikelihood(noise_constraint=c), "raw_noise"
    # (StudentTLikelihood(deg_free_constraint=c) cannot be built unless c contains 7: its constructor ends with initialize(deg_free=7))
    yield "Laplace.noise", lambda c: L_.LaplaceLikelihood(noise_constraint=c), "raw_noise"


def mk_cons(spec):
    kind, l, u = spec
    return Interval(l, u) if kind == "interval" else GreaterThan(l) if kind == "greater" else LessThan(u)


def draw_bounds(rng, kind=None, wider_than=None):
    """(kind, l, u): dyadic bounds; successive draws differ in BOTH position and width"""
    kind = kind or rng.choice(["interval", "interval", "greater", "less"])
    if kind == "interval":
        l = rng.randint(1, 48) / 16.0
        return (kind, l, l + rng.choice([0.25, 0.5, 1.0, 3.0, 8.0, 40.0]))
    if kind == "greater":
        return (kind, rng.randint(1, 64) / 16.0, INF)
    return (kind, -INF, rng.randint(16, 160) / 16.0)


def find_param(m, leaf):
    for d in discover(m):
        if d[2] == leaf:
            return d
    raise RuntimeError("no constrained parameter %s" % leaf)


def far_from_bounds(v, l, u):
    return all(abs(v - b) > 1e-3 * (1 + abs(b)) for b in (l, u) if abs(b) != INF)


def gen_bhistory(rng, spec0, maxlen):
    """ops of part B plus operations that REPLACE the bounds: load (state dict of a module of the same constraint
    class built with other bounds, holding an interior value of ITS bounds), load-bounds (only the bound buffers,
    strict=False), register (register_constraint with a new constraint of any class), cast (.double() / .to() /
    .cpu() / deepcopy / pickle / own state dict into a fresh module: bounds unchanged).  Assigned values are drawn
    from the interior of the bounds in force, from the interior of the PREVIOUS bounds (accepted or not according to
    the new bounds: the model decides) and from outside."""
    cur, prev = spec0, None
    ops = []
    n = rng.randint(3, maxlen)
    replaced = False
    for i in range(n):
        kinds = ["set", "set", "initcons", "initraw", "step", "step", "set_bad", "sample"]
        if i < n - 1:
            kinds += ["load", "load", "load", "load-bounds", "register", "register", "cast"]
        if i == 0 or (i == n - 3 and not replaced):
            kinds = ["load", "load", "load-bounds", "register"]
        kind = rng.choice(kinds)
        if kind in ("load", "load-bounds"):
            spec = draw_bounds(rng, cur[0])
            if spec == cur:
                spec = draw_bounds(rng, cur[0])
            v = pick_interior(spec[1], spec[2], rng)
            ops.append((kind, list(spec), v))
            prev, cur, replaced = cur, spec, True
        elif kind == "register":
            spec = draw_bounds(rng)
            ops.append((kind, list(spec)))
            prev, cur, replaced = cur, spec, True
        elif kind == "cast":
            # (a module with a prior registered by NAME holds local closures and cannot be pickled: no pickle after `sample`)
            sampled = any(o_[0] == "sample" for o_ in ops)
            ops.append((kind, rng.choice(["double", "to64", "cpu", "deepcopy", "state_dict"] + ([] if sampled else ["pickle"]))))
        elif kind in ("set", "initcons", "set_bad"):
            for _ in range(50):
                src = rng.choice(["cur", "cur", "prev", "out"]) if kind != "set_bad" else "out"
                if src == "prev" and prev is not None:
                    v = pick_interior(prev[1], prev[2], rng)
                elif src == "out":
                    v = pick_outside(cur[1], cur[2], rng)
                else:
                    v = pick_interior(cur[1], cur[2], rng)
                if far_from_bounds(v, cur[1], cur[2]):
                    break
            ops.append(("initcons" if kind == "initcons" else "set", v))
        elif kind == "sample":
            # a UniformPrior strictly inside the bounds in force, registered on the public name; seeded draw
            l, u = cur[1], cur[2]
            a = pick_interior(l, u, rng)
            b = pick_interior(l, u, rng)
            a, b = min(a, b), max(a, b)
            if b - a < 1e-3:
                b = a + 1e-3 if far_from_bounds(a + 2e-3, l, u) and (u == INF or a + 2e-3 < u) else a
            ops.append(("sample", a, b, rng.randint(0, 10 ** 6)) if b > a else ("set", a))
        elif kind == "initraw":
            ops.append((kind, rng.choice([rng.gauss(0, 3), rng.uniform(-30, 30)])))
        else:
            ops.append((kind, rng.choice([0.01, 0.5, 5.0, 100.0]), rng.uniform(-3, 3)))
    return ops


def apply_bhistory(mk, leaf, spec0, ops):
    """returns (raw0, trace, model ops): trace entries (rejected so far, read elem0, in CURRENT bounds (constraint
    object's own buffers), bounds held by the constraint object (l, u), expected bounds)"""
    import copy as _copy
    import pickle as _pickle
    m = mk(mk_cons(spec0))
    _, owner, _, pub, c = find_param(m, leaf)
    raw0 = getattr(owner, leaf).detach().reshape(-1)[0].item()
    cur = tuple(spec0)
    rej, trace, mops = 0, [], []
    for o in ops:
        kind = o[0]
        mop = None
        try:
            if kind == "load":
                donor = mk(mk_cons(tuple(o[1])))
                _, downer, _, _, _ = find_param(donor, leaf)
                setattr(downer, pub, torch.tensor(o[2]))
                rawd = getattr(downer, leaf).detach().reshape(-1)[0].item()
                sd = {k: v for k, v in m.state_dict().items() if "_prior_g." in k}    # priors registered by earlier `sample` ops
                sd.update(donor.state_dict())
                m.load_state_dict(sd)
                cur = tuple(o[1])
                mop = "BLoad %s %s" % (cons_lit(cur[1], cur[2]), econst(rawd))
            elif kind == "load-bounds":
                donor = mk(mk_cons(tuple(o[1])))
                sd = {k: v for k, v in donor.state_dict().items() if k.endswith(leaf + "_constraint.lower_bound")
                      or k.endswith(leaf + "_constraint.upper_bound")}
                if len(sd) != 2:
                    raise KeyError("bound buffers of %s not found in the state dict: %s" % (leaf, sorted(donor.state_dict())))
                m.load_state_dict(sd, strict=False)
                cur = tuple(o[1])
                mop = "BReplace %s" % cons_lit(cur[1], cur[2])
            elif kind == "register":
                owner.register_constraint(leaf, mk_cons(tuple(o[1])))
                cur = tuple(o[1])
                mop = "BReplace %s" % cons_lit(cur[1], cur[2])
            elif kind == "cast":
                if o[1] == "double":
                    m = m.double()
                elif o[1] == "to64":
                    m = m.to(torch.float64)
                elif o[1] == "cpu":
                    m = m.cpu()
                elif o[1] == "deepcopy":
                    m = _copy.deepcopy(m)
                elif o[1] == "pickle":
                    m = _pickle.loads(_pickle.dumps(m))
                else:
                    fresh = mk(mk_cons(cur))
                    _, fowner, _, _, _ = find_param(fresh, leaf)
                    if type(fowner.constraint_for_parameter_name(leaf)) is not type(find_param(m, leaf)[4]):
                        fowner.register_constraint(leaf, mk_cons(cur))
                    fresh.load_state_dict({k: v for k, v in m.state_dict().items() if "_prior_g." not in k})
                    m = fresh
                _, owner, _, pub, c = find_param(m, leaf)
                mop = "BReplace %s" % cons_lit(cur[1], cur[2])
        except RuntimeError as e:
            return raw0, trace, mops, "%s raised %s: %s" % (kind, type(e).__name__, str(e)[:200])
        try:
            if kind == "set":
                mop = "BOp (Set_ %s)" % C.qc_lit(o[1])
                setattr(owner, pub, torch.tensor(o[1]))
            elif kind == "initcons":
                mop = "BOp (InitCons %s)" % C.qc_lit(o[1])
                owner.initialize(**{pub: torch.tensor(o[1])})
            elif kind == "initraw":
                mop = "BOp (InitRaw %s)" % econst(o[1])
                owner.initialize(**{leaf: torch.full_like(getattr(owner, leaf).data, o[1])})
            elif kind == "sample":
                prior = P.UniformPrior(o[1], o[2])
                torch.manual_seed(o[3])
                drawn = prior.sample().detach().reshape(-1)[0].item()
                mop = "BOp (Set_ %s)" % C.qc_lit(drawn)
                owner.register_prior(pub + "_prior_g", prior, pub)
                torch.manual_seed(o[3])
                owner.sample_from_prior(pub + "_prior_g")
        except RuntimeError:
            rej += 1
        if kind == "step":
            raw = getattr(owner, leaf)
            before = raw.detach().clone()
            opt = torch.optim.SGD([raw], lr=o[1])
            opt.zero_grad()
            loss = ((getattr(owner, pub) - (getattr(owner, pub).detach() + o[2])) ** 2).sum()
            loss.backward()
            opt.step()
            delta = (raw.detach() - before).reshape(-1)[0].item()
            mop = "BOp (Step %s)" % econst(delta if math.isfinite(delta) else 0.0)
        c = owner.constraint_for_parameter_name(leaf)
        with torch.no_grad():
            rd = getattr(owner, pub)
            lo, hi = c.lower_bound.expand(rd.shape), c.upper_bound.expand(rd.shape)
            inb = bool(torch.isfinite(rd).all() and (rd >= lo).all() and (rd <= hi).all())
            same = bool((rd == rd.reshape(-1)[0]).all()) if kind in ("set", "initcons", "initraw", "load", "sample") else True
            trace.append((rej, rd.reshape(-1)[0].item(), inb, (lo.reshape(-1)[0].item(), hi.reshape(-1)[0].item()),
                          (cur[1], cur[2]), getattr(owner, leaf).detach().reshape(-1)[0].item(), same))
        mops.append(mop)
    return raw0, trace, mops, None


def part_bounds_replaced(out, rng, tier):
    """G. the bounds of a constrained parameter are module STATE (buffers of the constraint, part of the state dict) and
    the constraint object can be exchanged: histories that replace them, followed by the usual operations, against the
    model cell under the bounds IN FORCE (Models/C17_constraints.v bstep; theorem c17_bounds_replaced_history_in_bounds).
    Also the bare constraint modules: load_state_dict / deepcopy / cast, then transform / inverse_transform under the
    new bounds."""
    nh = 3 if tier == "quick" else 14
    plan, terms = [], []
    for name, mk, leaf in bounds_factories():
        for h in range(nh):
            kind0 = ["interval", "interval", "greater", "less"][h % 4] if tier != "quick" else rng.choice(["interval", "interval", "greater", "less"])
            spec0 = draw_bounds(rng, "interval" if h == 0 else kind0)
            ops = gen_bhistory(rng, spec0, 7)
            desc = dict(part="bounds-replaced", module=name, bounds0=list(spec0), ops=[list(o) for o in ops])
            key = name
            try:
                raw0, tr, mops, err = apply_bhistory(mk, leaf, spec0, ops)
            except Exception as e:      # noqa: BLE001
                out.case(dict(part="bounds-replaced", module=name, ops=[o[0] for o in ops]), True, label="bounds-replaced-history")
                out.fail("bounds-replaced:%s:exception" % key, "history raised %s: %s" % (type(e).__name__, str(e)[:300]), desc)
                continue
            if err:
                out.case(dict(part="bounds-replaced", module=name, ops=[o[0] for o in ops]), True, label="bounds-replaced-history")
                out.fail("bounds-replaced:%s:replace-op-raised" % key, "replacing the bounds failed: %s" % err, desc)
                continue
            bad = [i for i, t in enumerate(tr) if not (math.isfinite(t[1]) and math.isfinite(t[5]))]
            if bad:
                i = bad[0]
                out.case(dict(part="bounds-replaced", module=name, ops=[o[0] for o in ops]), True, label="bounds-replaced-history")
                out.fail("bounds-replaced:%s:out-of-bounds" % key, "after op %d (%s) the parameter (raw %r) reads %r under bounds %s"
                         % (i, ops[i][0], tr[i][5], tr[i][1], tr[i][4]), desc, impl=tr[i][1])
                continue
            terms.append("(KBHistory (%s, %s, [%s]))" % (cons_lit(spec0[1], spec0[2]), C.qc_lit(raw0), "; ".join(mops)))
            plan.append((key, desc, tr, ops))
    res = C.coq_run_cases("C17_bhist" + TAGSFX, IMPORTS, RUN_DEF, terms, shard=max(4, (len(terms) + 7) // 8)) if terms else []
    for (key, desc, tr, ops), r in zip(plan, res):
        rd = C.Reader(r)
        out.case(dict(part="bounds-replaced", module=desc["module"], bounds0=desc["bounds0"], ops=[o[0] for o in ops]), True,
                 label="bounds-replaced-history")
        for o in ops:
            out.count("bounds-replaced-op:" + (o[0] if o[0] != "cast" else "cast:" + o[1]))
        for i, t in enumerate(tr):
            rej_m = rd.int()
            read_m = rd.expr()
            l, u = t[4]
            scale = 1.0 + sum(abs(b) for b in (l, u) if abs(b) != INF)
            if tuple(t[3]) != (l, u):
                out.fail("bounds-replaced:%s:bounds-not-replaced" % key, "after op %d (%s) the constraint holds bounds %s, expected %s"
                         % (i, ops[i][0], t[3], (l, u)), desc, impl=list(t[3]), model=[l, u])
                break
            if not t[2]:
                out.fail("bounds-replaced:%s:out-of-bounds" % key, "after op %d (%s) the parameter reads %r: outside the bounds in force "
                         "[%r, %r]" % (i, ops[i][0], t[1], l, u), desc, impl=t[1], model=float(read_m))
                break
            if t[0] != rej_m:
                out.fail("bounds-replaced:%s:rejection" % key, "op %d (%s %r under bounds [%r, %r]): implementation rejected %d "
                         "assignments so far, model %d" % (i, ops[i][0], ops[i][1], l, u, t[0], rej_m), desc, impl=t[0], model=rej_m)
                break
            if not close(t[1], read_m, 1e-9 * scale, 1e-8):
                out.fail("bounds-replaced:%s:read" % key, "after op %d (%s) the parameter reads %r, model %r (bounds in force [%r, %r])"
                         % (i, ops[i][0], t[1], float(read_m), l, u), desc, impl=t[1], model=float(read_m))
                break
            if ops[i][0] == "load" and not close(t[1], ops[i][2], 1e-9 * scale, 1e-8):
                out.fail("bounds-replaced:%s:saved-value-not-read-back" % key, "a module saved with value %r under bounds [%r, %r] "
                         "reads %r after load_state_dict" % (ops[i][2], l, u, t[1]), desc, impl=t[1], model=ops[i][2])
                break
            if not t[6]:
                out.fail("bounds-replaced:%s:elements-differ" % key, "after op %d (%s) the elements of the parameter differ" % (i, ops[i][0]), desc)
                break
    # bare constraint modules
    import copy as _copy
    grid = [-40.0, -12.0, -3.0, -0.5, 0.0, 0.25, 2.0, 7.0, 15.0, 40.0, 800.0, -800.0]
    metas, terms = [], []
    for _ in range(6 if tier == "quick" else 40):
        spec0 = draw_bounds(rng)
        spec1 = draw_bounds(rng, spec0[0])
        how = rng.choice(["load_state_dict", "load_state_dict", "load+deepcopy", "load+double", "deepcopy+load"])
        c = mk_cons(spec0)
        if how.startswith("deepcopy"):
            c = _copy.deepcopy(c)
        c.load_state_dict(mk_cons(spec1).state_dict())
        if how.endswith("deepcopy"):
            c = _copy.deepcopy(c)
        if how.endswith("double"):
            c = c.double()
        vals = interior_values(spec1[1], spec1[2], rng)
        terms.append("(KTransform (%s, %s))" % (cons_lit(spec1[1], spec1[2]), C.qc_vec(grid)))
        terms.append("(KInverse (%s, %s))" % (cons_lit(spec1[1], spec1[2]), C.qc_vec(vals)))
        metas.append((spec0, spec1, how, c, vals))
    res = C.coq_run_cases("C17_bcons" + TAGSFX, IMPORTS, RUN_DEF, terms, shard=max(2, (len(terms) + 3) // 4)) if terms else []
    for k, (spec0, spec1, how, c, vals) in enumerate(metas):
        l, u = spec1[1], spec1[2]
        scale = 1.0 + sum(abs(b) for b in (l, u) if abs(b) != INF)
        desc = dict(part="bounds-replaced", constraint=type(c).__name__, built=list(spec0), loaded=list(spec1), how=how)
        out.case(desc, True, label="bounds-replaced-constraint")
        rd = C.Reader(res[2 * k])
        with torch.no_grad():
            T = c.transform(torch.tensor(grid)).reshape(-1).tolist()
        for r_, t in zip(grid, T):
            mod = rd.expr()
            if not math.isfinite(t) or t < l or t > u:
                out.fail("bounds-replaced:%s:transform-leaves-bounds" % type(c).__name__, "built with %s, bounds %s loaded (%s): "
                         "transform(%r) = %r is outside [%r, %r]" % (spec0, spec1, how, r_, t, l, u), dict(desc, raw=r_), impl=t, model=float(mod))
                break
            if not close(t, mod, 1e-9 * scale, 1e-9):
                out.fail("bounds-replaced:%s:transform" % type(c).__name__, "built with %s, bounds %s loaded (%s): transform(%r) = %r, "
                         "documented map under the loaded bounds %r" % (spec0, spec1, how, r_, t, float(mod)), dict(desc, raw=r_), impl=t, model=float(mod))
                break
        rd = C.Reader(res[2 * k + 1])
        with torch.no_grad():
            inv = c.inverse_transform(torch.tensor(vals)).reshape(-1)
            back = c.transform(inv).reshape(-1).tolist()
            inv = inv.tolist()
        for v, iv, bk in zip(vals, inv, back):
            if rd.int() != 1:
                continue
            mod = rd.expr()
            if not close(iv, mod, 1e-9, 1e-9):
                out.fail("bounds-replaced:%s:inverse" % type(c).__name__, "built with %s, bounds %s loaded (%s): inverse_transform(%r) = %r, "
                         "documented inverse under the loaded bounds %r" % (spec0, spec1, how, v, iv, float(mod)), dict(desc, value=v), impl=iv, model=float(mod))
                break
            if not close(bk, v, 1e-9 * scale, 1e-9):
                out.fail("bounds-replaced:%s:roundtrip" % type(c).__name__, "transform(inverse_transform(%r)) = %r after loading bounds %s"
                         % (v, bk, spec1), dict(desc, value=v), impl=bk, model=v)
                break


# ------------------------------------------------------------------------------- entry points

def run(out, ctx):
    import time
    tier, seed = ctx["tier"], ctx["seed"]
    rng = random.Random(seed * 7907 + 17)
    torch.manual_seed(seed)
    times = {}
    for name, part in (("transforms", part_transforms), ("modules", part_modules), ("priors", part_priors),
                       ("prior_modules", part_prior_modules), ("lkj", part_lkj), ("prior_transforms", part_prior_transforms),
                       ("multi", part_multi), ("bounds_replaced", part_bounds_replaced)):
        t0 = time.time()
        part(out, rng, tier)
        times[name] = round(time.time() - t0, 1)
    out.extra["part_seconds"] = times
    out.rule = ("A: 12 constraints (4 classes, scalar + tensor bounds) x %d raw values over the whole float64 range "
                "(0, subnormals, +-1e-308..+-1.797e308, softplus/sigmoid saturation points) + interior values; "
                "B: every constrained parameter found by named_parameters_and_constraints() in one instance of %d "
                "kernel/likelihood/mean configurations: setter round trip (scalar + tensor), out-of-bounds assignment, "
                "random histories (<= 6 ops of set / out-of-bounds set / initialize(raw) / initialize(constrained) / SGD step); "
                "C: 8 prior classes x 3 parameter draws x support grid, normalisation by quadrature, every *_prior kwarg of "
                "%d modules: sample_from_prior read-back and density on the constrained value; D: LKJCholeskyFactorPrior / "
                "LKJPrior / LKJCovariancePrior (3 sd priors) on 9 exact rational correlation matrices (n = 2, 3, 4) x 4 eta; "
                "E: 8 prior classes with transform= (log / exp / square) and MultivariateNormalPrior (k = 1..4, covariance / "
                "scale_tril parametrisation) against exact rational linear algebra; "
                "F: every module with constrained parameters built so that EACH parameter has its own non-default constraint (classes rotate Interval / "
                "GreaterThan / LessThan, pairwise different bounds, tensor-valued bounds for ARD / batched parameters): %d classes through their "
                "<param>_constraint constructor keywords (found by signature inspection; the keyword must land on raw_<param>) and every multi-parameter "
                "module of B through Module.register_constraint, 2 rotations each; histories of set / tensor set / initialize (local and dotted name from the "
                "root) / raw initialize / SGD step / out-of-bounds set (chosen inside a sibling's bounds where possible) / sample_from_prior (priors "
                "registered by name) addressed to ALL parameters, EVERY parameter compared with the multi-parameter model after every op; sample_from_prior "
                "through the constructors' own <param>_prior closures under the distinct constraints; "
                "G: histories in which the BOUNDS of a parameter are replaced (12 module configurations x 3 histories, initial class Interval / "
                "GreaterThan / LessThan): load_state_dict from a module of the same constraint class built with other bounds (position and width "
                "differ) holding an interior value of its own bounds, load_state_dict of the bound buffers only (strict=False), register_constraint "
                "with a new constraint of any class, .double() / .to() / .cpu() / deepcopy / pickle / state-dict round trip into a fresh module, "
                "each followed by read / set (values from the interior of the bounds in force, of the PREVIOUS bounds, and outside) / initialize / "
                "raw initialize / SGD step / sample_from_prior (seeded UniformPrior), every read compared with the model cell under the bounds IN "
                "FORCE and the constraint's own buffers with the expected bounds; bare constraint objects after load_state_dict / deepcopy / cast: "
                "transform over a raw grid and inverse_transform / round trip under the loaded bounds"
                % (len(RAW_GRID) + (20 if tier == "quick" else 200), len(list(modules_table())), len(list(prior_modules(rng))),
                   len(list(ctor_table()))))
    out.exhaustive = False
    out.extra["tolerances"] = {"transform/inverse/log_prob vs model": "1e-9 (abs scaled by bounds + rel)",
                               "inverse(transform(raw)) on |raw|<=15": 1e-6, "normalisation": 1e-5}
    out.tested_not_proved = [
        "float64 saturation: softplus(-800)=0 / sigmoid(40)=1 give the CLOSED interval; softplus(x)=x above threshold 20; "
        "inv_softplus near 1e-30 (libm rounding; swept over the raw grid)",
        "normalisation of the prior densities (improper integrals; mpmath.quad of the implementation's density)",
        "sample_from_prior read-back (one seeded draw per registered prior)"]


def replay(path):
    d = json.load(open(path))
    print(json.dumps({k: d[k] for k in ("key", "what", "case", "impl", "model")}, indent=1, default=str)[:3000])
    out = C.Outcome("C17", "quick", d.get("seed", 0))
    run(out, dict(tier=d.get("tier", "quick"), seed=d.get("seed", 0)))
    hit = [f for f in out.failures if f["key"] == d["key"]]
    for f in hit[:3]:
        print("still fails:", f["key"], "-", f["what"])
    print("FAILS" if hit else "agrees")
    return 1 if hit else 0
