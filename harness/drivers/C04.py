"""C04 — fantasy models = conditioning from scratch; source untouched.
Tie C.  For every generated history (source model, 1..3 successive get_fantasy_model calls with a
batch pattern, likelihood and settings) the implementation supplies its own prior (kernel matrix
and mean on [X_0; X_f1; ..; X_fk; X*]) and the specified noise for every final batch element; the
Coq model (Models/C04_fantasy.v: the bordered update folded over the k steps, proved equal to
conditioning on all the data) returns, for every prefix, the exact mean cache A'^-1 r', A'^-1 and
the posterior at X*.  Compared with: fantasy_model(x*) mean / covariance, a fresh ExactGP on the
concatenated data, the cache entries the fantasy strategy carries, and the source before/after.
Families: default strategy x {Gaussian, FixedNoise, FixedNoise+learned}; multitask (MultitaskKernel + MultitaskGaussianLikelihood;
rows = (point, task) interleaved, same Coq model with n := nT); KISS-GP (InterpolatedPredictionStrategy / WISKI update: predictions
and source only, tol 1e-6); IndependentModelList.get_fantasy_model vs its members."""
import copy
import itertools
import json
import pickle
import random

import torch

import gpytorch
from gpytorch import settings as gs
from harness.lib import common as C

COQ_TARGETS = ["Models/C04_fantasy.vo"]
LEVEL_NOTE = ("theorems are about the Gallina model of the bordered update; tie to /repo is differential "
              "(public predictions + the cache entries the property names, float64 vs exact rationals)")
IMPORTS = ("From Coq Require Import List ZArith QArith Qcanon.\n"
           "From GPV Require Import Base.LinAlg Base.Exec Models.C01_posterior Models.C04_fantasy.")
RUN_DEF = "Definition run := run_fantasy."
EMPTY_KW = pickle.dumps({})

torch.set_default_dtype(torch.float64)

KERNELS = ["scale_rbf", "scale_matern15", "rbf+linear", "ard_rbf", "scale_rq"]
MEANS = ["zero", "constant", "linear"]
LIKS = ["gaussian", "fixed", "fixed+learned"]
FLAGSETS = [(), ("fast_pred_var",), ("attached",), ("attached", "fast_pred_var")]
FORMS = ["plain", "own", "shared", "newf_own", "lowdim"]
TOL = 1e-8
TOL_INTERP = 1e-6          # KISS-GP / WISKI path: Lanczos-free here but the caches are low-rank updates; measured 5e-9
MT_TASKS = 2


def ntask(h):
    return h.get("mt", 0) or 1


def tol_of(h):
    return TOL_INTERP if h["kernel"] == "kiss_rbf" else TOL


class GP(gpytorch.models.ExactGP):
    def __init__(self, x, y, lik, mean, kern):
        super().__init__(x, y, lik)
        self.mean_module, self.covar_module = mean, kern

    def forward(self, x):
        return gpytorch.distributions.MultivariateNormal(self.mean_module(x), self.covar_module(x))


class MTGP(gpytorch.models.ExactGP):
    """multitask exact GP: joint prior over (point, task), interleaved (point-major) layout"""

    def __init__(self, x, y, lik, mean, kern):
        super().__init__(x, y, lik)
        self.mean_module, self.covar_module = mean, kern

    def forward(self, x):
        return gpytorch.distributions.MultitaskMultivariateNormal(self.mean_module(x), self.covar_module(x))


class _multi:
    def __init__(self, *cms):
        self.cms = cms

    def __enter__(self):
        for c in self.cms:
            c.__enter__()

    def __exit__(self, *a):
        for c in reversed(self.cms):
            c.__exit__(*a)
        return False


def flag_ctx(flags):
    cms = []
    if "fast_pred_var" in flags:
        cms.append(gs.fast_pred_var(True))
    if "attached" in flags:
        cms.append(gs.detach_test_caches(False))
    elif "nodetach_nograd" in flags:
        cms.append(gs.detach_test_caches(False))
        cms.append(torch.no_grad())
    else:
        cms.append(torch.no_grad())
    return _multi(*cms)


def rnd_tensor(rng, shape, lo, hi):
    n = 1
    for s in shape:
        n *= s
    return torch.tensor([rng.uniform(lo, hi) for _ in range(n)]).reshape(shape) if shape else torch.tensor(rng.uniform(lo, hi))


def make_kernel(name, d, b, rng):
    k = gpytorch.kernels
    B = torch.Size(b)
    ls = lambda *s: rnd_tensor(rng, b + s, 0.5, 2.0)  # noqa: E731
    if name == "scale_rbf":
        m = k.ScaleKernel(k.RBFKernel(batch_shape=B), batch_shape=B)
        m.base_kernel.lengthscale = ls(1, 1); m.outputscale = rnd_tensor(rng, b, 0.4, 2.5)
    elif name == "scale_matern15":
        m = k.ScaleKernel(k.MaternKernel(nu=1.5, batch_shape=B), batch_shape=B)
        m.base_kernel.lengthscale = ls(1, 1); m.outputscale = rnd_tensor(rng, b, 0.4, 2.5)
    elif name == "scale_rq":
        m = k.ScaleKernel(k.RQKernel(batch_shape=B), batch_shape=B)
        m.base_kernel.lengthscale = ls(1, 1); m.base_kernel.alpha = rnd_tensor(rng, b + (1,), 0.6, 3.0)
        m.outputscale = rnd_tensor(rng, b, 0.4, 2.5)
    elif name == "rbf+linear":
        a = k.RBFKernel(batch_shape=B); a.lengthscale = ls(1, 1)
        c = k.LinearKernel(batch_shape=B); c.variance = rnd_tensor(rng, b + (1, 1), 0.2, 1.0)
        m = a + c
    elif name == "ard_rbf":
        m = k.RBFKernel(ard_num_dims=d, batch_shape=B); m.lengthscale = ls(1, d)
    elif name == "kiss_rbf":     # KISS-GP: InterpolatedPredictionStrategy (WISKI fantasy update); d = 1, no batch
        g = k.GridInterpolationKernel(k.RBFKernel(), grid_size=24, grid_bounds=[(-6.0, 6.0)])
        g.base_kernel.lengthscale = rnd_tensor(rng, (1, 1), 0.8, 2.0)
        m = k.ScaleKernel(g); m.outputscale = rnd_tensor(rng, (), 0.4, 2.5)
    elif name == "mt_rbf":       # multitask: data kernel carries the model batch, task kernel (rank 1) is shared
        m = k.MultitaskKernel(k.RBFKernel(batch_shape=B), num_tasks=MT_TASKS, rank=1)
        m.data_covar_module.lengthscale = ls(1, 1)
        m.task_covar_module.covar_factor.data = rnd_tensor(rng, (MT_TASKS, 1), -1.0, 1.0)
        m.task_covar_module.var = rnd_tensor(rng, (MT_TASKS,), 0.3, 1.5)
    return m


def make_mean(name, d, b, rng, mt=0):
    if mt:
        return gpytorch.means.MultitaskMean([make_mean("constant" if name == "zero" else name, d, b, rng) for _ in range(mt)],
                                            num_tasks=mt)
    B = torch.Size(b)
    if name == "zero":
        return gpytorch.means.ZeroMean(batch_shape=B)
    if name == "constant":
        m = gpytorch.means.ConstantMean(batch_shape=B)
        m.constant.data = rnd_tensor(rng, b, -1.5, 1.5)
        return m
    m = gpytorch.means.LinearMean(d, batch_shape=B)
    m.weights.data = rnd_tensor(rng, b + (d, 1), -1, 1)
    m.bias.data = rnd_tensor(rng, b + (1,), -1, 1)
    return m


# --------------------------------------------------------------------------- generation

def shape_numel(s):
    n = 1
    for v in s:
        n *= v
    return n


def point_pool(rng, count, d):
    """`count` distinct dyadic points, pairwise >= 0.375 apart in max-norm"""
    if d == 1:
        slots = rng.sample(range(-count - 4, count + 5), count)
        return [[3 * s / 8.0] for s in slots]
    pts = []
    while len(pts) < count:
        p = [rng.randint(-28, 28) / 8.0 for _ in range(d)]
        if all(max(abs(a - c) for a, c in zip(p, q)) >= 0.375 for q in pts):
            pts.append(p)
    return pts


def gen_history(rng, tier, family="default"):
    """exact rational arithmetic on float64-derived entries costs ~10 ms per operation at N=6, so the
    total number of training ROWS after all updates is capped (5 in both tiers; multitask: rows = points x tasks,
    capped at 6 / 8).
    family: default (DefaultPredictionStrategy, single output) | mt (multitask kernel + likelihood) | kiss (KISS-GP:
    InterpolatedPredictionStrategy / WISKI update)"""
    thorough = tier != "quick"
    # rows are capped at the quick tier's value in BOTH tiers: the exact rational model re-inverts the bordered matrix at
    # every fantasy step and 7-row histories cost ~13 min per shard of cases (measured) - the thorough tier is deeper in
    # the number of histories, fantasy batch sizes and steps, not in matrix size
    nmax = 5
    mt = MT_TASKS if family == "mt" else 0
    if mt:
        nmax = 3
    d = rng.choice([1, 2]) if family != "kiss" else 1
    b = rng.choice([(), (), (2,)]) if family != "kiss" else ()
    depth = rng.choice([1, 1, 2, 2, 3]) if not mt else rng.choice([1, 1, 2])
    n0 = rng.randint(1, nmax - depth)
    t = rng.randint(1, 2 if not thorough else 3) if not mt else 1
    lik = rng.choice(LIKS) if family == "default" else ("multitask" if mt else "gaussian")
    steps, cur, nnew = [], b, 0
    for k in range(depth):
        forms = ["plain", "own"]
        if nnew < (1 if not thorough else 2) and shape_numel(cur) <= 2 and family != "kiss":
            forms += ["shared", "newf_own", "shared", "newf_own"]
        if len(cur) == 1 and family != "kiss":
            forms.append("lowdim")
        form = rng.choice(forms)
        room = nmax - n0 - sum(s_["m"] for s_ in steps) - (depth - k - 1)
        m = rng.randint(1, min(2 if not thorough else 3, room))
        if form in ("shared", "newf_own"):
            new = (2,) + cur
            nnew += 1
        else:
            new = cur
        in_shape = {"plain": cur, "own": cur, "shared": cur, "newf_own": new, "lowdim": ()}[form]
        steps.append(dict(form=form, m=m, in_batch=list(in_shape), tg_batch=list(new)))
        cur = new
    total = shape_numel(b) * n0 + sum(shape_numel(s["in_batch"]) * s["m"] for s in steps) + t
    pool = point_pool(rng, total, d)
    rng.shuffle(pool)
    take = lambda k: [pool.pop() for _ in range(k)]  # noqa: E731
    yv = lambda k: [rng.randint(-16, 16) / 8.0 for _ in range(k)]  # noqa: E731
    nv = lambda k: [rng.randint(4, 48) / 64.0 for _ in range(k)]  # noqa: E731   noise in [1/16, 3/4]
    flagsets = FLAGSETS
    if family == "kiss":
        # a KISS-GP model that predicted with autograd enabled cannot be deep-copied (the grid kernel caches a non-leaf
        # tensor; get_fantasy_model raises and, since fix 5e27225, restores the source): a fresh fantasy call raises as
        # well, so this is outside "supported"; detach_test_caches(False) is exercised under no_grad instead
        flagsets = [(), ("fast_pred_var",), ("nodetach_nograd",), ("nodetach_nograd", "fast_pred_var")]
    kernel = {"mt": "mt_rbf", "kiss": "kiss_rbf"}.get(family) or rng.choice(KERNELS if d == 2 else [k for k in KERNELS if k != "ard_rbf"])
    T = mt or 1
    h = dict(d=d, b=list(b), n0=n0, t=t, lik=lik, kernel=kernel, mt=mt,
             mean=rng.choice(MEANS), flags=list(rng.choice(flagsets)), hseed=rng.randint(0, 10 ** 9),
             X0=take(shape_numel(b) * n0), y0=yv(shape_numel(b) * n0 * T), noise0=nv(shape_numel(b) * n0),
             Xs=take(t), steps=steps)
    for s in steps:
        s["X"] = take(shape_numel(s["in_batch"]) * s["m"])
        s["y"] = yv(shape_numel(s["tg_batch"]) * s["m"] * T)
        # shared inputs: one covariance update serves all fantasies, so the fixed noise is shared too
        # (a per-fantasy noise with shared inputs is rejected by cat_rows with a RuntimeError: unsupported)
        s["nz_batch"] = s["in_batch"] if s["form"] == "shared" else s["tg_batch"]
        s["noise"] = nv(shape_numel(s["nz_batch"]) * s["m"])
    return h


def build(h):
    rng = random.Random(h["hseed"])
    b, d, n0 = tuple(h["b"]), h["d"], h["n0"]
    X0 = torch.tensor(h["X0"]).reshape(b + (n0, d))
    y0 = torch.tensor(h["y0"]).reshape(b + (n0,) + tdim(h))
    if h["lik"] == "multitask":
        lik = gpytorch.likelihoods.MultitaskGaussianLikelihood(num_tasks=h["mt"], rank=0, batch_shape=torch.Size(b))
        lik.noise = rnd_tensor(rng, b + (1,), 0.06, 0.4)
        lik.task_noises = rnd_tensor(rng, b + (h["mt"],), 0.05, 0.5)
        model = MTGP(X0, y0, lik, make_mean(h["mean"], d, b, rng, mt=h["mt"]), make_kernel(h["kernel"], d, b, rng))
        model.eval(); lik.eval()
        return model, lik
    if h["lik"] == "gaussian":
        lik = gpytorch.likelihoods.GaussianLikelihood(batch_shape=torch.Size(b))
        lik.noise = rnd_tensor(rng, b + (1,), 0.06, 0.7)
    else:
        noise0 = torch.tensor(h["noise0"]).reshape(b + (n0,))
        lik = gpytorch.likelihoods.FixedNoiseGaussianLikelihood(noise0, learn_additional_noise=(h["lik"] == "fixed+learned"),
                                                                batch_shape=torch.Size(b))
        if h["lik"] == "fixed+learned":
            lik.second_noise = rnd_tensor(rng, b + (1,), 0.05, 0.4)
    model = GP(X0, y0, lik, make_mean(h["mean"], d, b, rng), make_kernel(h["kernel"], d, b, rng))
    model.eval(); lik.eval()
    return model, lik


def tdim(h):
    """trailing task dimension of targets / means ((T,) for multitask, () otherwise)"""
    return (h["mt"],) if h.get("mt") else ()


def step_tensors(h, s):
    d = h["d"]
    X = torch.tensor(s["X"]).reshape(tuple(s["in_batch"]) + (s["m"], d))
    y = torch.tensor(s["y"]).reshape(tuple(s["tg_batch"]) + (s["m"],) + tdim(h))
    nz = torch.tensor(s["noise"]).reshape(tuple(s.get("nz_batch", s["tg_batch"])) + (s["m"],))
    return X, y, nz


def bcast(x, batch, tail):
    """right-aligned broadcast of x (batch' + tail dims) to batch + tail dims"""
    return x.expand(tuple(batch) + tuple(x.shape[len(x.shape) - tail:]))


def can_bcast(x, batch, tail):
    try:
        bcast(x, batch, tail)
        return True
    except RuntimeError:
        return False


def spec_data(h, k):
    """specification of the training set after k updates, broadcast to the batch shape after step k:
    inputs (B, N, d), targets (B, N), specified fixed noise (B, N)"""
    B = tuple(h["steps"][k - 1]["tg_batch"]) if k > 0 else tuple(h["b"])
    b, d, n0 = tuple(h["b"]), h["d"], h["n0"]
    yt = 1 + len(tdim(h))              # trailing (non-batch) dims of the targets
    Xs = [bcast(torch.tensor(h["X0"]).reshape(b + (n0, d)), B, 2)]
    ys = [bcast(torch.tensor(h["y0"]).reshape(b + (n0,) + tdim(h)), B, yt)]
    ns = [bcast(torch.tensor(h["noise0"]).reshape(b + (n0,)), B, 1)]
    for s in h["steps"][:k]:
        X, y, nz = step_tensors(h, s)
        Xs.append(bcast(X, B, 2)); ys.append(bcast(y, B, yt)); ns.append(bcast(nz, B, 1))
    return B, torch.cat(Xs, -2), torch.cat(ys, -yt), torch.cat(ns, -1)


# --------------------------------------------------------------------------- implementation side

def dense(v):
    if torch.is_tensor(v):
        return v.detach().clone()
    if hasattr(v, "root") and hasattr(v.root, "to_dense"):
        return v.root.to_dense().detach().clone()
    if hasattr(v, "to_dense"):
        return v.to_dense().detach().clone()
    return None


def cache_snapshot(strat):
    snap = {}
    for owner, obj in (("strategy", strat), ("lik_train_train_covar", getattr(strat, "lik_train_train_covar", None))):
        for key, v in list(getattr(obj, "_memoize_cache", {}).items()):
            name = key if isinstance(key, str) else "%s%r" % (key[0], key[1])
            dv = dense(v)
            if dv is not None:
                snap[owner + ":" + name] = dv
    return snap


def source_snapshot(model, Xs):
    post = model(Xs)
    return dict(mean=post.mean.detach().clone(), cov=post.covariance_matrix.detach().clone(),
                sd={k: v.detach().clone() for k, v in model.state_dict().items()},
                tin=[x.detach().clone() for x in model.train_inputs], ttg=model.train_targets.detach().clone(),
                strat=model.prediction_strategy, caches=cache_snapshot(model.prediction_strategy),
                lik_noise=(model.likelihood.noise.detach().clone()))


def source_diff(model, Xs, snap):
    """list of (what, detail) describing any difference of the source after get_fantasy_model"""
    bad = []
    if model.prediction_strategy is not snap["strat"]:
        bad.append(("strategy-object", "prediction_strategy replaced"))
    sd = model.state_dict()
    if set(sd) != set(snap["sd"]) or any(not torch.equal(sd[k], snap["sd"][k]) for k in snap["sd"]):
        bad.append(("state_dict", "parameters/buffers changed"))
    if len(model.train_inputs) != len(snap["tin"]) or any(not torch.equal(a, c) for a, c in zip(model.train_inputs, snap["tin"])):
        bad.append(("train_inputs", "changed"))
    if not torch.equal(model.train_targets, snap["ttg"]):
        bad.append(("train_targets", "changed"))
    if not torch.equal(model.likelihood.noise.detach(), snap["lik_noise"]):
        bad.append(("likelihood-noise", "changed"))
    now = cache_snapshot(model.prediction_strategy)
    for k, v in snap["caches"].items():
        if k not in now:
            bad.append(("cache-entry", "%s removed" % k))
        elif now[k].shape != v.shape or not torch.equal(now[k], v):
            bad.append(("cache-entry", "%s changed" % k))
    post = model(Xs)
    if not torch.equal(post.mean.detach(), snap["mean"]) or not torch.equal(post.covariance_matrix.detach(), snap["cov"]):
        bad.append(("predictions", "max |dmean| %.3g, max |dcov| %.3g" % (
            (post.mean.detach() - snap["mean"]).abs().max().item(),
            (post.covariance_matrix.detach() - snap["cov"]).abs().max().item())))
    return bad, sorted(set(now) - set(snap["caches"]))


def carried(fm):
    """cache entries the fantasy strategy carries, read right after construction"""
    st = fm.prediction_strategy
    mc = getattr(st, "_memoize_cache", {})
    lt = getattr(st.lik_train_train_covar, "_memoize_cache", {})
    get = lambda dct, name: next((dense(v) for k, v in dct.items() if (k == name or (not isinstance(k, str) and k[0] == name and k[1] == ()))), None)  # noqa: E731
    return dict(mean_cache=get(mc, "mean_cache"), covar_cache=get(mc, "covar_cache"),
                root=get(lt, "root_decomposition"), inv_root=get(lt, "root_inv_decomposition"))


def fresh_model(h, src_model, k):
    """an ExactGP with the same hyperparameters trained from scratch on the data after k updates"""
    B, X, y, nz = spec_data(h, k)
    if h["lik"] == "multitask":
        lik = copy.deepcopy(src_model.likelihood)
        m = MTGP(X.clone(), y.clone(), lik, copy.deepcopy(src_model.mean_module), copy.deepcopy(src_model.covar_module))
        m.eval(); lik.eval()
        return m
    if h["lik"] == "gaussian":
        lik = copy.deepcopy(src_model.likelihood)
    else:
        lik = gpytorch.likelihoods.FixedNoiseGaussianLikelihood(nz.clone(), learn_additional_noise=(h["lik"] == "fixed+learned"),
                                                                batch_shape=torch.Size(h["b"]))
        if h["lik"] == "fixed+learned":
            lik.second_noise_covar = copy.deepcopy(src_model.likelihood.second_noise_covar)
    m = GP(X.clone(), y.clone(), lik, copy.deepcopy(src_model.mean_module), copy.deepcopy(src_model.covar_module))
    m.eval(); lik.eval()
    return m


def run_impl(h):
    """returns dict with per-depth observations (or raises)"""
    model, lik = build(h)
    t, d = h["t"], h["d"]
    Xs0 = torch.tensor(h["Xs"]).reshape(t, d)
    obs = []
    with flag_ctx(h["flags"]):
        cur = model
        cur(bcast(Xs0, tuple(h["b"]), 2))           # populate the test-independent caches
        for k, s in enumerate(h["steps"], 1):
            Bprev = tuple(h["steps"][k - 2]["tg_batch"]) if k > 1 else tuple(h["b"])
            Xs_prev = bcast(Xs0, Bprev, 2)
            snap = source_snapshot(cur, Xs_prev)
            X, y, nz = step_tensors(h, s)
            kw = {} if h["lik"] in ("gaussian", "multitask") else dict(noise=nz)
            fm = cur.get_fantasy_model(X, y, **kw)
            car = carried(fm)
            bad, new_entries = source_diff(cur, Xs_prev, snap)
            B = tuple(s["tg_batch"])
            post = fm(bcast(Xs0, B, 2))
            fr = fresh_model(h, model, k)
            with gs.fast_pred_var(False):
                fpost = fr(bcast(Xs0, B, 2))
            flat = lambda mu: mu.detach().reshape(mu.shape[:mu.dim() - 1 - len(tdim(h))] + (-1,))  # noqa: E731  (.., t, T) -> (.., tT)
            obs.append(dict(B=B, mean=bcast(flat(post.mean), B, 1), cov=bcast(post.covariance_matrix.detach(), B, 2),
                            fmean=bcast(flat(fpost.mean), B, 1), fcov=bcast(fpost.covariance_matrix.detach(), B, 2),
                            carried=car, source_bad=bad, source_new=new_entries,
                            train_inputs=[x.detach() for x in fm.train_inputs], train_targets=fm.train_targets.detach()))
            cur = fm
    return model, obs


def prior_pieces(h, model):
    """the implementation's own K, m on [X_all; X*] and the specified noise, per final batch element"""
    k = len(h["steps"])
    B, X, y, nz = spec_data(h, k)
    Xs = bcast(torch.tensor(h["Xs"]).reshape(h["t"], h["d"]), B, 2)
    Xall = torch.cat([X, Xs], -2)
    with torch.no_grad():
        KJ = model.covar_module(Xall).to_dense()
        mu = model.mean_module(Xall)
        if h["lik"] == "multitask":
            # rows are (point, task), point-major (interleaved); specified noise of row (i, a) = task_noises[a] + noise
            T = h["mt"]
            mu = mu.reshape(mu.shape[:-2] + (-1,))
            per_task = model.likelihood.task_noises.detach() + model.likelihood.noise.detach()      # b x T
            S = bcast(per_task, B, 1).repeat(*([1] * len(B)), X.shape[-2])
            y = y.reshape(y.shape[:-2] + (-1,))
        elif h["lik"] == "gaussian":
            S = bcast(model.likelihood.noise.detach(), B, 1).expand(B + (X.shape[-2],))
        else:
            S = nz
            if h["lik"] == "fixed+learned":
                S = S + bcast(model.likelihood.second_noise.detach(), B, 1)
    KJ = bcast(KJ, B, 2); mu = bcast(mu, B, 1)
    return B, KJ, mu, S, y


GRID = 2 ** 44


def rq(x):
    """the model works on the dyadic grid 2^-44 (perturbation 3e-14 per entry, five orders below TOL)"""
    import fractions
    return fractions.Fraction(round(C.frac(x) * GRID), GRID)


def coq_case(h, KJ, mu, S, y):
    N = len(y)
    KJ = [[rq(v) for v in row] for row in KJ]
    mu = [rq(v) for v in mu]
    Sm = [[rq(S[i]) if i == j else 0 for j in range(N)] for i in range(N)]
    T = ntask(h)                         # multitask: every point contributes T consecutive rows
    return "(%d%%nat, %s, %d%%nat, %s, %s, %s, %s)" % (
        h["n0"] * T, C.nat_list([s["m"] * T for s in h["steps"]]), h["t"] * T, C.qc_mat(KJ), C.qc_vec(mu), C.qc_mat(Sm), C.qc_vec(y))


def decode(h, r):
    """-> list over prefixes 0..k of dict(n, alpha, Ainv, mean, cov) (or None)"""
    rd = C.Reader(r)
    if rd.int() != 1:
        return None
    out = []
    for _ in range(len(h["steps"]) + 1):
        if rd.done() or rd.int() != 1:
            out.append(None)
            break
        n = rd.int()
        tt = h["t"] * ntask(h)
        out.append(dict(n=n, alpha=rd.qs(n), Ainv=rd.qmat(n, n), mean=rd.qs(tt), cov=rd.qmat(tt, tt)))
    return out


# --------------------------------------------------------------------------- comparison

def mclose(impl, model, tol=TOL):
    """impl: tensor, model: nested list of Fractions of the same shape"""
    ref = torch.tensor([[float(v) for v in row] for row in model]) if model and isinstance(model[0], list) \
        else torch.tensor([float(v) for v in model])
    if tuple(impl.shape) != tuple(ref.shape):
        return False
    return bool(((impl - ref).abs() <= tol + tol * ref.abs()).all())


def pattern(h):
    return "b%s/%s" % ("x".join(map(str, h["b"])) or "0", "+".join(s["form"] for s in h["steps"]))


def sub_history(h, k):
    g = dict(h)
    g["steps"] = h["steps"][:k]
    return g


def compare(out, h, obs, models_by_elem, A_by_elem):
    """models_by_elem: {final batch index tuple: decoded trace}; A_by_elem: exact K+S (floats) per element"""
    flags = "+".join(sorted(h["flags"])) or "default"
    tag = "%s:%s:%s:%s" % (h["kernel"], "b" + ("x".join(map(str, h["b"])) or "0"), h["lik"], flags)
    kfin = len(h["steps"])
    Bfin = tuple(h["steps"][-1]["tg_batch"])
    tol = tol_of(h)
    for k, ob in enumerate(obs, 1):
        desc = dict(history=sub_history(h, k), depth=k)
        B = ob["B"]
        form = h["steps"][k - 1]["form"]
        for what, detail in ob["source_bad"]:
            out.fail("source-%s:%s:%s" % (what, form, tag), "get_fantasy_model changed the source model: %s %s" % (what, detail), desc)
        # the fantasy model's own training data is the concatenation
        _, Xspec, yspec, _ = spec_data(h, k)
        tin = ob["train_inputs"][0]
        if tuple(tin.shape) != tuple(Xspec.shape) or not torch.equal(tin, Xspec) or \
                tuple(ob["train_targets"].shape) != tuple(yspec.shape) or not torch.equal(ob["train_targets"], yspec):
            out.fail("fantasy-train-data:%s:%s" % (form, tag), "fantasy model's train_inputs/targets are not the concatenated data",
                     desc, impl=[list(tin.shape), list(ob["train_targets"].shape)], model=[list(Xspec.shape), list(yspec.shape)])
        # vs fresh ExactGP on the concatenated data
        if not (torch.allclose(ob["mean"], ob["fmean"], rtol=tol, atol=tol) and torch.allclose(ob["cov"], ob["fcov"], rtol=tol, atol=tol)):
            out.fail("fresh-exactgp:%s:%s" % (form, tag), "fantasy model predictions differ from a fresh ExactGP on the concatenated data "
                     "(max |dmean| %.3g, max |dcov| %.3g)" % ((ob["mean"] - ob["fmean"]).abs().max().item(),
                                                             (ob["cov"] - ob["fcov"]).abs().max().item()),
                     desc, impl=dict(mean=ob["mean"], cov=ob["cov"]), model=dict(mean=ob["fmean"], cov=ob["fcov"]))
        seen = set()
        for idx, trace in models_by_elem.items():
            pidx = idx[len(Bfin) - len(B):]          # projection of the final batch index on the batch after step k
            if pidx in seen:
                continue
            seen.add(pidx)
            mdl = trace[k] if trace is not None and len(trace) > k else None
            if mdl is None:
                continue
            edesc = dict(desc, element=list(pidx))
            if not mclose(ob["mean"][pidx], mdl["mean"], tol):
                out.fail("fantasy-mean:%s:%s" % (form, tag), "fantasy_model(x*).mean differs from the closed-form conditional on the concatenated data",
                         edesc, impl=ob["mean"][pidx], model=[float(v) for v in mdl["mean"]])
            if not mclose(ob["cov"][pidx], mdl["cov"], tol):
                out.fail("fantasy-cov:%s:%s" % (form, tag), "fantasy_model(x*).covariance_matrix differs from the closed-form conditional on the concatenated data",
                         edesc, impl=ob["cov"][pidx], model=[[float(v) for v in r] for r in mdl["cov"]])
            if h["kernel"] == "kiss_rbf":
                continue        # WISKI carries interpolation-space caches (not A'^-1 r' / an inverse root): predictions only
            car = ob["carried"]
            n = mdl["n"]
            Ainv = torch.tensor([[float(v) for v in r] for r in mdl["Ainv"]])
            A = A_by_elem[idx][:n, :n]
            if car["mean_cache"] is None:
                out.fail("carried-mean-cache-missing:%s" % tag, "fantasy strategy carries no mean_cache entry", edesc)
            elif not can_bcast(car["mean_cache"], B, 1):
                out.fail("carried-mean-cache-shape:%s:%s" % (form, tag), "carried mean_cache has shape %s, which does not broadcast to "
                         "batch %s x %d training rows" % (tuple(car["mean_cache"].shape), B, n), edesc,
                         impl=list(car["mean_cache"].shape), model=list(B) + [n])
            else:
                mc = bcast(car["mean_cache"], B, 1)[pidx]
                if not mclose(mc, mdl["alpha"]):
                    out.fail("carried-mean-cache:%s:%s" % (form, tag), "carried mean_cache differs from A'^-1 (y' - m') recomputed on the full data",
                             edesc, impl=mc, model=[float(v) for v in mdl["alpha"]])
            for name, target, what in (("covar_cache", Ainv, "R R^T != A'^-1 for the carried covar_cache"),
                                       ("inv_root", Ainv, "R R^T != A'^-1 for the carried root_inv_decomposition"),
                                       ("root", A, "L L^T != A' for the carried root_decomposition")):
                if car[name] is None:
                    out.fail("carried-%s-missing:%s" % (name, tag), "fantasy strategy carries no %s entry" % name, edesc)
                    continue
                if not can_bcast(car[name], B, 2):
                    out.fail("carried-%s-shape:%s:%s" % (name, form, tag), "carried %s has shape %s, which does not broadcast to batch %s"
                             % (name, tuple(car[name].shape), B), edesc, impl=list(car[name].shape), model=list(B) + [n, n])
                    continue
                Rm = bcast(car[name], B, 2)[pidx]
                if Rm.shape[-2] != n:
                    out.fail("carried-%s:%s:%s" % (name, form, tag), "carried %s has %d rows for %d training points" % (name, Rm.shape[-2], n), edesc)
                    continue
                prod = Rm @ Rm.T
                if not bool(((prod - target).abs() <= TOL + TOL * target.abs()).all()):
                    out.fail("carried-%s:%s:%s" % (name, form, tag), what + " (max abs diff %.3g)" % (prod - target).abs().max().item(),
                             edesc, impl=prod, model=target)


# --------------------------------------------------------------------------- driver entry points

def mt_class(h):
    """input class of the recorded finding C04-multitask-fantasy-shapes (multitask histories only): some update adds
    m >= 2 points or some batch dimension (model or fantasy) is present; the complement (single points, no batch) works"""
    if not h.get("mt"):
        return ""
    batched = bool(h["b"]) or any(s["tg_batch"] for s in h["steps"])
    return ":mt-multi-point-or-batch" if batched or any(s["m"] >= 2 for s in h["steps"]) else ":mt-single-point-unbatched"


def evaluate(out, hs, tagname):
    """run implementation + model on the histories, compare"""
    impl, cases, index = [], [], []
    for hi, h in enumerate(hs):
        try:
            model, obs = run_impl(h)
        except Exception as e:
            impl.append(None)
            out.fail("impl-exception:%s:%s:%s%s" % (type(e).__name__, "+".join(s["form"] for s in h["steps"]), h["lik"], mt_class(h)),
                     "implementation raised %r on a supported fantasy pattern" % (e,), dict(history=h, depth=len(h["steps"])))
            continue
        B, KJ, mu, S, y = prior_pieces(h, model)
        impl.append((obs, B, KJ, S))
        for idx in itertools.product(*[range(v) for v in B]):
            cases.append(coq_case(h, KJ[idx].tolist(), mu[idx].tolist(), S[idx].tolist(), y[idx].tolist()))
            index.append((hi, idx))
    # balance the 16 shards: exact inversion costs ~N^3 with growing numerators, so deal the cases out by decreasing size
    cost = [len(c) for c in cases]
    by_cost = sorted(range(len(cases)), key=lambda i: -cost[i])
    order = [by_cost[j] for s_ in range(16) for j in range(s_, len(cases), 16)]
    cases, index = [cases[i] for i in order], [index[i] for i in order]
    res = C.coq_run_cases(tagname, IMPORTS, RUN_DEF, cases, shard=max(1, (len(cases) + 15) // 16)) if cases else []
    by_h = {}
    for (hi, idx), r in zip(index, res):
        by_h.setdefault(hi, {})[idx] = decode(hs[hi], r)
    for hi, h in enumerate(hs):
        if impl[hi] is None:
            continue
        obs, B, KJ, S = impl[hi]
        traces = by_h.get(hi, {})
        N = S.shape[-1]
        A_by = {idx: KJ[idx][:N, :N] + torch.diag(S[idx]) for idx in traces}
        for idx, tr in traces.items():
            if tr is None or any(x is None for x in tr):
                out.fail("model:singular", "model could not invert a train covariance / Schur complement exactly", dict(history=h, element=list(idx)),
                         no_input=False)
        compare(out, h, obs, traces, A_by)
    return impl


def member_history(rng, tier):
    """an unbatched single-output history with one plain update (a member of a model list)"""
    while True:
        h = gen_history(rng, tier)
        if not h["b"] and not h["steps"][0]["tg_batch"]:
            h["steps"] = h["steps"][:1]
            return h


def check_model_list(out, rng, tier, reps):
    """IndependentModelList.get_fantasy_model (gpytorch/models/model_list.py:45-76): sub-model i of the result must be
    the fantasy model of member i (same observations as member.get_fantasy_model and as a fresh ExactGP on the
    concatenated data), per-member `noise` (None for members without fixed noise); the members stay untouched"""
    for r in range(reps):
        hs = [member_history(rng, tier) for _ in range(rng.choice([2, 3]))]
        flags = list(rng.choice(FLAGSETS))
        case = dict(kind="model-list", history=dict(members=hs, flags=flags), depth=1)
        out.case(dict(kind="model-list", liks=[h["lik"] for h in hs], kernels=[h["kernel"] for h in hs], n0=[h["n0"] for h in hs],
                      flags=flags, hseeds=[h["hseed"] for h in hs]), True, label="model-list")
        tag = "model-list:%s:%s" % ("+".join(h["lik"] for h in hs), "+".join(sorted(flags)) or "default")
        try:
            built = [build(h) for h in hs]
            ml = gpytorch.models.IndependentModelList(*[m for m, _ in built])
            tests = [torch.tensor(h["Xs"]).reshape(h["t"], h["d"]) for h in hs]
            with flag_ctx(flags):
                ml(*tests)
                snaps = [source_snapshot(m, xt) for (m, _), xt in zip(built, tests)]
                st = [step_tensors(h, h["steps"][0]) for h in hs]
                noise = [None if h["lik"] == "gaussian" else nz for h, (_, _, nz) in zip(hs, st)]
                kw = {} if all(v is None for v in noise) else dict(noise=noise)
                fml = ml.get_fantasy_model([X for X, _, _ in st], [y for _, y, _ in st], **kw)
                posts = fml(*tests)
                for i, (h, (m, _), xt, snap, (X, y, nz), post) in enumerate(zip(hs, built, tests, snaps, st, posts)):
                    bad, _ = source_diff(m, xt, snap)
                    for what, detail in bad:
                        out.fail("source-%s:%s" % (what, tag), "IndependentModelList.get_fantasy_model changed member %d: %s %s"
                                 % (i, what, detail), case)
                    own = m.get_fantasy_model(X, y, **({} if h["lik"] == "gaussian" else dict(noise=nz)))(xt)
                    fr = fresh_model(h, m, 1)
                    with gs.fast_pred_var(False):
                        fpost = fr(xt)
                    for ref, name, tol in ((own, "member-fantasy", 1e-12), (fpost, "fresh-exactgp", TOL)):
                        if not (torch.allclose(post.mean, ref.mean, rtol=tol, atol=tol)
                                and torch.allclose(post.covariance_matrix, ref.covariance_matrix, rtol=tol, atol=tol)):
                            out.fail("%s:%s" % (name, tag), "sub-model %d of the fantasy model list differs from %s (max |dmean| %.3g, "
                                     "max |dcov| %.3g)" % (i, name, (post.mean - ref.mean).abs().max().item(),
                                                           (post.covariance_matrix - ref.covariance_matrix).abs().max().item()),
                                     case, impl=dict(mean=post.mean.detach(), cov=post.covariance_matrix.detach()),
                                     model=dict(mean=ref.mean.detach(), cov=ref.covariance_matrix.detach()))
        except Exception as e:
            out.fail("impl-exception:%s:%s" % (type(e).__name__, tag), "IndependentModelList fantasy raised %r" % (e,), case)


def simplify_mt(rng, tier):
    """a multitask history without batch dimensions whose updates add one point each"""
    while True:
        h = gen_history(rng, tier, "mt")
        if not h["b"] and all(s["m"] == 1 and not s["tg_batch"] for s in h["steps"]):
            return h


def run(out, ctx):
    tier, seed = ctx["tier"], ctx["seed"]
    rng = random.Random(seed * 104729 + 4)
    nh = 36 if tier == "quick" else 150   # thorough sized to ~15 min on an idle machine
    hs = [gen_history(rng, tier) for _ in range(nh)]
    # other strategies / likelihoods (own PRNG stream): multitask kernel + likelihood, KISS-GP (interpolated strategy, WISKI)
    rng2 = random.Random(seed * 7919 + 41)
    n_mt, n_kiss = (12, 6) if tier == "quick" else (48, 24)
    mts = [gen_history(rng2, tier, "mt") for _ in range(n_mt)]
    # make sure the class that works on the unchanged tree (single points, no batch) is present
    mts[:3] = [simplify_mt(rng2, tier) for _ in range(3)]
    hs += mts + [gen_history(rng2, tier, "kiss") for _ in range(n_kiss)]
    # grid part: every (model batch, first-step form, likelihood, flag set) combination appears at least once
    grid = []
    for b in ((), (2,)):
        for form in FORMS:
            if form == "lowdim" and not b:
                continue
            for lik in LIKS:
                for flags in FLAGSETS:
                    grid.append((b, form, lik, flags))
    rng.shuffle(grid)
    if tier == "quick":
        grid = grid[: 30]
    for b, form, lik, flags in grid:
        for _ in range(200):
            h = gen_history(rng, tier)
            if tuple(h["b"]) == b and h["steps"][0]["form"] == form:
                break
        else:
            continue
        h["lik"], h["flags"] = lik, list(flags)
        hs.append(h)
    out.rule = ("random histories: source ExactGP (n0<=%d, d<=2, model batch () or (2,), 5 kernels x 3 means x "
                "{Gaussian, FixedNoise, FixedNoise+learned}) followed by 1..3 get_fantasy_model calls (m<=2 points each) whose "
                "batch form is drawn from {plain, own inputs, shared inputs with new fantasy batch dim, own inputs with new "
                "fantasy batch dim, lower-dim inputs}, under {fast_pred_var} x {detach_test_caches}; plus a grid forcing every "
                "(model batch, first form, likelihood, flags) combination; every final batch element is one Coq case; "
                "non-trivial = n0>=2 or depth>=2; plus multitask histories (MultitaskKernel rank 1 + MultitaskGaussianLikelihood, T=2, "
                "rows = (point, task) interleaved, <= 3 points) and KISS-GP histories (GridInterpolationKernel, d=1, WISKI update; "
                "predictions and source only, tol 1e-6); plus IndependentModelList.get_fantasy_model vs its members" % (3 if tier == "quick" else 4))
    out.extra["tolerances"] = {"all dense paths (abs+rel)": TOL, "source before/after": "bit-equal",
                                "model inputs": "implementation's K, m, noise rounded to the dyadic grid 2^-44"}
    evaluate(out, hs, ctx.get("tag", "C04"))
    check_model_list(out, rng2, tier, 6 if tier == "quick" else 24)
    for h in hs:
        for k in range(1, len(h["steps"]) + 1):
            out.case(dict(pattern=pattern(sub_history(h, k)), lik=h["lik"], flags=h["flags"], n0=h["n0"], kernel=h["kernel"], mean=h["mean"],
                          d=h["d"], ms=[s["m"] for s in h["steps"][:k]], hseed=h["hseed"]),
                     h["n0"] >= 2 or k >= 2, label="depth=%d" % k)
            out.count("form=" + h["steps"][k - 1]["form"]); out.count("lik=" + h["lik"])
            out.count("flags=" + ("+".join(h["flags"]) or "default")); out.count("batch=" + ("x".join(map(str, h["b"])) or "none"))
    out.exhaustive = False
    out.extra["tolerances"]["KISS-GP (WISKI) predictions"] = TOL_INTERP
    out.notes.append("KISS-GP histories run under no_grad only: after a prediction made with autograd enabled the grid kernel caches a "
                     "non-leaf tensor and get_fantasy_model raises in deepcopy (a fresh fantasy call raises as well; source restored "
                     "since /repo 5e27225) - treated as outside 'supported', see C03")
    out.tested_not_proved = ["WISKI: numerics of the jittered Cholesky / low-rank roots the code takes of the updated interp_inner_prod "
                             "(the step from the updated caches to the C01 posterior is proved for ANY exact root: "
                             "c04_wiski_fantasy_mean_is_c01_posterior / c04_wiski_fantasy_cov_is_c01_posterior)",
                             "IndependentModelList.get_fantasy_model (compared with its members' fantasy models and fresh models)",
                             "agreement of torch/linear_operator numerics (Cholesky, triangular inverse) with exact algebra",
                             "batch-shape reconciliation of get_fantasy_model (checked per batch element against the specification "
                             "of the broadcast data, not modelled in Coq)",
                             "source-untouched on the real objects (bit-equality of predictions, state_dict, data, cache entries)"]


def replay(path):
    d = json.load(open(path))
    h = d["case"]["history"]
    out = C.Outcome("C04", "quick", 0)
    if d["case"].get("kind") == "model-list":
        class _Fixed:           # replays the stored member histories / flags
            def __init__(self, seq):
                self.seq = list(seq)

            def choice(self, _):
                return self.seq.pop(0)
        global member_history
        members, saved = list(h["members"]), member_history
        member_history = lambda rng, tier: members.pop(0)   # noqa: E731
        try:
            check_model_list(out, _Fixed([len(members), tuple(h["flags"])]), "quick", 1)
        finally:
            member_history = saved
    else:
        evaluate(out, [h], "C04_replay")
    for f in out.failures:
        print("FAIL", f["key"], "-", f["what"])
        print("  impl :", C.jsonable(f.get("impl")))
        print("  model:", C.jsonable(f.get("model")))
    print("FAILS" if out.failures else "agrees")
    return 1 if out.failures else 0
