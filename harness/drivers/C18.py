"""C18 — persistence round trips reproduce the model (state_dict -> fresh model, pickle, deepcopy).

Tie C.  For every model family and save point of a train/eval/predict/fantasy history the driver
  * extracts, by introspection, the ATTRIBUTE TABLE of the real source object and of the freshly
    constructed target (parameters, persistent buffers, plain state reachable from __dict__ that
    is neither, caches), numbers attribute names and tensor contents, and hands both tables to the
    Coq model (Models/C18_persist.v, vm_compute): the model computes the state_dict, whether strict
    loading succeeds (missing / unexpected keys), the table of the restored object for each
    mechanism, and which relevant attributes violate the premise `carried or re-created by the
    constructor';
  * performs the real round trip (torch.save/torch.load of state_dict + load_state_dict(strict) into
    a freshly constructed model with default hyper-parameters; pickle.dumps/loads; copy.deepcopy)
    and compares the PUBLIC behaviour of the restored model with the source's: state_dict, prior,
    predictive mean/covariance, marginal predictive, MLL/ELBO, constraint bounds and constrained
    values, prior parameters and log-densities, flags.
Verdict: behaviour decides.  The model's strict-load status and restored state_dict must agree with
the implementation's; where the model says the premise holds the behaviour must be preserved."""
import copy
import hashlib
import io
import json
import pickle
import random
import time
import warnings

import torch

import gpytorch
from gpytorch import settings as gs
from harness.lib import common as C

COQ_TARGETS = ["Models/C18_persist.vo"]
LEVEL_NOTE = ("theorems are about the Gallina attribute-table model composed with the C03 cache machine (all tables, all "
              "histories); the tie to /repo is differential: attribute tables extracted by introspection are run through "
              "the model, the real round trips are performed and public behaviour of restored vs source is compared "
              "(float64, bit-equality counted, gate 1e-12)")
IMPORTS = "From Coq Require Import List ZArith.\nFrom GPV Require Import Models.C03_cache Models.C18_persist."
RUN_DEF = ("Definition mk (a b : list (Z * Z * Z)) (c d : list Z) := (a, b, c, d).\n"
           "Definition run := run_table.")

torch.set_default_dtype(torch.float64)
warnings.filterwarnings("ignore")

K = gpytorch.kernels
P = gpytorch.priors
CN = gpytorch.constraints
L = gpytorch.likelihoods
V = gpytorch.variational
MVN = gpytorch.distributions.MultivariateNormal
MTMVN = gpytorch.distributions.MultitaskMultivariateNormal

ATOL = 1e-12          # "to rounding": restored and source run the same float64 computation
ATOL_FANT = 1e-8      # a fantasy model as SOURCE answers from low-rank updated caches (C04), a restored one from scratch


# =========================================================================== model classes (module level: picklable)

class ExactM(gpytorch.models.ExactGP):
    def __init__(self, X, y, lik, mean, kern, mt=False):
        super().__init__(X, y, lik)
        self.mean_module, self.covar_module, self.mt = mean, kern, mt

    def forward(self, x):
        m, k = self.mean_module(x), self.covar_module(x)
        return MTMVN(m, k) if self.mt else MVN(m, k)


class BatchIndepM(gpytorch.models.ExactGP):
    """batch-independent multi-output exact GP"""

    def __init__(self, X, y, lik, t):
        super().__init__(X, y, lik)
        bs = torch.Size([t])
        self.mean_module = gpytorch.means.ConstantMean(batch_shape=bs)
        self.covar_module = K.ScaleKernel(K.RBFKernel(batch_shape=bs), batch_shape=bs)

    def forward(self, x):
        return MTMVN.from_batch_mvn(MVN(self.mean_module(x), self.covar_module(x)))


class VarM(gpytorch.models.ApproximateGP):
    def __init__(self, make_strategy, mean, kern):
        super().__init__(make_strategy(self))
        self.mean_module, self.covar_module = mean, kern

    def forward(self, x):
        return MVN(self.mean_module(x), self.covar_module(x))


# =========================================================================== component builders
# `alt` (0/1) moves every numeric constructor argument that ends up in a BUFFER (constraint bounds,
# prior parameters, grids, random features, initial inducing points): the state_dict must carry
# those into a target built with other numbers (same classes / shapes = same architecture).

def _a(alt, x, y):
    return y if alt else x


def make_kernel(name, d, alt, lik=None, Z=None):
    if name == "rbf":
        return K.RBFKernel()
    if name == "rbf_ard":
        return K.RBFKernel(ard_num_dims=d)
    if name == "matern05":
        return K.MaternKernel(nu=0.5)
    if name == "matern15_ard":
        return K.MaternKernel(nu=1.5, ard_num_dims=d)
    if name == "matern25":
        return K.ScaleKernel(K.MaternKernel(nu=2.5))
    if name == "scale_rbf":
        return K.ScaleKernel(K.RBFKernel())
    if name == "rq":
        return K.RQKernel()
    if name == "periodic":
        return K.ScaleKernel(K.PeriodicKernel())
    if name == "cosine":
        return K.CosineKernel() + K.RBFKernel()
    if name == "linear":
        return K.LinearKernel() + K.ConstantKernel()
    if name == "poly2":
        return K.PolynomialKernel(power=2)
    if name == "piecewise":
        return K.ScaleKernel(K.PiecewisePolynomialKernel(q=2))
    if name == "sum_prod":
        return K.ScaleKernel(K.RBFKernel() * K.MaternKernel(nu=1.5)) + K.LinearKernel()
    if name == "active_dims":
        return K.RBFKernel(active_dims=[0]) * K.MaternKernel(nu=2.5, active_dims=[d - 1])
    if name == "sm":
        return K.SpectralMixtureKernel(num_mixtures=2, ard_num_dims=d)
    if name == "rff_lazy":
        return K.ScaleKernel(K.RFFKernel(num_samples=4))
    if name == "rff_eager":
        return K.ScaleKernel(K.RFFKernel(num_samples=4, num_dims=d))
    if name == "spectral_delta":
        return K.ScaleKernel(K.SpectralDeltaKernel(num_dims=d, num_deltas=6))
    if name == "kiss":
        b = _a(alt, 3.0, 3.5)
        return K.ScaleKernel(K.GridInterpolationKernel(K.RBFKernel(), grid_size=8, num_dims=d, grid_bounds=[(-b, b)] * d))
    if name == "kiss_matern_noscale":
        b = _a(alt, 3.0, 3.25)
        return K.GridInterpolationKernel(K.MaternKernel(nu=2.5), grid_size=10, num_dims=d, grid_bounds=[(-b, b)] * d)
    if name == "grid":
        raise KeyError(name)
    if name == "sgpr":
        return K.InducingPointKernel(K.ScaleKernel(K.RBFKernel()), inducing_points=Z.clone() + _a(alt, 0.0, 0.125),
                                     likelihood=lik)
    if name == "sgpr_matern_ard":
        return K.InducingPointKernel(K.MaternKernel(nu=1.5, ard_num_dims=d), inducing_points=Z.clone() + _a(alt, 0.0, 0.25),
                                     likelihood=lik)
    if name == "arc":
        return K.ScaleKernel(K.ArcKernel(K.MaternKernel(nu=2.5), angle_prior=P.GammaPrior(_a(alt, 0.5, 0.75), 1.0),
                                         radius_prior=P.GammaPrior(3.0, _a(alt, 2.0, 2.5)), ard_num_dims=d))
    if name == "cylindrical":
        return K.ScaleKernel(K.CylindricalKernel(3, K.MaternKernel(nu=2.5),
                                                 alpha_prior=P.LogNormalPrior(_a(alt, 0.0, 0.25), 1.0),
                                                 beta_prior=P.NormalPrior(_a(alt, 1.0, 1.5), 1.0)))
    if name == "prior_gamma_interval":
        return K.ScaleKernel(
            K.RBFKernel(lengthscale_prior=P.GammaPrior(_a(alt, 2.0, 3.0), _a(alt, 3.0, 2.0)),
                        lengthscale_constraint=CN.Interval(_a(alt, 0.05, 0.1), _a(alt, 6.0, 9.0))),
            outputscale_prior=P.LogNormalPrior(_a(alt, 0.0, 0.5), _a(alt, 1.0, 0.75)),
            outputscale_constraint=CN.GreaterThan(_a(alt, 0.01, 0.05)))
    if name == "prior_normal_sbox":
        return K.ScaleKernel(
            K.MaternKernel(nu=1.5, ard_num_dims=d, lengthscale_prior=P.NormalPrior(_a(alt, 1.0, 1.5), _a(alt, 0.5, 0.75)),
                           lengthscale_constraint=CN.Positive(transform=torch.exp, inv_transform=torch.log)),
            outputscale_prior=P.SmoothedBoxPrior(_a(alt, 0.1, 0.2), _a(alt, 4.0, 6.0), sigma=_a(alt, 0.05, 0.1)),
            outputscale_constraint=CN.Interval(_a(alt, 0.01, 0.02), _a(alt, 20.0, 30.0), initial_value=_a(alt, 1.5, 2.5)))
    if name == "prior_uniform_halfcauchy":
        return K.ScaleKernel(
            K.RQKernel(lengthscale_prior=P.UniformPrior(_a(alt, 0.01, 0.02), _a(alt, 10.0, 12.0)),
                       alpha_constraint=CN.LessThan(_a(alt, 50.0, 80.0))),
            outputscale_prior=P.HalfCauchyPrior(_a(alt, 1.0, 2.0)))
    if name == "prior_halfnormal_horseshoe":
        return K.ScaleKernel(
            K.PeriodicKernel(period_length_prior=P.HalfNormalPrior(_a(alt, 2.0, 3.0)),
                             lengthscale_prior=P.HorseshoePrior(_a(alt, 0.5, 0.75))),
            outputscale_prior=P.GammaPrior(2.0, _a(alt, 0.15, 0.25)))
    if name == "prior_mvn_ard":
        return K.RBFKernel(ard_num_dims=d, lengthscale_prior=P.MultivariateNormalPrior(
            torch.full((d,), _a(alt, 1.0, 1.25)), covariance_matrix=torch.eye(d) * _a(alt, 0.5, 0.75)))
    raise KeyError(name)


EXACT_KERNELS = ["rbf", "rbf_ard", "matern05", "matern15_ard", "matern25", "scale_rbf", "rq", "periodic", "cosine", "linear",
                 "poly2", "piecewise", "sum_prod", "active_dims", "sm", "rff_lazy", "rff_eager", "spectral_delta", "kiss",
                 "kiss_matern_noscale", "sgpr", "sgpr_matern_ard", "arc", "cylindrical", "prior_gamma_interval",
                 "prior_normal_sbox", "prior_uniform_halfcauchy", "prior_halfnormal_horseshoe", "prior_mvn_ard"]


def make_mean(name, d, alt):
    if name == "zero":
        return gpytorch.means.ZeroMean()
    if name == "constant":
        return gpytorch.means.ConstantMean()
    if name == "constant_prior":
        return gpytorch.means.ConstantMean(constant_prior=P.NormalPrior(_a(alt, 0.0, 0.25), _a(alt, 2.0, 3.0)),
                                           constant_constraint=CN.Interval(_a(alt, -5.0, -6.0), _a(alt, 5.0, 6.0)))
    if name == "linear":
        return gpytorch.means.LinearMean(d)
    raise KeyError(name)


def make_lik(name, n, alt, noise=None):
    if name == "gaussian":
        return L.GaussianLikelihood()
    if name == "gaussian_constrained":
        return L.GaussianLikelihood(noise_constraint=CN.Interval(_a(alt, 1e-3, 2e-3), _a(alt, 2.0, 3.0)),
                                    noise_prior=P.GammaPrior(_a(alt, 1.1, 1.3), _a(alt, 0.5, 0.75)))
    if name == "gaussian_greaterthan":
        return L.GaussianLikelihood(noise_constraint=CN.GreaterThan(_a(alt, 0.02, 0.04)),
                                    noise_prior=P.LogNormalPrior(_a(alt, -1.0, -0.5), _a(alt, 1.0, 0.5)))
    if name == "fixed":
        return L.FixedNoiseGaussianLikelihood(noise.clone(), learn_additional_noise=False)
    if name == "fixed_learned":
        return L.FixedNoiseGaussianLikelihood(noise.clone(), learn_additional_noise=True)
    raise KeyError(name)


# =========================================================================== families

class Fam:
    """one model family: data, constructor (from current constructor arguments `ctor`), objective"""
    kind = "exact"
    fantasy = False
    steps = 2

    def __init__(self, name, seed):
        self.name = name
        self.rng = random.Random("%s/%d" % (name, seed))
        self.tseed = self.rng.randrange(1 << 30)
        self.setup()

    def pts(self, n, d, lo=-2.0, hi=2.0):
        r = self.rng
        return torch.tensor([[round(r.uniform(lo, hi) * 16) / 16 for _ in range(d)] for _ in range(n)])

    def vals(self, n, lo=-2.0, hi=2.0):
        r = self.rng
        return torch.tensor([round(r.uniform(lo, hi) * 8) / 8 for _ in range(n)])

    def build_seeded(self, ctor, alt):
        """constructor under a fixed torch seed (random features / random initial values are part of
        the constructor's behaviour); alt uses another seed so that such state must be CARRIED"""
        torch.manual_seed(self.tseed + 7919 * alt)
        return self.build(ctor, alt)

    def ctor_of(self, model):
        return None

    # objective in training mode
    def objective(self, model):
        raise NotImplementedError

    def test_inputs(self):
        return self.Xs

    def members(self, model):
        return [model]


class ExactFam(Fam):
    def __init__(self, name, seed, kernel, lik="gaussian", mean="constant", d=2):
        self.kernel, self.lik, self.mean, self.d = kernel, lik, mean, d
        super().__init__(name, seed)

    def setup(self):
        d = self.d
        self.n = 6
        self.X, self.y = self.pts(self.n, d), self.vals(self.n)
        self.box = 0.5 if self.kernel == "cylindrical" else 2.0     # the cylindrical kernel lives on the unit ball
        if self.kernel == "cylindrical":
            self.X = self.pts(self.n, d, -0.5, 0.5)
        self.noise = torch.tensor([round(self.rng.uniform(0.1, 0.5) * 64) / 64 for _ in range(self.n)])
        b = self.box
        self.Xs = self.pts(3, d, -b, b)
        self.Xf, self.yf = self.pts(2, d, -b, b), self.vals(2)
        self.Z = self.pts(3, d)
        # get_fantasy_model is not implemented for SGPR / RFF models
        self.fantasy = self.kernel not in ("sgpr", "sgpr_matern_ard", "rff_lazy", "rff_eager")
        self.ctor0 = dict(X=self.X, y=self.y, noise=self.noise)

    def build(self, ctor, alt):
        X, y = ctor["X"], ctor["y"]
        lik = make_lik(self.lik, X.size(0), alt, noise=ctor.get("noise"))
        kern = make_kernel(self.kernel, self.d, alt, lik=lik, Z=self.Z)
        return ExactM(X.clone(), y.clone(), lik, make_mean(self.mean, self.d, alt), kern)

    def ctor_of(self, model):
        c = dict(X=model.train_inputs[0].detach().clone(), y=model.train_targets.detach().clone())
        nc = getattr(model.likelihood, "noise_covar", None)
        if isinstance(nc, gpytorch.likelihoods.noise_models.FixedGaussianNoise):
            c["noise"] = nc.noise.detach().clone()
        return c

    def lik_kwargs(self, model, n):
        if self.lik.startswith("fixed"):
            return dict(noise=torch.full((n,), 0.25))
        return {}

    def objective(self, model):
        mll = gpytorch.mlls.ExactMarginalLogLikelihood(model.likelihood, model)
        return mll(model(*model.train_inputs), model.train_targets)

    def get_fantasy(self, model):
        kw = self.lik_kwargs(model, self.Xf.size(0))
        return model.get_fantasy_model(self.Xf.clone(), self.yf.clone(), **kw)


class MultitaskExactFam(ExactFam):
    """Kronecker multitask exact GP"""

    def __init__(self, name, seed, rank=1, lik_rank=0, global_noise=True):
        self.rank, self.lik_rank, self.global_noise = rank, lik_rank, global_noise
        super().__init__(name, seed, "mt", "mt", "mt", d=2)

    def setup(self):
        super().setup()
        self.t = 2
        self.n = 4
        self.X = self.pts(self.n, self.d)
        self.y = torch.stack([self.vals(self.n) for _ in range(self.t)], -1)
        self.yf = torch.stack([self.vals(2) for _ in range(self.t)], -1)
        self.fantasy = False
        self.ctor0 = dict(X=self.X, y=self.y)

    def build(self, ctor, alt):
        X, y = ctor["X"], ctor["y"]
        lik = L.MultitaskGaussianLikelihood(
            num_tasks=self.t, rank=self.lik_rank, has_global_noise=self.global_noise,
            noise_constraint=CN.GreaterThan(_a(alt, 1e-3, 2e-3)),
            noise_prior=(P.GammaPrior(_a(alt, 1.1, 1.3), 0.5) if self.global_noise else None))
        mean = gpytorch.means.MultitaskMean(gpytorch.means.ConstantMean(), num_tasks=self.t)
        kern = K.MultitaskKernel(K.RBFKernel(), num_tasks=self.t, rank=self.rank)
        return ExactM(X.clone(), y.clone(), lik, mean, kern, mt=True)

    def ctor_of(self, model):
        return dict(X=model.train_inputs[0].detach().clone(), y=model.train_targets.detach().clone())

    def lik_kwargs(self, model, n):
        return {}


class BatchIndepFam(MultitaskExactFam):
    def build(self, ctor, alt):
        X, y = ctor["X"], ctor["y"]
        lik = L.MultitaskGaussianLikelihood(num_tasks=self.t)
        return BatchIndepM(X.clone(), y.clone(), lik, self.t)

    def setup(self):
        super().setup()
        self.fantasy = False


class ListFam(Fam):
    """IndependentModelList + LikelihoodList of two exact GPs"""
    kind = "list"

    def __init__(self, name, seed, specs):
        self.specs = specs
        super().__init__(name, seed)

    def setup(self):
        self.subs = [ExactFam("%s/%d" % (self.name, i), self.rng.randrange(1000), k, l, m, d=1)
                     for i, (k, l, m) in enumerate(self.specs)]
        self.Xs = self.subs[0].Xs
        self.fantasy = True
        self.ctor0 = [s.ctor0 for s in self.subs]

    def build(self, ctor, alt):
        return gpytorch.models.IndependentModelList(*[s.build(c, alt) for s, c in zip(self.subs, ctor)])

    def ctor_of(self, model):
        return [s.ctor_of(m) for s, m in zip(self.subs, model.models)]

    def objective(self, model):
        mll = gpytorch.mlls.SumMarginalLogLikelihood(model.likelihood, model)
        return mll(model(*model.train_inputs), model.train_targets)

    def members(self, model):
        return list(model.models)

    def get_fantasy(self, model):
        k = len(self.subs)
        kw = {}
        if any(s.lik.startswith("fixed") for s in self.subs):
            kw["noise"] = [torch.full((2,), 0.25) for _ in range(k)]
        return model.get_fantasy_model([s.Xf.clone() for s in self.subs], [s.yf.clone() for s in self.subs], **kw)


VAR_DISTS = {"cholesky": V.CholeskyVariationalDistribution, "meanfield": V.MeanFieldVariationalDistribution,
             "delta": V.DeltaVariationalDistribution, "natural": V.NaturalVariationalDistribution,
             "trilnatural": V.TrilNaturalVariationalDistribution}


class _Strat:
    """picklable strategy factory"""

    def __init__(self, fam, alt):
        self.fam, self.alt = fam, alt

    def __call__(self, model):
        f, alt = self.fam, self.alt
        m = f.Z.size(-2)
        Z = f.Z.clone() + _a(alt, 0.0, 0.125)
        bs = torch.Size([f.latents]) if f.latents else torch.Size([])
        if bs:
            Z = Z.unsqueeze(0).repeat(f.latents, 1, 1) + 0.0625 * torch.arange(f.latents).view(-1, 1, 1)
        dist = VAR_DISTS[f.dist](m, batch_shape=bs)
        s = f.strat
        if s == "whitened":
            vs = V.VariationalStrategy(model, Z, dist, learn_inducing_locations=True)
        elif s == "whitened_fixedZ":
            vs = V.VariationalStrategy(model, Z, dist, learn_inducing_locations=False, jitter_val=1e-5)
        elif s == "unwhitened":
            vs = V.UnwhitenedVariationalStrategy(model, Z, dist, learn_inducing_locations=True)
        elif s == "batch_decoupled":
            vs = V.BatchDecoupledVariationalStrategy(model, Z, dist, learn_inducing_locations=True)
        elif s == "ciq":
            vs = V.CiqVariationalStrategy(model, Z, dist, learn_inducing_locations=True)
        elif s == "orth_decoupled":
            cov = V.VariationalStrategy(model, Z, dist, learn_inducing_locations=True)
            Zm = f.Zm.clone() + _a(alt, 0.0, 0.125)
            vs = V.OrthogonallyDecoupledVariationalStrategy(cov, Zm, V.DeltaVariationalDistribution(Zm.size(-2)))
        elif s == "grid":
            b = _a(alt, 3.0, 3.5)
            vs = V.GridInterpolationVariationalStrategy(model, 8, [(-b, b)], VAR_DISTS[f.dist](8))
        else:
            raise KeyError(s)
        if f.mt == "indep":
            vs = V.IndependentMultitaskVariationalStrategy(vs, num_tasks=f.latents)
        elif f.mt == "lmc":
            vs = V.LMCVariationalStrategy(vs, num_tasks=3, num_latents=f.latents, latent_dim=-1)
        return vs


class VarFam(Fam):
    kind = "var"

    def __init__(self, name, seed, strat, dist, lik="gaussian", mt=None, kernel="scale_rbf"):
        self.strat, self.dist, self.lik, self.mt, self.kernel = strat, dist, lik, mt, kernel
        self.latents = 2 if mt else 0
        super().__init__(name, seed)

    def setup(self):
        d = 1 if self.strat == "grid" else 2
        self.d = d
        self.Z = self.pts(4, d)
        self.Zm = self.pts(3, d)
        self.n = 8
        self.X = self.pts(self.n, d)
        if self.mt:
            nt = 3 if self.mt == "lmc" else self.latents
            self.y = torch.stack([self.vals(self.n) for _ in range(nt)], -1)
        elif self.lik == "bernoulli":
            self.y = (self.vals(self.n) > 0).to(torch.float64)
        elif self.lik == "beta":
            self.y = torch.tensor([round(self.rng.uniform(0.1, 0.9) * 32) / 32 for _ in range(self.n)])
        else:
            self.y = self.vals(self.n)
        self.Xs = self.pts(3, d)
        self.Xf, self.yf = self.pts(2, d), self.vals(2)
        self.fantasy = (self.strat == "whitened" and self.dist == "cholesky" and not self.mt and self.lik == "gaussian")
        self.ctor0 = None

    def make_lik(self, alt):
        if self.mt:
            nt = 3 if self.mt == "lmc" else self.latents
            return L.MultitaskGaussianLikelihood(num_tasks=nt)
        if self.lik == "gaussian":
            return L.GaussianLikelihood(noise_constraint=CN.GreaterThan(_a(alt, 1e-3, 2e-3)))
        if self.lik == "bernoulli":
            return L.BernoulliLikelihood()
        if self.lik == "studentt":
            return L.StudentTLikelihood(deg_free_prior=P.GammaPrior(_a(alt, 2.0, 3.0), 0.5))
        if self.lik == "laplace":
            return L.LaplaceLikelihood()
        if self.lik == "beta":
            return L.BetaLikelihood(scale_prior=P.GammaPrior(_a(alt, 2.0, 3.0), 0.5))
        raise KeyError(self.lik)

    def build(self, ctor, alt):
        bs = torch.Size([self.latents]) if self.latents else torch.Size([])
        if bs:
            mean = gpytorch.means.ConstantMean(batch_shape=bs)
            kern = K.ScaleKernel(K.RBFKernel(batch_shape=bs), batch_shape=bs)
        else:
            mean = gpytorch.means.ConstantMean()
            kern = make_kernel(self.kernel, self.d, alt)
        m = VarM(_Strat(self, alt), mean, kern)
        m.likelihood = self.make_lik(alt)
        return m

    def objective(self, model):
        mll = gpytorch.mlls.VariationalELBO(model.likelihood, model, num_data=self.n)
        return mll(model(self.X), self.y)

    def get_fantasy(self, model):
        return model.get_fantasy_model(self.Xf.clone(), self.yf.clone())


def families(seed, tier):
    fams = []
    # exact GP: every kernel with the plain Gaussian likelihood; likelihood / mean variants on a few kernels
    for k in EXACT_KERNELS:
        fams.append(ExactFam("exact:%s:gaussian:constant" % k, seed, k))
    for k, l, m in [("scale_rbf", "gaussian_constrained", "constant_prior"), ("matern15_ard", "gaussian_greaterthan", "linear"),
                    ("scale_rbf", "fixed", "zero"), ("rq", "fixed_learned", "constant"), ("kiss", "fixed_learned", "constant_prior"),
                    ("sgpr", "gaussian_constrained", "linear"), ("prior_gamma_interval", "gaussian_greaterthan", "constant_prior"),
                    ("rff_lazy", "fixed", "constant"), ("sm", "gaussian_constrained", "zero")]:
        fams.append(ExactFam("exact:%s:%s:%s" % (k, l, m), seed, k, l, m))
    fams.append(MultitaskExactFam("mtexact:rank1:lik0", seed, 1, 0, True))
    fams.append(MultitaskExactFam("mtexact:rank2:lik1", seed, 2, 1, True))
    fams.append(MultitaskExactFam("mtexact:rank1:lik0:noglobal", seed, 1, 0, False))
    fams.append(BatchIndepFam("batchindep", seed))
    fams.append(ListFam("list:rbf-gaussian+matern-fixed", seed, [("scale_rbf", "gaussian", "constant"),
                                                                 ("matern25", "fixed_learned", "zero")]))
    fams.append(ListFam("list:prior+rff", seed, [("prior_gamma_interval", "gaussian_constrained", "constant_prior"),
                                                 ("rff_eager", "gaussian", "constant")]))
    for s in ["whitened", "whitened_fixedZ", "unwhitened", "batch_decoupled"]:
        for dn in ["cholesky", "meanfield", "delta", "natural", "trilnatural"]:
            if s == "unwhitened" and dn in ("natural", "trilnatural"):
                continue
            fams.append(VarFam("var:%s:%s" % (s, dn), seed, s, dn))
    fams.append(VarFam("var:orth_decoupled:cholesky", seed, "orth_decoupled", "cholesky"))
    fams.append(VarFam("var:grid:cholesky", seed, "grid", "cholesky"))
    fams.append(VarFam("var:ciq:natural", seed, "ciq", "natural"))
    fams.append(VarFam("var:whitened:cholesky:prior_kernel", seed, "whitened", "cholesky", kernel="prior_gamma_interval"))
    fams.append(VarFam("var:whitened:cholesky:rff_lazy", seed, "whitened", "cholesky", kernel="rff_lazy"))
    for lk in ["bernoulli", "studentt", "laplace", "beta"]:
        fams.append(VarFam("var:whitened:cholesky:%s" % lk, seed, "whitened", "cholesky", lik=lk))
    fams.append(VarFam("var:indep-multitask:cholesky", seed, "whitened", "cholesky", mt="indep"))
    fams.append(VarFam("var:lmc:meanfield", seed, "whitened", "meanfield", mt="lmc"))
    return fams


# =========================================================================== history / save points

def perturb(model, rng):
    """move every hyper-parameter away from its constructor default (raw space, small: stays inside
    every constraint); variational parameters are initialised first by one training-mode call"""
    g = torch.Generator().manual_seed(rng.randrange(1 << 30))
    with torch.no_grad():
        for name, p in model.named_parameters():
            scale = 0.05 if ("inducing_points" in name or "variational" in name) else 0.3
            p.add_(scale * (2 * torch.rand(p.shape, generator=g) - 1))


def train_steps(fam, model, k):
    model.train()
    for m in fam.members(model):
        m.train()
    opt = torch.optim.Adam([p for p in model.parameters() if p.requires_grad], lr=0.02)
    for _ in range(k):
        opt.zero_grad(set_to_none=True)
        torch.manual_seed(fam.tseed + 3)
        loss = -fam.objective(model)
        loss.sum().backward()
        opt.step()
    model.zero_grad(set_to_none=True)


def eval_predict(fam, model, grad=False):
    model.eval()
    torch.manual_seed(fam.tseed + 5)
    if grad:
        with gs.detach_test_caches(False):
            _call(fam, model)
    else:
        with torch.no_grad():
            _call(fam, model)


def _call(fam, model):
    if fam.kind == "list":
        return model(*[fam.Xs for _ in fam.subs])
    return model(fam.Xs)


SAVE_POINTS = ["init", "trained", "eval", "eval-grad", "fantasy-source", "fantasy-model"]


def reach(fam, point, seed):
    """a source object at the given save point (+ whether it is a fantasy model)"""
    src = fam.build_seeded(fam.ctor0, 0)
    rng = random.Random("%s/%s/%d" % (fam.name, point, seed))
    if fam.kind == "var":
        train_steps(fam, src, 1)       # initialises the variational parameters (flag buffer := 1)
    perturb(src, rng)
    if point == "init":
        return src
    train_steps(fam, src, fam.steps)
    if point == "trained":
        return src
    if point == "eval-grad":
        eval_predict(fam, src, grad=True)
        return src
    eval_predict(fam, src)
    if point == "eval":
        return src
    with torch.no_grad():
        fm = fam.get_fantasy(src)
    if point == "fantasy-source":
        return src
    return fm


# =========================================================================== observation (public behaviour)

PRIOR_ATTRS = ["loc", "scale", "concentration", "rate", "a", "b", "sigma", "low", "high", "df", "eta", "K", "nu", "n",
               "covariance_matrix", "_transformed_loc", "_transformed_scale"]


def _t(x):
    return x.detach().clone() if torch.is_tensor(x) else torch.as_tensor(x)


def observe(fam, model, fixed_mode=None):
    """everything the property speaks about, read through public calls.  The model is first used in
    the mode it is in (so that whatever caches it carries are consulted), then in the other mode."""
    obs = {}
    obs["flag:training"] = torch.tensor(bool(model.training))
    with torch.no_grad():
        for k, v in model.state_dict().items():
            obs["sd:" + k] = _t(v)
    order = ["train", "eval"] if model.training else ["eval", "train"]
    for mode in order:
        torch.manual_seed(fam.tseed + 11)
        if mode == "eval":
            model.eval()
            with torch.no_grad():
                out = _call(fam, model)
                outs = out if isinstance(out, (list, tuple)) else [out]
                for i, o in enumerate(outs):
                    obs["pred:mean:%d" % i] = _t(o.mean)
                    obs["pred:cov:%d" % i] = _t(o.covariance_matrix)
                # marginal predictive through the likelihood
                try:
                    if fam.kind == "list":
                        kw = {}
                        if any(s.lik.startswith("fixed") for s in fam.subs):
                            kw["noise"] = [torch.full((fam.Xs.size(0),), 0.25) for _ in fam.subs]
                        ys = model.likelihood(*outs, **kw)
                    elif fam.kind == "exact":
                        ys = [model.likelihood(out, **fam.lik_kwargs(model, fam.Xs.size(0)))]
                    else:
                        ys = [model.likelihood(out)]
                    for i, o in enumerate(ys):
                        obs["marg:mean:%d" % i] = _t(o.mean)
                        obs["marg:var:%d" % i] = _t(o.variance)
                except NotImplementedError:
                    pass
                # prior
                try:
                    if fam.kind == "var":
                        pr = [model(fam.Xs, prior=True)]
                    else:
                        with gs.prior_mode(True):
                            pr = _call(fam, model)
                            pr = pr if isinstance(pr, (list, tuple)) else [pr]
                except TypeError:      # OrthogonallyDecoupledVariationalStrategy has no prior=True call (fresh models too)
                    pr = []
                    obs["prior:raises"] = torch.tensor(1)
                for i, o in enumerate(pr):
                    obs["prior:mean:%d" % i] = _t(o.mean)
                    obs["prior:cov:%d" % i] = _t(o.covariance_matrix)
        else:
            model.train()
            for m in fam.members(model):
                m.train()
            obj = fam.objective(model)
            obs["objective"] = _t(obj)
            g = torch.autograd.grad(obj.sum(), [p for p in model.parameters() if p.requires_grad], allow_unused=True)
            obs["objective:gradnorm"] = torch.stack([x.norm() if x is not None else torch.zeros(()) for x in g])
    with torch.no_grad():
        for name, p, c in model.named_parameters_and_constraints():
            if c is not None:
                obs["bound:lower:" + name] = _t(c.lower_bound)
                obs["bound:upper:" + name] = _t(c.upper_bound)
                obs["constrained:" + name] = _t(c.transform(p))
        for name, mod, prior, closure, _ in model.named_priors():
            obs["priorlp:" + name] = _t(prior.log_prob(closure(mod)).sum())
            for a in PRIOR_ATTRS:
                try:
                    v = getattr(prior, a)
                except Exception:
                    continue
                if torch.is_tensor(v):
                    obs["priorparam:%s:%s" % (name, a)] = _t(v)
        if fam.kind == "var":
            obs["kl"] = _t(model.variational_strategy.kl_divergence())
    if fixed_mode is not None:
        model.train(fixed_mode)
    return obs


def compare(ref, got, atol):
    """list of (observable, max abs difference or description); and the number of bit-equal observables"""
    bad, exact = [], 0
    for k in ref:
        if k not in got:
            bad.append((k, "missing in restored"))
            continue
        a, b = ref[k], got[k]
        if a.shape != b.shape:
            bad.append((k, "shape %s vs %s" % (tuple(a.shape), tuple(b.shape))))
            continue
        if a.dtype == torch.bool or not a.dtype.is_floating_point:
            if not torch.equal(a, b):
                bad.append((k, "discrete value differs"))
            else:
                exact += 1
            continue
        if torch.equal(a, b) or (a.numel() == 0):
            exact += 1
            continue
        a64, b64 = a.double(), b.double()
        same_nan = torch.isnan(a64) == torch.isnan(b64)
        diff = torch.where(torch.isnan(a64) | torch.isnan(b64), torch.zeros_like(a64), (a64 - b64).abs())
        diff = torch.where(torch.isinf(a64) & (a64 == b64), torch.zeros_like(diff), diff)
        tol = atol * (1.0 + a64.abs())
        tol = torch.where(torch.isinf(tol), torch.full_like(tol, 1e300), tol)
        if (not bool(same_nan.all())) or bool((diff > tol).any()):
            bad.append((k, float(diff.max())))
    for k in got:
        if k not in ref:
            bad.append((k, "only in restored"))
    return bad, exact


# =========================================================================== attribute tables (introspection)

CLS_PARAM, CLS_BUFFER, CLS_PLAIN, CLS_CACHE = 0, 1, 2, 3
CACHE_NAMES = {"_memoize_cache", "prediction_strategy", "_cached_kernel_mat", "_cached_kernel_inv_root",
               "_last_test_train_covar", "_cached_x", "_cached_kernel_eye"}
TORCH_INTERNAL = {"_parameters", "_buffers", "_modules", "_non_persistent_buffers_set", "_backward_pre_hooks",
                  "_backward_hooks", "_is_full_backward_hook", "_forward_hooks", "_forward_hooks_with_kwargs",
                  "_forward_hooks_always_called", "_forward_pre_hooks", "_forward_pre_hooks_with_kwargs",
                  "_state_dict_hooks", "_state_dict_pre_hooks", "_load_state_dict_pre_hooks",
                  "_load_state_dict_post_hooks", "training", "_compiled_call_impl", "_added_loss_terms", "_priors",
                  "_constraints", "_strict_init", "_load_strict_shapes", "model"}


class Numbering:
    """names -> small ints, tensor contents -> small ints (shared by all tables of one case)"""

    def __init__(self):
        self.names, self.vals = {}, {}

    def name(self, s):
        return self.names.setdefault(s, len(self.names))

    def val(self, x):
        if torch.is_tensor(x):
            t = x.detach().cpu().contiguous()
            key = ("T", str(t.dtype), tuple(t.shape), hashlib.sha1(t.numpy().tobytes()).hexdigest())
        else:
            key = ("P", repr(x))
        return self.vals.setdefault(key, len(self.vals) + 1)

    def name_of(self, i):
        for k, v in self.names.items():
            if v == i:
                return k
        return "?%d" % i


def _plain_entries(prefix, obj, depth, acc):
    """tensors / python scalars reachable from a __dict__ value that is not a Module"""
    if torch.is_tensor(obj):
        acc.append((prefix, obj))
    elif isinstance(obj, (bool, int, float, str)) or obj is None:
        acc.append((prefix, obj))
    elif isinstance(obj, torch.Size):
        acc.append((prefix, tuple(obj)))
    elif isinstance(obj, (list, tuple)) and depth < 3:
        for i, x in enumerate(obj):
            _plain_entries("%s[%d]" % (prefix, i), x, depth + 1, acc)
    elif isinstance(obj, torch.distributions.Distribution) and not isinstance(obj, torch.nn.Module) and depth < 3:
        for k, v in vars(obj).items():
            _plain_entries("%s.%s" % (prefix, k), v, depth + 1, acc)
    # anything else (functions, modules, linear operators, distributions' lazy attributes) is not state we can name


def attr_table(model, num):
    """[(attr id, class, value id)] of a real object + {attr id: name}"""
    rows = []
    # plain attributes that ARE a registered parameter/buffer tensor (same storage and shape, e.g. base_dist.loc of a
    # bufferized TransformedDistribution prior) are views of carried state, not state of their own
    registered = {(t.data_ptr(), tuple(t.shape)) for t in list(model.parameters()) + list(model.buffers()) if t.numel() > 0}
    # shared sub-modules (SGPR's likelihood, one constraint registered under two names) appear under every
    # path, exactly as in state_dict()
    for mname, mod in model.named_modules(remove_duplicate=False):
        pre = mname + "." if mname else ""
        for k, p in mod._parameters.items():
            if p is not None:
                rows.append((num.name(pre + k), CLS_PARAM, num.val(p)))
        for k, b in mod._buffers.items():
            if b is None:
                continue
            cls = CLS_PLAIN if k in mod._non_persistent_buffers_set else CLS_BUFFER
            rows.append((num.name(pre + k), cls, num.val(b)))
        for k, v in vars(mod).items():
            if k in TORCH_INTERNAL:
                continue
            if k in CACHE_NAMES:
                if k == "_memoize_cache":
                    for ck in v:
                        rows.append((num.name("%s%s[%s]" % (pre, k, ck[0] if isinstance(ck, tuple) else ck)), CLS_CACHE, 1))
                elif v is not None:
                    rows.append((num.name(pre + k), CLS_CACHE, 1))
                continue
            acc = []
            _plain_entries(pre + k, v, 0, acc)
            for nm, x in acc:
                if torch.is_tensor(x) and (x.data_ptr(), tuple(x.shape)) in registered:
                    continue
                rows.append((num.name(nm), CLS_PLAIN, num.val(x)))
    # the prediction strategy's own memo (exact GPs)
    for mname, mod in model.named_modules(remove_duplicate=False):
        ps = getattr(mod, "prediction_strategy", None)
        if ps is not None and hasattr(ps, "_memoize_cache"):
            for ck in ps._memoize_cache:
                nm = "%s%sprediction_strategy._memoize_cache[%s]" % (mname, "." if mname else "",
                                                                      ck[0] if isinstance(ck, tuple) else ck)
                rows.append((num.name(nm), CLS_CACHE, 1))
    # unique attribute ids (the model's NoDup premise); keep the first
    out, have = [], set()
    for r in rows:
        if r[0] not in have:
            have.add(r[0])
            out.append(r)
    return out


def sd_table(model, num):
    return sorted((num.name(k), num.val(v)) for k, v in model.state_dict().items())


# =========================================================================== one (family, save point) case

MECHS = [("sd", 0), ("sd", 1), ("sd-used", 0), ("pickle", 0), ("deepcopy", 0)]


def _exc_class(e):
    msg = str(e)
    if isinstance(e, RuntimeError) and "Unexpected key(s)" in msg:
        return "load:unexpected-keys"
    if isinstance(e, RuntimeError) and "Missing key(s)" in msg:
        return "load:missing-keys"
    if isinstance(e, RuntimeError) and "size mismatch" in msg:
        return "load:size-mismatch"
    if "Can't pickle local object" in msg or "Can't get local object" in msg or "pickle" in msg.lower():
        return "unpicklable-closure"
    if "graph leaves" in msg:
        return "graph-attached-cache"
    return type(e).__name__


def set_mode(fam, model, training):
    model.train(training)


def obs_class(k):
    p = k.split(":")
    if p[0] in ("pred", "marg", "prior", "bound"):
        return ":".join(p[:2])
    if p[0] == "priorparam":
        return "priorparam:" + p[-1]
    if p[0] == "objective" and len(p) > 1:
        return k
    return p[0]


def owner_class(model, attr_name):
    """class name of the module owning a dotted attribute name"""
    parts = attr_name.split("[")[0].split(".")
    mod = model
    for i, p in enumerate(parts[:-1]):
        nxt = getattr(mod, p, None) if not p.isdigit() else (mod[int(p)] if hasattr(mod, "__getitem__") else None)
        if not isinstance(nxt, torch.nn.Module):
            return type(mod).__name__ + "." + ".".join(parts[i:])
        mod = nxt
    return type(mod).__name__ + "." + parts[-1]


def do_case(args):
    """runs in a worker process: everything on the implementation side of one (family, point)"""
    fam_name, point, seed, tier = args
    torch.set_num_threads(1)
    fam = [f for f in families(seed, tier) if f.name == fam_name][0]
    rec = dict(fam=fam_name, point=point, seed=seed, mechs=[], status="ok")
    t0 = time.time()
    try:
        src = reach(fam, point, seed)
    except Exception as e:
        rec["status"] = "unreachable:%s: %s" % (type(e).__name__, str(e)[:160])
        return rec
    num = Numbering()
    src_training = bool(src.training)
    restored = []
    for mech, alt in MECHS:
        if mech.startswith("sd") and point == "fantasy-model" and fam.kind == "var":
            continue
        if mech == "sd-used" and point == "init":
            # a source that was never called may not yet hold state that is created on the first call; a USED target
            # then has a superset of keys and strict loading rightly reports them missing
            continue
        m = dict(mech=mech, alt=alt, exc=None, msg=None)
        try:
            if mech.startswith("sd"):
                buf = io.BytesIO()
                torch.save(src.state_dict(), buf)
                buf.seek(0)
                sd = torch.load(buf)
                ctor = fam.ctor_of(src) if fam.ctor0 is not None else None
                tgt = fam.build_seeded(ctor, alt)
                if mech == "sd-used":
                    if fam.kind == "var":
                        train_steps(fam, tgt, 1)
                    perturb(tgt, random.Random("%s/used/%d" % (fam.name, seed)))
                    train_steps(fam, tgt, 1)
                    eval_predict(fam, tgt)
                m["fresh_table"] = attr_table(tgt, num)
                try:
                    tgt.load_state_dict(sd)
                    m["strict"] = "ok"
                except RuntimeError as e:
                    m["strict"] = _exc_class(e)
                    m["strict_msg"] = str(e)[:400]
                    tgt.load_state_dict(sd, strict=False)
                tgt.train(src_training)
                obj = tgt
                # buffers the target's loader registered on demand belong to the target the state was loaded into
                have = {a for a, c, v in m["fresh_table"]}
                m["loader_created"] = [num.name(k) for k in tgt.state_dict() if num.name(k) not in have]
                m["fresh_table"] = m["fresh_table"] + [(a, CLS_BUFFER, 0) for a in m["loader_created"]]
            elif mech == "pickle":
                obj = pickle.loads(pickle.dumps(src))
            else:
                obj = copy.deepcopy(src)
            m["restored_table"] = attr_table(obj, num)
            m["restored_sd"] = sd_table(obj, num)
            restored.append((m, obj))
        except Exception as e:
            m["exc"] = _exc_class(e)
            m["msg"] = "%s: %s" % (type(e).__name__, str(e)[:300])
        rec["mechs"].append(m)
    rec["src_table"] = attr_table(src, num)
    rec["src_sd"] = sd_table(src, num)
    try:
        ref = observe(fam, src)
    except Exception as e:
        rec["status"] = "source-unobservable:%s: %s" % (type(e).__name__, str(e)[:200])
        rec["names"] = {v: k for k, v in num.names.items()}
        return rec
    rec["nobs"] = len(ref)
    atol = ATOL_FANT if point == "fantasy-model" else ATOL
    for m, obj in restored:
        try:
            got = observe(fam, obj)
            bad, exact = compare(ref, got, atol)
            m["diffs"] = [(k, v if isinstance(v, str) else "%.3e" % v) for k, v in bad]
            m["exact"] = exact
        except Exception as e:
            m["exc"] = "observe:" + type(e).__name__
            m["msg"] = "observing the restored object raised %s: %s" % (type(e).__name__, str(e)[:300])
    # independence: a restored object must not share storage with the source (moving every parameter of the
    # restored object must leave the source's state_dict untouched)
    with torch.no_grad():
        for m, obj in restored:
            if m.get("exc") is not None:
                continue
            for prm in obj.parameters():
                prm.add_(0.5)
            cur = {k: v for k, v in src.state_dict().items()}
            moved = sorted(k for k, v in cur.items() if "sd:" + k in ref and not torch.equal(v, ref["sd:" + k]))
            if moved:
                m["aliases"] = moved[:6]
                for k, v in cur.items():          # put the source back
                    if "sd:" + k in ref:
                        v.copy_(ref["sd:" + k])
    rec["names"] = {v: k for k, v in num.names.items()}
    rec["owners"] = {}
    for a, c, v in rec["src_table"]:
        if c == CLS_PLAIN:
            rec["owners"][a] = owner_class(src, rec["names"][a])
    rec["tensor_valued"] = sorted(a for a, c, v in rec["src_table"]
                                  if any(k[0] == "T" and vid == v for k, vid in num.vals.items()))
    rec["wall"] = round(time.time() - t0, 2)
    return rec


# =========================================================================== model side

def coq_triples(rows):
    return "[" + "; ".join("(%d, %d, %d)" % r for r in rows) + "]"


def coq_term(src_table, fresh_table, rel, dropped):
    return "(mk %s %s %s %s)" % (coq_triples(src_table), coq_triples(fresh_table), C.z_list(rel), C.z_list(dropped))


def decode(ints):
    r = C.Reader(ints)
    out = dict(strict=bool(r.int()))
    out["missing"] = [r.int() for _ in range(r.int())]
    out["unexpected"] = [r.int() for _ in range(r.int())]
    out["loaded"] = [(r.int(), r.int(), r.int()) for _ in range(r.int())]
    out["copied"] = [(r.int(), r.int(), r.int()) for _ in range(r.int())]
    out["caches_after_load"] = r.int()
    out["sd_preserved"] = bool(r.int())
    out["copy_preserved"] = bool(r.int())
    out["bad"] = [r.int() for _ in range(r.int())]
    out["lost"] = [r.int() for _ in range(r.int())]
    assert r.done()
    return out


def model_inputs(rec, m):
    src = rec["src_table"]
    rel = [a for a, c, v in src if c != CLS_CACHE]
    if m["mech"].startswith("sd"):
        return src, m["fresh_table"], rel, []
    dropped = []
    if m["mech"] == "deepcopy":   # DefaultPredictionStrategy.__deepcopy__ returns None: strategy and its memo are dropped
        dropped = [a for a, c, v in src if "prediction_strategy" in rec["names"][a]]
    return src, [], rel, dropped


def judge(out, rec, m, mod):
    """compare implementation record and model result of one mechanism; report failures"""
    fam, point, mech = rec["fam"], rec["point"], m["mech"] + ("-alt" if m["alt"] else "")
    names = rec["names"]
    case = dict(family=fam, point=point, mech=m["mech"], alt=m["alt"], seed=rec["seed"])
    carried = lambda rows: sorted((a, v) for a, c, v in rows if c in (CLS_PARAM, CLS_BUFFER))  # noqa: E731
    if m["exc"] is not None:
        out.fail("%s:exception:%s:%s" % (mech, m["exc"], fam),
                 "%s of a %s model at save point '%s' raised %s" % (m["mech"], fam, point, m["msg"]), case,
                 impl=m["msg"], model="the mechanism carries every attribute (copy_preserved=%s)" % mod["copy_preserved"])
        return "exception"
    diffs = m.get("diffs", [])
    classes = sorted({obs_class(k) for k, _ in diffs})
    if m.get("aliases"):
        out.fail("%s:aliases-source:%s" % (mech, fam),
                 "the restored %s model shares storage with the source: moving its parameters changed the source's %s"
                 % (fam, ", ".join(m["aliases"])), case, impl=m["aliases"], model="restored objects own their values")
    if m["mech"].startswith("sd"):
        impl_ok = m["strict"] == "ok"
        if impl_ok != mod["strict"]:
            out.fail("%s:strict-status:%s" % (mech, fam),
                     "strict load_state_dict: implementation %s, model %s" % (m["strict"], "ok" if mod["strict"] else "fails"),
                     case, impl=m.get("strict_msg", "ok"),
                     model=dict(missing=[names[a] for a in mod["missing"]], unexpected=[names[a] for a in mod["unexpected"]]))
            return "status-mismatch"
        if not impl_ok:
            keys = ["unexpected:" + names[a].split(".")[-1] for a in mod["unexpected"]] + \
                   ["missing:" + names[a].split(".")[-1] for a in mod["missing"]]
            out.fail("%s:strict-load:%s:%s" % (mech, ",".join(sorted(set(keys))), fam),
                     "state_dict of a %s model saved at '%s' cannot be loaded into a freshly constructed model of the same "
                     "architecture: %s" % (fam, point, m.get("strict_msg", "")[:200]), case, impl=m.get("strict_msg"),
                     model=dict(missing=[names[a] for a in mod["missing"]], unexpected=[names[a] for a in mod["unexpected"]],
                                behaviour_after_nonstrict_load=diffs[:6]))
            return "strict-fails"
        if carried(mod["loaded"]) != sorted(m["restored_sd"]):
            d = sorted(set(carried(mod["loaded"])) ^ set(m["restored_sd"]))
            out.fail("%s:table:%s" % (mech, fam), "state_dict of the restored object differs from the model's load(fresh, state_dict(source))",
                     case, impl=[(names[a], v) for a, v in d[:8]], model="see impl (symmetric difference)")
            return "table"
        bad_t = [a for a in mod["bad"] if a in set(rec["tensor_valued"])]
        if diffs and mod["bad"]:
            culprits = sorted({rec["owners"].get(a, names[a]) for a in (bad_t or mod["bad"])})
            out.fail("%s:not-carried:%s:%s" % (mech, "+".join(culprits)[:120], fam),
                     "state outside the state_dict: %s differ(s) between source and target and the restored model behaves "
                     "differently (%s)" % (", ".join(names[a] for a in (bad_t or mod["bad"]))[:300], ", ".join(classes)), case,
                     impl=diffs[:8], model=dict(premise_violated_by=[names[a] for a in mod["bad"]]))
            return "not-carried"
        if diffs:
            out.fail("%s:behaviour:%s:%s" % (mech, classes[0], fam),
                     "every relevant attribute is carried or re-created (model: predict preserved) but the restored model "
                     "differs in %s" % ", ".join(classes), case, impl=diffs[:8], model="preserved")
            return "behaviour"
        return "benign-premise-failure" if mod["bad"] else "ok"
    # pickle / deepcopy
    if carried(mod["copied"]) != sorted(m["restored_sd"]):
        d = sorted(set(carried(mod["copied"])) ^ set(m["restored_sd"]))
        out.fail("%s:table:%s" % (mech, fam), "parameters/buffers of the copy differ from the model's copy(dropped, source)", case,
                 impl=[(names.get(a, "?"), v) for a, v in d[:8]], model="see impl (symmetric difference)")
        return "table"
    if diffs:
        out.fail("%s:behaviour:%s:%s" % (mech, classes[0], fam),
                 "the %s of a %s model saved at '%s' differs from the source in %s" % (m["mech"], fam, point, ", ".join(classes)),
                 case, impl=diffs[:8], model="preserved (nothing relevant is dropped: lost=%s)" % [names[a] for a in mod["lost"]])
        return "behaviour"
    return "ok"


def plan(seed, tier):
    """(family, save point) pairs.  quick: every family at 'init' and 'eval' plus two further save
    points rotating with the seed; thorough: every family at every save point."""
    todo = []
    if tier != "quick":      # thorough: three independent data / perturbation seeds, every save point
        for sd in (seed + 101, seed + 202):
            todo += [(f.name, p, sd, tier) for f in families(sd, tier)
                     for p in SAVE_POINTS if (f.fantasy or not p.startswith("fantasy")) and not (f.kind == "var" and p == "fantasy-model")]
    for i, fam in enumerate(families(seed, tier)):
        pts = [p for p in SAVE_POINTS if fam.fantasy or not p.startswith("fantasy")]
        if fam.kind == "var":
            pts = [p for p in pts if p != "fantasy-model"]
        if tier == "quick":
            extra = [p for p in pts if p not in ("init", "eval")]
            rot = [extra[(i + seed + j) % len(extra)] for j in range(2)] if extra else []
            pts = [p for p in pts if p in ("init", "eval") or p in rot]
        todo += [(fam.name, p, seed, tier) for p in pts]
    return todo


def run_cases(todo, tag):
    import multiprocessing as mp
    nproc = max(1, min(8, C.NPROC))
    with mp.get_context("fork").Pool(nproc) as pool:
        recs = pool.map(do_case, todo, chunksize=1)
    terms, index = [], []
    for ri, rec in enumerate(recs):
        if "src_table" not in rec:
            continue
        for mi, m in enumerate(rec["mechs"]):
            if m["mech"].startswith("sd") and "fresh_table" not in m:
                continue
            terms.append(coq_term(*model_inputs(rec, m)))
            index.append((ri, mi))
    res = C.coq_run_cases(tag, IMPORTS, RUN_DEF, terms, shard=max(4, (len(terms) + 15) // 16))
    mods = {ix: decode(r) for ix, r in zip(index, res)}
    return recs, mods


def run(out, ctx):
    seed, tier = ctx["seed"], ctx["tier"]
    todo = plan(seed, tier)
    recs, mods = run_cases(todo, "C18")
    out.rule = ("every model family (exact GP x %d kernels incl. RFF lazy/eager, spectral mixture, KISS-GP, SGPR, priors and "
                "non-default constraints x Gaussian/FixedNoise likelihoods, Kronecker multitask, batch-independent, model lists, "
                "variational x strategies x distributions x likelihoods, LMC / independent multitask) x save points %s x "
                "mechanisms {state_dict->fresh(same ctor args), state_dict->fresh(other buffer-valued ctor args), state_dict->used "
                "object, pickle, deepcopy}; non-trivial = source hyper-parameters differ from the constructor defaults (always) "
                "and at least 10 observables compared" % (len(EXACT_KERNELS), SAVE_POINTS))
    out.exhaustive = False
    out.tested_not_proved = ["which attributes of each class are prediction-relevant (introspection + differential check)",
                             "that pickle/deepcopy of torch tensors and modules copy values exactly",
                             "unreachable save points (get_fantasy_model unsupported for the family) are skipped and counted"]
    verdicts = {}
    walls = []
    for ri, rec in enumerate(recs):
        if rec["status"] != "ok":
            out.count("skipped:" + rec["status"].split(":")[0])
            out.notes.append("%s @ %s: %s" % (rec["fam"], rec["point"], rec["status"]))
            if rec["status"].startswith("source-unobservable"):
                out.fail("harness:source-unobservable:%s" % rec["fam"], rec["status"], dict(family=rec["fam"], point=rec["point"]))
            continue
        walls.append(rec.get("wall", 0))
        for mi, m in enumerate(rec["mechs"]):
            mech = m["mech"] + ("-alt" if m["alt"] else "")
            desc = dict(family=rec["fam"], point=rec["point"], mech=mech, seed=seed)
            mod = mods.get((ri, mi))
            if mod is None:
                if m["exc"] is not None:
                    mod = dict(copy_preserved=True)
                else:
                    continue
            v = judge(out, rec, m, mod)
            verdicts[v] = verdicts.get(v, 0) + 1
            out.case(desc, rec.get("nobs", 0) >= 10, label="%s@%s" % (mech, rec["point"]))
            out.count("family-kind:" + rec["fam"].split(":")[0])
            out.count("bit-equal-observables", m.get("exact", 0))
            out.count("observables", rec.get("nobs", 0))
    out.extra["verdicts"] = verdicts
    out.extra["tolerances"] = dict(atol_rel=ATOL, fantasy_model_as_source=ATOL_FANT)
    out.extra["impl_wall_per_case_max_s"] = max(walls) if walls else None
    out.extra["families"] = len({r["fam"] for r in recs})
    if out.evaluations < 100:
        out.fail("harness:too-few-cases", "only %d cases could be compared" % out.evaluations, None, no_input=True)


def replay(path):
    d = json.load(open(path))
    case = d["case"]
    todo = [(case["family"], case["point"], case["seed"], d.get("tier", "quick"))]
    recs, mods = run_cases(todo, "C18_replay")
    out = C.Outcome("C18", "quick", case["seed"])
    rec = recs[0]
    print("status:", rec["status"])
    for mi, m in enumerate(rec.get("mechs", [])):
        if m["mech"] != case["mech"] or m["alt"] != case["alt"]:
            continue
        mod = mods.get((0, mi), dict(copy_preserved=True))
        print("implementation:", json.dumps({k: v for k, v in m.items() if k not in ("fresh_table", "restored_table", "restored_sd")},
                                            indent=1, default=str)[:3000])
        print("model:", json.dumps({k: v for k, v in mod.items() if k not in ("loaded", "copied")}, default=str)[:1500])
        print("verdict:", judge(out, rec, m, mod))
    for f in out.failures:
        print("FAILS:", f["key"], "-", f["what"][:400])
    print("FAILS" if out.failures else "agrees")
    return 1 if out.failures else 0
