"""C08 — batch mode = independent replicas (no cross-talk between batch elements).
Tie C, property-level differential: for every broadcastable pair (parameter batch shape sp, data
batch shape sd) of rank 0..2 with sizes in {1,2,3} the Coq shape model (Models/C08_shape.v:
broadcast_shapes, all_indices, bproj) lists, for each element b of the broadcast batch, the
parameter slice and the data slice that b must be computed from.  Those indices are cross-checked
against torch.broadcast_shapes / Tensor.expand, and every batch-capable module is compared, element
by element, with a NON-batched replica rebuilt from exactly those slices."""
import copy
import itertools
import json
import math
import random
import warnings

import torch

import gpytorch
from gpytorch import settings as gs
from harness.lib import common as C

COQ_TARGETS = ["Models/C08_shape.vo", "Models/C08_diag.vo", "Models/C08_prior.vo", "Models/C08_call.vo"]
LEVEL_NOTE = ("theorems are about the Gallina shape/broadcast model (which slice each batch element reads); the tie to "
              "/repo is differential: every module's batched output element b vs a non-batched replica built from the "
              "slices the Coq model names (float64, 1e-9)")
IMPORTS = "From Coq Require Import List ZArith.\nFrom GPV Require Import Models.C08_shape Models.C08_diag Models.C08_prior."
RUN_DEF = "Definition run := run_shapes_cls2."
N3 = 3            # number of points of the diag_n3 outputs (coincides with a batch size on purpose)
TOL = 1e-9

torch.set_default_dtype(torch.float64)
warnings.filterwarnings("ignore")

N, M, D, T, NI = 4, 2, 2, 2, 5     # train points, test points, input dim, tasks, inducing points (N, NI, M*? chosen
# outside the batch sizes {1,2,3} except where a coincidence is tested on purpose: output diag_n3)


def all_shapes(sizes=(1, 2, 3)):
    out = [()]
    out += [(a,) for a in sizes]
    out += [(a, b) for a in sizes for b in sizes]
    return out


# ------------------------------------------------------------------ Coq side

def coq_triples(pairs, tag="C08"):
    terms = ["(%d%%nat, (%s, %s))" % (N3, C.nat_list(sp), C.nat_list(sd)) for sp, sd in pairs]
    res = C.coq_run_cases(tag, IMPORTS, RUN_DEF, terms, shard=max(1, (len(terms) + 7) // 8))
    out = []
    for (sp, sd), r in zip(pairs, res):
        rd = C.Reader(r)
        if rd.int() == 0:
            out.append(None)
            continue
        rank = rd.int()
        t = tuple(rd.int() for _ in range(rank))
        numel = rd.int()
        trip = []
        for _ in range(numel):
            b = tuple(rd.int() for _ in range(rank))
            p = tuple(rd.int() for _ in range(len(sp))); pr = rd.int(); po = rd.int()
            d = tuple(rd.int() for _ in range(len(sd))); dr = rd.int(); do = rd.int()
            trip.append(dict(b=b, p=p, p_ravel=pr, p_off=po, d=d, d_ravel=dr, d_off=do))
        # input-class bits of the two recorded findings, decided by the Coq model (Models/C08_diag.v)
        cls = dict(diag_collision=bool(rd.int()), expands=bool(rd.int()))
        # Models/C08_prior.v: parameters have a lower batch rank than the objective; rank of the reduced prior term of an
        # owner without batch_shape for a value with one event dim (e.g. the noise)
        cls.update(param_rank_short=bool(rd.int()), unknown_owner_kept_rank=rd.int())
        assert rd.done()
        out.append(dict(t=t, triples=trip, **cls))
    return out


def check_against_torch(out, sp, sd, m):
    """the Coq model's broadcast shape and slice indices vs torch.broadcast_shapes / expand"""
    case = dict(sp=list(sp), sd=list(sd))
    try:
        tt = tuple(torch.broadcast_shapes(torch.Size(sp), torch.Size(sd)))
    except RuntimeError:
        tt = None
    if (m is None) != (tt is None) or (m is not None and m["t"] != tt):
        out.fail("shape-model:broadcast_shapes", "Coq broadcast_shapes disagrees with torch.broadcast_shapes", case,
                 impl=tt, model=None if m is None else m["t"])
        return False
    if m is None:
        return True
    base_p = torch.arange(int(torch.Size(sp).numel())).view(sp)
    base_d = torch.arange(int(torch.Size(sd).numel())).view(sd)
    ip, idd = base_p.expand(tt), base_d.expand(tt)
    order = list(itertools.product(*[range(k) for k in tt]))
    ok = [tr["b"] for tr in m["triples"]] == order
    for tr in m["triples"]:
        # the element of the expanded operand at b is the element of the unexpanded operand at bproj(b)
        ok = ok and int(ip[tr["b"]]) == int(base_p[tr["p"]]) == tr["p_ravel"] == tr["p_off"]
        ok = ok and int(idd[tr["b"]]) == int(base_d[tr["d"]]) == tr["d_ravel"] == tr["d_off"]
    if not ok:
        out.fail("shape-model:bproj-vs-expand", "Coq bproj / all_indices disagree with Tensor.expand", case, model=m)
    # Models/C08_diag.v: expands_to vs Tensor.expand; takes_diagonal on the correct diagonal shape vs the literal test
    try:
        torch.empty(sp).expand(torch.Size(sd))
        texp = True
    except RuntimeError:
        texp = False
    res_shape, x_shape = tt + (N3,), tuple(sd) + (N3, D)
    literal = len(res_shape) == len(x_shape) and res_shape[-2:] == (N3, N3)
    if m["expands"] != texp or m["diag_collision"] != literal or literal != diag_collision(sp, sd, tt, N3):
        out.fail("shape-model:input-class-bits", "Coq expands_to / takes_diagonal disagree with torch / the literal test", case,
                 impl=dict(expands=texp, diag_collision=literal), model=dict(expands=m["expands"], diag_collision=m["diag_collision"]))
        ok = False
    # Models/C08_prior.v against the literal code of ExactMarginalLogLikelihood._add_other_terms
    if m["param_rank_short"] != (len(sp) < len(tt)) or m["unknown_owner_kept_rank"] != min(len(tt), len(sp) + 1):
        out.fail("shape-model:prior-term-bits", "Coq param_rank_short / prior_reduced_shape disagree with the literal rule", case,
                 impl=dict(short=len(sp) < len(tt), kept=min(len(tt), len(sp) + 1)),
                 model=dict(short=m["param_rank_short"], kept=m["unknown_owner_kept_rank"]))
        ok = False
    return ok


# ------------------------------------------------------------------ module families

def rand(rng, *shape, lo=-1.0, hi=1.0):
    n = int(torch.Size(shape).numel())
    return torch.tensor([rng.uniform(lo, hi) for _ in range(n)]).view(torch.Size(shape))


def points(rng, sd, n):
    """separated 2-D inputs, batch shape sd"""
    B = int(torch.Size(sd).numel())
    rows = []
    for _ in range(B):
        while True:
            p = [[rng.randint(-16, 16) / 8.0 for _ in range(D)] for _ in range(n)]
            if all(max(abs(a - b) for a, b in zip(u, v)) >= 0.25 for u, v in itertools.combinations(p, 2)):
                break
        rows.append(p)
    return torch.tensor(rows).view(*sd, n, D)


def fill_params(mod, rng):
    for name, p in mod.named_parameters():
        if name.endswith("chol_variational_covar"):
            m = p.shape[-1]
            L = torch.tril(rand(rng, *p.shape, lo=-0.3, hi=0.3), -1) + torch.eye(m) * rand(rng, *p.shape[:-2], 1, 1, lo=0.5, hi=1.2)
            p.data.copy_(L)
        elif name.endswith("inducing_points"):
            p.data.copy_(points(rng, tuple(p.shape[:-2]), p.shape[-2]))
        else:
            p.data.copy_(rand(rng, *p.shape))


def copy_slice(batched, replica, pidx):
    pb, pr = list(batched.named_parameters()), list(replica.named_parameters())
    assert [n for n, _ in pb] == [n for n, _ in pr], "replica has different parameters"
    for (name, b), (_, r) in zip(pb, pr):
        src = b.data[pidx]
        assert src.shape == r.shape, "parameter %s: slice %s vs replica %s" % (name, tuple(src.shape), tuple(r.shape))
        r.data.copy_(src)


K = gpytorch.kernels
KERNELS = {
    "rbf_ard": lambda bs: K.RBFKernel(ard_num_dims=D, batch_shape=bs),
    "matern15": lambda bs: K.MaternKernel(nu=1.5, batch_shape=bs),
    "matern25_ard": lambda bs: K.MaternKernel(nu=2.5, ard_num_dims=D, batch_shape=bs),
    "rq": lambda bs: K.RQKernel(batch_shape=bs),
    "periodic": lambda bs: K.PeriodicKernel(batch_shape=bs),
    "linear": lambda bs: K.LinearKernel(batch_shape=bs),
    "poly2": lambda bs: K.PolynomialKernel(power=2, batch_shape=bs),
    "scale_rbf": lambda bs: K.ScaleKernel(K.RBFKernel(batch_shape=bs), batch_shape=bs),
    "scale_matern": lambda bs: K.ScaleKernel(K.MaternKernel(nu=0.5, batch_shape=bs), batch_shape=bs),
    "rbf+linear": lambda bs: K.RBFKernel(batch_shape=bs) + K.LinearKernel(batch_shape=bs),
    "rbf*matern": lambda bs: K.RBFKernel(batch_shape=bs) * K.MaternKernel(nu=1.5, batch_shape=bs),
    "scale(rbf+rq)": lambda bs: K.ScaleKernel(K.RBFKernel(batch_shape=bs) + K.RQKernel(batch_shape=bs), batch_shape=bs),
    "cosine": lambda bs: K.CosineKernel(batch_shape=bs),
    "piecewise_q1": lambda bs: K.PiecewisePolynomialKernel(q=1, batch_shape=bs),
    "rq_ard": lambda bs: K.RQKernel(ard_num_dims=D, batch_shape=bs),
    "constant": lambda bs: K.ConstantKernel(batch_shape=bs),
    "arc": lambda bs: K.ArcKernel(K.MaternKernel(nu=2.5, batch_shape=bs), batch_shape=bs),
    "scale(rbf*linear)": lambda bs: K.ScaleKernel(K.RBFKernel(batch_shape=bs) * K.LinearKernel(batch_shape=bs), batch_shape=bs),
}


def each_output(**thunks):
    """evaluate every observable separately: an exception belongs to the public call that raised it"""
    res = {}
    for name, th in thunks.items():
        try:
            res[name] = th()
        except Exception as e:
            res[name] = e
    return res


def via_index(obj, dense_of, how):
    """a batched object (lazy kernel tensor, MultivariateNormal) reassembled from pieces obtained through the LIBRARY'S OWN
    __getitem__ on a batch index: how = first: obj[i] (a PARTIAL index when the batch rank is 2); second: obj[:, j] (rank 2
    only); slice: obj[i:i+1].  The reassembled tensor has the batch shape of obj, so that
    element b of it is element b of the batched object as the library itself hands it out.  Non-batched objects (the
    replicas) are evaluated directly."""
    bs = tuple(obj.batch_shape)
    if not bs:
        return dense_of(obj)
    if how == "first":
        return torch.stack([dense_of(obj[i]) for i in range(bs[0])], 0)
    if how == "slice":
        return torch.cat([dense_of(obj[i:i + 1]) for i in range(bs[0])], 0)
    if how == "second":
        if len(bs) == 1:        # same index expression as `first`
            return dense_of(obj)
        return torch.stack([dense_of(obj[:, j]) for j in range(bs[1])], 1)
    raise ValueError(how)


VIA = ("first", "second", "slice")
# kernels whose lazy tensor is also read through the library's batch indexing: the generic Kernel.__getitem__ (one / two
# parameters, ARD), ScaleKernel (own parameter + sub-kernel), the AdditiveKernel / ProductKernel overrides, a nested composite
VIA_KERNELS = ("rbf_ard", "scale_rbf", "rbf+linear", "rbf*matern", "scale(rbf+rq)")


def stretched_class(name, sp, m):
    """input class of the recorded finding C06-batch-index-stretched-kernel as it shows in this check: a batch index applied
    by the library to a lazy kernel tensor / MultivariateNormal whose KERNEL batch shape is not the broadcast batch shape t
    (t from the Coq model)"""
    return "+batch-index-on-stretched-kernel" if "_idx_" in name and tuple(sp) != tuple(m["t"]) else ""


def diag_collision(sp, sd, t, n):
    """input class of the recorded finding C08-kernel-diag-batch-rank-heuristic: the kernel's batch shape has exactly
    one dimension more than the inputs' and the last dimension of the broadcast batch equals the number of points n,
    so that the correct `*t x n` result of kernel(x, diag=True) has as many dimensions as x and ends in (n, n)"""
    return len(sp) == len(sd) + 1 and len(t) >= 1 and t[-1] == n


class Family:
    name = ""
    tol = TOL

    def input_class(self, name, sp, sd, m):
        """suffix appended to the failure key of output `name`: names a narrower input class where one is known to matter
        (never used to skip or loosen a comparison)"""
        return ""

    def make(self, bs):          # module(s) with batch shape bs, returned as one torch.nn.Module
        raise NotImplementedError

    def data(self, rng, sd):     # dict of tensors with leading batch shape sd
        raise NotImplementedError

    def run(self, mod, data):    # dict name -> tensor; leading dims = broadcast batch shape
        raise NotImplementedError

    def pslice(self, extra, pidx):   # non-parameter per-batch state of the module (e.g. fixed noise)
        return None


class KernelFam(Family):
    def __init__(self, kname):
        self.name = "kernel:" + kname
        self.kname = kname

    def make(self, bs):
        return KERNELS[self.kname](torch.Size(bs))

    def data(self, rng, sd):
        return dict(x=points(rng, sd, N), x2=points(rng, sd, M))

    def run(self, mod, data):
        with torch.no_grad():
            x3 = data["x"][..., :N3, :]     # 3 points: coincides with a batch size of 3 (Kernel.__call__ diag heuristic)
            return each_output(K=lambda: mod(data["x"]).to_dense(), Kx=lambda: mod(data["x"], data["x2"]).to_dense(),
                               diag=lambda: mod(data["x"], diag=True),
                               lazy_diag=lambda: mod(data["x"]).diagonal(dim1=-1, dim2=-2),
                               diag_n3=lambda: mod(x3, diag=True),
                               lazy_diag_n3=lambda: mod(x3).diagonal(dim1=-1, dim2=-2),
                               # element b handed out by the library's own indexing of the lazy kernel tensor
                               **({"K_idx_" + how: (lambda how=how: via_index(mod(data["x"]), lambda o: o.to_dense(), how)) for how in VIA}
                                  if self.kname in VIA_KERNELS else {}),
                               **({"Kx_idx_first": lambda: via_index(mod(data["x"], data["x2"]), lambda o: o.to_dense(), "first")}
                                  if self.kname in VIA_KERNELS else {}))

    def input_class(self, name, sp, sd, m):
        # classes of the recorded findings (decided by the Coq model): the kernel's batch shape does not expand to the
        # inputs' batch shape (C08-constant-kernel-param-batch); diag heuristic collision (C08-kernel-diag-batch-rank-heuristic)
        cls = "" if m["expands"] else "+param-batch-exceeds-data-batch"
        if name in ("diag_n3", "lazy_diag_n3") and m["diag_collision"]:
            cls += "+diag-batchdim-eq-n"
        return cls + stretched_class(name, sp, m)


class MeanFam(Family):
    def __init__(self, kind):
        self.name = "mean:" + kind
        self.kind = kind

    def make(self, bs):
        if self.kind == "constant":
            return gpytorch.means.ConstantMean(batch_shape=torch.Size(bs))
        return gpytorch.means.LinearMean(D, batch_shape=torch.Size(bs))

    def data(self, rng, sd):
        return dict(x=points(rng, sd, N))

    def run(self, mod, data):
        with torch.no_grad():
            return dict(m=mod(data["x"]))


def rand_mvn_parts(rng, sd, n):
    L = torch.tril(rand(rng, *sd, n, n, lo=-0.5, hi=0.5), -1) + torch.eye(n)
    return rand(rng, *sd, n), L @ L.transpose(-1, -2)


class GaussLikFam(Family):
    name = "likelihood:gaussian"

    def make(self, bs):
        return gpytorch.likelihoods.GaussianLikelihood(batch_shape=torch.Size(bs))

    def data(self, rng, sd):
        m, V = rand_mvn_parts(rng, sd, N)
        return dict(m=m, V=V, y=rand(rng, *sd, N))

    def run(self, mod, data):
        with torch.no_grad():
            f = gpytorch.distributions.MultivariateNormal(data["m"], data["V"])
            return each_output(marg_mean=lambda: mod(f).mean, marg_cov=lambda: mod(f).covariance_matrix,
                               elp=lambda: mod.expected_log_prob(data["y"], f), lmarg=lambda: mod.log_marginal(data["y"], f))


class FixedNoiseLikFam(GaussLikFam):
    """the fixed noise vector is the (per batch element) parameter"""
    name = "likelihood:fixednoise"

    class Mod(torch.nn.Module):
        def __init__(self, bs):
            super().__init__()
            self.noise = torch.nn.Parameter(torch.zeros(*bs, N))

    def make(self, bs):
        return self.Mod(bs)

    def run(self, mod, data):
        lik = gpytorch.likelihoods.FixedNoiseGaussianLikelihood(0.05 + mod.noise.data.abs())
        with torch.no_grad():
            f = gpytorch.distributions.MultivariateNormal(data["m"], data["V"])
            return each_output(marg_mean=lambda: lik(f).mean, marg_cov=lambda: lik(f).covariance_matrix,
                               elp=lambda: lik.expected_log_prob(data["y"], f), lmarg=lambda: lik.log_marginal(data["y"], f))


class MultitaskLikFam(Family):
    name = "likelihood:multitask"
    ev = dict(marg_mean=2)

    def make(self, bs):
        return gpytorch.likelihoods.MultitaskGaussianLikelihood(num_tasks=T, rank=0, batch_shape=torch.Size(bs))

    def data(self, rng, sd):
        m, V = rand_mvn_parts(rng, sd, N * T)
        return dict(m=m.view(*sd, N, T), V=V, y=rand(rng, *sd, N, T))

    def run(self, mod, data):
        with torch.no_grad():
            f = gpytorch.distributions.MultitaskMultivariateNormal(data["m"], data["V"])
            return each_output(marg_mean=lambda: mod(f).mean, marg_cov=lambda: mod(f).covariance_matrix,
                               elp=lambda: mod.expected_log_prob(data["y"], f), lmarg=lambda: mod.log_marginal(data["y"], f))

    def input_class(self, name, sp, sd, m):
        # class of the recorded finding C08-multitask-likelihood-param-batch: the likelihood's batch shape does not
        # expand to the data's batch shape (Coq: expands_to sp sd = false <-> broadcast batch <> data batch)
        return "+param-batch-exceeds-data-batch" if not m["expands"] else ""


class ExactGPFam(Family):
    """hyperparameters (mean, kernel, noise) carry the parameter batch shape; train/test data the data batch shape"""

    class Holder(torch.nn.Module):
        def __init__(self, bs, kname):
            super().__init__()
            self.mean_module = gpytorch.means.ConstantMean(batch_shape=torch.Size(bs))
            self.covar_module = KERNELS[kname](torch.Size(bs))
            self.likelihood = gpytorch.likelihoods.GaussianLikelihood(batch_shape=torch.Size(bs))

    class GP(gpytorch.models.ExactGP):
        def __init__(self, x, y, h):
            super().__init__(x, y, h.likelihood)
            self.mean_module, self.covar_module = h.mean_module, h.covar_module

        def forward(self, x):
            return gpytorch.distributions.MultivariateNormal(self.mean_module(x), self.covar_module(x))

    def __init__(self, kname, mode="both", via=False):
        """mode: which of (train data, test inputs) carry the data batch shape: both | train-only | test-only;
        via: also read the prior / posterior through MultivariateNormal.__getitem__ on a (partial) batch index"""
        self.kname, self.mode, self.via = kname, mode, via
        self.name = "exactgp:%s%s" % (kname, {"both": "", "train-only": ":unbatched-test-x", "test-only": ":unbatched-train-data"}[mode])

    def make(self, bs):
        return self.Holder(bs, self.kname)

    SHARED = ("xs_shared", "x_shared", "y_shared")

    def data(self, rng, sd):
        if self.mode == "test-only":
            return dict(x_shared=points(rng, (), N), y_shared=rand(rng, N), xs=points(rng, sd, M))
        d = dict(x=points(rng, sd, N), y=rand(rng, *sd, N), xs=points(rng, sd, M))
        if self.mode == "train-only":
            d["xs_shared"] = points(rng, (), M)
        return d

    def run(self, mod, data):
        x, y = (data["x_shared"], data["y_shared"]) if self.mode == "test-only" else (data["x"], data["y"])
        model = self.GP(x, y, mod)
        res = {}
        model.train(); mod.likelihood.train()
        with torch.no_grad():
            mll = gpytorch.mlls.ExactMarginalLogLikelihood(mod.likelihood, model)
            res["mll"] = mll(model(x), y)
            prior = model(x)
            res["prior_mean"], res["prior_cov"] = prior.mean, prior.covariance_matrix
            # the prior / posterior handed out element-wise by MultivariateNormal.__getitem__ on a (partial) batch index
            if self.via:
                res.update(each_output(**{"prior_idx_%s_%s" % (how, part): (lambda how=how, f=f: via_index(model(x), f, how))
                                          for how in ("first", "second") for part, f in (("mean", lambda o: o.mean), ("cov", lambda o: o.covariance_matrix))}))
        model.eval(); mod.likelihood.eval()
        with torch.no_grad():
            xs = data["xs_shared"] if self.mode == "train-only" else data["xs"]
            post = model(xs)
            res["post_mean"], res["post_cov"] = post.mean, post.covariance_matrix
            pred = mod.likelihood(post)
            res["pred_cov"] = pred.covariance_matrix
            if self.via:
                res.update(each_output(post_idx_first_mean=lambda: via_index(model(xs), lambda o: o.mean, "first"),
                                       post_idx_first_cov=lambda: via_index(model(xs), lambda o: o.covariance_matrix, "first")))
        return res

    def dslice(self, data, didx):
        return {k: (v if k in self.SHARED else v[didx]) for k, v in data.items()}

    def input_class(self, name, sp, sd, m):
        return stretched_class(name, sp, m)


class VariationalFam(Family):
    class Model(gpytorch.models.ApproximateGP):
        def __init__(self, bs, whitened):
            bs = torch.Size(bs)
            vd = gpytorch.variational.CholeskyVariationalDistribution(NI, batch_shape=bs)
            cls = gpytorch.variational.VariationalStrategy if whitened else gpytorch.variational.UnwhitenedVariationalStrategy
            vs = cls(self, torch.zeros(*bs, NI, D), vd, learn_inducing_locations=True)
            super().__init__(vs)
            self.mean_module = gpytorch.means.ConstantMean(batch_shape=bs)
            self.covar_module = K.ScaleKernel(K.RBFKernel(batch_shape=bs), batch_shape=bs)
            self.likelihood = gpytorch.likelihoods.GaussianLikelihood(batch_shape=bs)

        def forward(self, x):
            return gpytorch.distributions.MultivariateNormal(self.mean_module(x), self.covar_module(x))

    def __init__(self, whitened=True):
        self.whitened = whitened
        self.name = "variational:" + ("whitened" if whitened else "unwhitened")

    def make(self, bs):
        return self.Model(bs, self.whitened)

    def data(self, rng, sd):
        return dict(x=points(rng, sd, N), y=rand(rng, *sd, N))

    def run(self, mod, data):
        res = {}
        mod.train(); mod.likelihood.train()
        with torch.no_grad():
            # the variational parameters were set by hand: mark them initialised
            mod.variational_strategy.variational_params_initialized.fill_(1)
            out = mod(data["x"])
            res["train_mean"], res["train_cov"] = out.mean, out.covariance_matrix
            res["kl"] = mod.variational_strategy.kl_divergence()
            elbo = gpytorch.mlls.VariationalELBO(mod.likelihood, mod, num_data=N)
            res["elbo"] = elbo(out, data["y"])
        mod.eval(); mod.likelihood.eval()
        with torch.no_grad():
            q = mod(data["x"])
            res["pred_mean"], res["pred_cov"] = q.mean, q.covariance_matrix
        return res



NAN = float("nan")


class ExactGPNanFam(ExactGPFam):
    """batched exact GP whose training targets carry NaNs at DIFFERENT positions in every batch element, run under a
    non-default settings.observation_nan_policy (and fast_pred_var on / off).  Element b of the batched posterior /
    predictive must be the non-batched replica run under the same settings on
      'fill': element b's own targets (its own NaN pattern; some elements have no NaN at all),
      'mask': element b's targets with the UNION of the batch elements' NaN positions removed (the batch reading that
              settings.observation_nan_policy documents: "If an output is NaN in a single batch element, this output is
              masked for the complete batch"; coq/Props/C16.v c16_batch_mask_mean_is_deletion).
    Under 'mask' also the exact MLL (train mode)."""

    def __init__(self, kname, policy, fpv):
        self.kname, self.mode, self.via, self.policy, self.fpv = kname, "both", False, policy, fpv
        self.name = "exactgp-nan:%s:%s%s" % (kname, policy, "+fast_pred_var" if fpv else "")

    def data(self, rng, sd):
        d = dict(x=points(rng, sd, N), xs=points(rng, sd, M))
        B = int(torch.Size(sd).numel())
        y = rand(rng, B, N)
        if self.policy == "mask":
            # the union of the patterns must leave observations: patterns are subsets of a set U of at most N - 2 positions
            U = rng.sample(range(N), rng.randint(1, N - 2))
            pats = [[i for i in U if rng.random() < 0.6] for _ in range(B)]
        else:
            pats = [rng.sample(range(N), rng.choice([0, 1, 1, 2])) for _ in range(B)]
        if B > 1 and all(sorted(p) == sorted(pats[0]) for p in pats):         # different patterns in different elements
            pats[0] = [] if pats[1] else [U[0] if self.policy == "mask" else rng.randrange(N)]
        union = sorted(set(i for p in pats for i in p))
        y_rep = y.clone()
        for b, p in enumerate(pats):
            y[b, p] = NAN
            y_rep[b, union if self.policy == "mask" else p] = NAN
        d["y"], d["y_rep"] = y.view(*sd, N), y_rep.view(*sd, N)
        return d

    def dslice(self, data, didx):
        # the replica of element b is given what the policy documents element b to be conditioned on
        return dict(x=data["x"][didx], xs=data["xs"][didx], y=data["y_rep"][didx], y_rep=data["y_rep"][didx])

    def run(self, mod, data):
        x, y, xs = data["x"], data["y"], data["xs"]
        model = self.GP(x, y, mod)
        res = {}
        with torch.no_grad(), gs.observation_nan_policy(self.policy), gs.fast_pred_var(self.fpv):
            if self.policy == "mask":
                model.train(); mod.likelihood.train()
                res.update(each_output(mll=lambda: gpytorch.mlls.ExactMarginalLogLikelihood(mod.likelihood, model)(model(x), y)))
            model.eval(); mod.likelihood.eval()
            try:
                post = model(xs)
                res["post_mean"], res["post_cov"] = post.mean, post.covariance_matrix
                res["pred_cov"] = mod.likelihood(post).covariance_matrix
                # a second call on the same model object: served from the caches of the prediction strategy
                again = model(xs)
                res["post_mean_again"], res["post_cov_again"] = again.mean, again.covariance_matrix
            except Exception as e:
                res["post_mean"] = e
        return res

    def input_class(self, name, sp, sd, m):
        # class of the recorded finding C08-nan-policy-param-batch-exceeds-target-batch: the hyperparameters' batch shape
        # does not expand to the targets' batch shape (Coq: expands_to sp sd = false)
        return "" if m["expands"] else "+param-batch-exceeds-data-batch"


# ---- geometry axis: batch elements that live far apart from each other
FAR_N1, FAR_N2 = 30, 28       # more than 25 points on both sides: torch.cdist switches to the matrix-multiplication formula
FAR_OFFSETS = (1.0e6, 1.0e7, 1.0e8)
EPS64 = 2.0 ** -52
# stationary kernels whose implementation centres the inputs per data set (RBF / RQ through kernels.kernel.sq_dist,
# Matern explicitly: "subtract the mean for numerical stability") or works on exact coordinate differences (Periodic),
# and composites of them: for these a non-batched evaluation is accurate wherever the data set lives
FAR_KERNELS = ("rbf_ard", "matern15", "matern25_ard", "rq", "rq_ard", "periodic", "scale_rbf", "scale_matern", "rbf*matern",
               "scale(rbf+rq)")


def points_joint(rng, sd, ns):
    """for every batch element one draw of sum(ns) points of the grid Z/8 in [-2, 2]^D, pairwise separated by >= 0.25 in
    the max norm (sequential rejection), split into len(ns) sets"""
    B, tot = int(torch.Size(sd).numel()), sum(ns)
    rows = []
    for _ in range(B):
        p = []
        while len(p) < tot:
            c = [rng.randint(-16, 16) / 8.0 for _ in range(D)]
            if all(max(abs(a - b) for a, b in zip(c, q)) >= 0.25 for q in p):
                p.append(c)
        rows.append(p)
    t = torch.tensor(rows)
    outs, k = [], 0
    for n in ns:
        outs.append(t[:, k:k + n].reshape(*sd, n, D))
        k += n
    return outs


def far_rounding_bound(kern, x, x2):
    """bound on the float64 error of one entry of kern(x, x2) for ONE data set when the computation is centred on that
    data set's own mean (as in harness/drivers/C07.py entry_rounding): the squared scaled distance is evaluated as
    |a|^2 + |b|^2 - 2 a.b on inputs centred on mean(x) and divided by the lengthscale,
        eps_sq = (d + 2) * eps64 * 2 * max |x_i - mean|^2 / lengthscale^2;
    kernels of r^2 (|dk/dr^2| <= 1): eps_sq; kernels of r = sqrt(r^2) (Matern; Lipschitz constant <= 1 in r):
    eps_sq / (2 r_min), r_min the smallest scaled distance (sqrt(eps_sq) if r_min is below that); exact-difference
    kernels (Periodic): 64 * eps64 * (1 + pi max|diff| / period) / lengthscale.  Summed over the sub-kernels.  For the
    kernels that centre before they scale (Matern) and for Periodic the bound does not depend on where the data set
    lives; RBF / RQ scale first and pay eps64 * |x| / lengthscale per coordinate."""
    pts = torch.cat([x, x2], -2)
    xc = pts - x.mean(-2, keepdim=True)
    d = pts.shape[-1]
    total = 0.0
    amax = pts.abs().max().item()
    for m in kern.modules():
        if isinstance(m, K.PeriodicKernel):
            diff = (pts.unsqueeze(-2) - pts.unsqueeze(-3)).abs().max().item()
            total += 64 * EPS64 * (1.0 + math.pi * diff / m.period_length.min().item()) / m.lengthscale.min().item()
            continue
        if not isinstance(m, K.Kernel) or not getattr(m, "has_lengthscale", False) or m.lengthscale is None:
            continue
        ell = m.lengthscale.min().item()
        eps_sq = (d + 2) * EPS64 * 2.0 * (xc / ell).pow(2).sum(-1).max().item()
        if isinstance(m, K.MaternKernel):
            r = torch.cdist(xc / m.lengthscale.max().item(), xc / m.lengthscale.max().item())
            r_min = (r + torch.eye(r.shape[-1]) * 1e300).min().item()
            total += math.sqrt(eps_sq) if r_min <= math.sqrt(eps_sq) else eps_sq / (2.0 * r_min)
        else:
            # RBF / RQ divide the UNCENTRED coordinates by the lengthscale before kernels.kernel.sq_dist centres them: every
            # scaled coordinate carries the rounding error eps64 * |x| / lengthscale of that division, the scaled distance
            # 2 sqrt(d) times that; both kernels have Lipschitz constant < 1 in r
            total += eps_sq + 2.0 * math.sqrt(d) * EPS64 * amax / ell
    return total


class FarKernelFam(KernelFam):
    """kernel matrices on batched data whose batch elements live far apart: element b of the data batch is shifted by
    (ravel index of b) * offset, offset in 1e6 .. 1e8 (un-normalised inputs, time stamps), with more than 25 points on both
    sides of the cross-covariance.  Element b must still be the non-batched replica on element b's data; the tolerance is
    max(TOL, 8 * honest rounding bound of the replica's own (per data set centred) computation)."""

    def __init__(self, kname):
        KernelFam.__init__(self, kname)
        self.name = "kernel-far:" + kname

    def data(self, rng, sd):
        x, x2 = points_joint(rng, sd, (FAR_N1, FAR_N2))
        off = rng.choice(FAR_OFFSETS)
        B = int(torch.Size(sd).numel())
        shift = (torch.arange(B, dtype=x.dtype) * off).view(*sd, 1, 1)
        return dict(x=x + shift, x2=x2 + shift)      # the grid coordinates stay exactly representable

    def run(self, mod, data):
        with torch.no_grad():
            return each_output(K=lambda: mod(data["x"]).to_dense(), Kx=lambda: mod(data["x"], data["x2"]).to_dense(),
                               Kx_T=lambda: mod(data["x2"], data["x"]).to_dense().transpose(-1, -2),
                               diag=lambda: mod(data["x"], diag=True))

    def case_tol(self, mod, data):
        """mod: the batched kernel; the bound of the worst element (smallest lengthscales of the whole batch)"""
        x, x2 = data["x"].reshape(-1, FAR_N1, D), data["x2"].reshape(-1, FAR_N2, D)
        with torch.no_grad():
            b = max(far_rounding_bound(mod, x[i], x2[i]) for i in range(x.shape[0]))
        FAR_BOUNDS.append(b)
        return max(TOL, 8.0 * b)


FAR_BOUNDS = []


P = gpytorch.priors


class ExactGPPriorFam(ExactGPFam):
    """batched exact GP with priors registered on ONE kind of module (site) - or on all of them: the log-prior of
    element b's parameter slice, and nothing else, must enter element b of the MLL / leave-one-out pseudo likelihood.
    Sites: kernel (lengthscale + outputscale priors), constmean (ConstantMean prior), linmean (LinearMean weights and
    bias), noise (noise model of the likelihood), lik-closure (user prior with a closure, registered on the likelihood
    itself), model-closure / model-closure-ls (user prior registered on the ExactGP model: on outputscale = no
    trailing dims / on the lengthscale = trailing dims), all."""
    SITES = ("kernel", "constmean", "linmean", "noise", "lik-closure", "model-closure", "model-closure-ls", "all")
    # the module the prior is registered on has no `batch_shape` attribute (upstream GPyTorch)
    OWNER_WITHOUT_BATCH_SHAPE = ("linmean", "lik-closure", "model-closure", "model-closure-ls", "all")

    class Holder(torch.nn.Module):
        def __init__(self, bs, site):
            super().__init__()
            bs = torch.Size(bs)
            on = lambda *names: site in names or site == "all"   # noqa: E731
            if on("linmean"):
                self.mean_module = gpytorch.means.LinearMean(D, batch_shape=bs)
                self.mean_module.register_prior("weights_prior", P.NormalPrior(0.0, 1.5), "weights")
                self.mean_module.register_prior("bias_prior", P.NormalPrior(0.2, 0.8), "bias")
            else:
                self.mean_module = gpytorch.means.ConstantMean(
                    batch_shape=bs, constant_prior=P.NormalPrior(0.3, 1.2) if on("constmean") else None)
            self.covar_module = K.ScaleKernel(
                K.RBFKernel(ard_num_dims=D, batch_shape=bs, lengthscale_prior=P.GammaPrior(3.0, 4.0) if on("kernel") else None),
                batch_shape=bs, outputscale_prior=P.GammaPrior(2.0, 1.5) if on("kernel") else None)
            self.likelihood = gpytorch.likelihoods.GaussianLikelihood(
                batch_shape=bs, noise_prior=P.GammaPrior(1.1, 2.0) if on("noise") else None)
            if on("lik-closure"):
                self.likelihood.register_prior("noise_std_prior", P.NormalPrior(0.5, 0.25), lambda m: m.noise.sqrt())

    def __init__(self, site):
        self.site, self.mode = site, "both"
        self.name = "exactgp-prior:" + site

    def make(self, bs):
        return self.Holder(bs, self.site)

    def run(self, mod, data):
        x, y = data["x"], data["y"]
        model = self.GP(x, y, mod)
        if self.site in ("model-closure", "all"):
            model.register_prior("model_os_prior", P.GammaPrior(2.0, 1.0), lambda m: m.covar_module.outputscale)
        if self.site in ("model-closure-ls", "all"):
            model.register_prior("model_ls_prior", P.GammaPrior(2.5, 3.0), lambda m: m.covar_module.base_kernel.lengthscale)
        model.train(); mod.likelihood.train()
        with torch.no_grad():
            return each_output(
                mll=lambda: gpytorch.mlls.ExactMarginalLogLikelihood(mod.likelihood, model)(model(x), y),
                loo=lambda: gpytorch.mlls.LeaveOneOutPseudoLikelihood(mod.likelihood, model)(model(x), y))

    def input_class(self, name, sp, sd, m):
        # the exact MLL decides how many leading dims of a prior term are batch dims from the owning module's
        # `batch_shape`; without one it falls back to the rank of the result: input class of the recorded finding
        # C08-exact-mll-prior-owner-without-batch-shape
        # LeaveOneOutPseudoLikelihood reshapes the mean to the targets' shape: class of the recorded finding
        # C08-loo-param-batch-exceeds-data-batch (Coq: expands_to sp sd = false)
        cls = "+param-batch-exceeds-data-batch" if name == "loo" and not m["expands"] else ""
        if self.site in self.OWNER_WITHOUT_BATCH_SHAPE:
            cls += "+owner-without-batch_shape"
            if m["param_rank_short"]:          # Coq: length sp < length t (c08_prior_term_unknown_owner_iff)
                cls += "+param-rank-lt-result-rank"
        return cls


class VariationalPriorFam(VariationalFam):
    """batched variational GP with priors on one kind of module: element b of the ELBO / predictive log likelihood
    contains the log-prior of element b's parameters only"""
    SITES = ("kernel", "lik-closure", "model-closure")

    class Model(gpytorch.models.ApproximateGP):
        def __init__(self, bs, site):
            bs = torch.Size(bs)
            vd = gpytorch.variational.CholeskyVariationalDistribution(NI, batch_shape=bs)
            vs = gpytorch.variational.VariationalStrategy(self, torch.zeros(*bs, NI, D), vd, learn_inducing_locations=True)
            super().__init__(vs)
            self.mean_module = gpytorch.means.ConstantMean(
                batch_shape=bs, constant_prior=P.NormalPrior(0.3, 1.2) if site == "constmean" else None)
            self.covar_module = K.ScaleKernel(
                K.RBFKernel(batch_shape=bs, lengthscale_prior=P.GammaPrior(3.0, 4.0) if site == "kernel" else None),
                batch_shape=bs, outputscale_prior=P.GammaPrior(2.0, 1.5) if site == "kernel" else None)
            self.likelihood = gpytorch.likelihoods.GaussianLikelihood(
                batch_shape=bs, noise_prior=P.GammaPrior(1.1, 2.0) if site == "noise" else None)
            if site == "lik-closure":
                self.likelihood.register_prior("noise_std_prior", P.NormalPrior(0.5, 0.25), lambda m: m.noise.sqrt())
            if site == "model-closure":
                self.register_prior("model_os_prior", P.GammaPrior(2.0, 1.0), lambda m: m.covar_module.outputscale)

        def forward(self, x):
            return gpytorch.distributions.MultivariateNormal(self.mean_module(x), self.covar_module(x))

    def __init__(self, site):
        self.site = site
        self.name = "variational-prior:" + site

    def make(self, bs):
        return self.Model(bs, self.site)

    def run(self, mod, data):
        mod.train(); mod.likelihood.train()
        with torch.no_grad():
            mod.variational_strategy.variational_params_initialized.fill_(1)
            out = mod(data["x"])
            return each_output(
                elbo=lambda: gpytorch.mlls.VariationalELBO(mod.likelihood, mod, num_data=N)(out, data["y"]),
                pll=lambda: gpytorch.mlls.PredictiveLogLikelihood(mod.likelihood, mod, num_data=2 * N)(out, data["y"]))

    def input_class(self, name, sp, sd, m):
        # class of the recorded finding C08-approximate-mll-prior-summed-over-batch: more than one parameter slice
        return "+param-batch-numel-gt-1" if int(torch.Size(sp).numel()) > 1 else ""


def families(tier):
    fams = [KernelFam(k) for k in KERNELS]
    fams += [MeanFam("constant"), MeanFam("linear"), GaussLikFam(), FixedNoiseLikFam(), MultitaskLikFam()]
    fams += [ExactGPFam("scale_rbf", via=True), ExactGPFam("matern25_ard"), ExactGPFam("rbf+linear", mode="train-only", via=True),
             ExactGPFam("scale_matern", mode="test-only")]
    fams += [VariationalFam(True), VariationalFam(False)]
    # quick tier: the members of a rotation group take turns over the broadcastable shape pairs (every pair gets one 'mask'
    # and one 'fill' family with opposite fast_pred_var, and one far-geometry kernel; the turn moves with the seed);
    # thorough tier: every family on every pair
    nan_fams = [ExactGPNanFam("scale_rbf", "mask", False), ExactGPNanFam("scale_matern", "mask", True),
                ExactGPNanFam("rbf+linear", "fill", True), ExactGPNanFam("matern25_ard", "fill", False)]
    for i, f in enumerate(nan_fams):
        f.rotate = (i % 2, 2)
    far_fams = [FarKernelFam(k) for k in FAR_KERNELS]
    for i, f in enumerate(far_fams):
        f.rotate = (i, len(far_fams))
    fams += nan_fams + far_fams
    fams += [ExactGPPriorFam(site) for site in ExactGPPriorFam.SITES]
    fams += [VariationalPriorFam(site) for site in VariationalPriorFam.SITES]
    return fams


# event rank (number of trailing non-batch dimensions) of every output
EV = dict(K_idx_first=2, K_idx_second=2, K_idx_slice=2, Kx_idx_first=2, prior_idx_first_mean=1, prior_idx_first_cov=2,
          prior_idx_second_mean=1, prior_idx_second_cov=2, post_idx_first_mean=1, post_idx_first_cov=2, K=2, Kx=2, diag=1, lazy_diag=1, diag_n3=1, lazy_diag_n3=1, m=1, marg_mean=1, marg_cov=2, elp=1, lmarg=1, mll=0, prior_mean=1, prior_cov=2,
          post_mean=1, post_cov=2, pred_cov=2, post_mean_again=1, post_cov_again=2, Kx_T=2, train_mean=1, train_cov=2, kl=0, elbo=0, pred_mean=1, loo=0, pll=0)


def run_family(out, fam, sp, sd, m, seed, table):
    """returns number of (module, shape pair, b) triples compared.  table[(u, t)] = Coq result for the pair (u, t):
    used to read element b of an output that comes back with an unexpanded batch shape u (expand semantics)."""
    rng = random.Random("%s|%s|%s|%d" % (fam.name, sp, sd, seed))
    case = dict(family=fam.name, sp=list(sp), sd=list(sd), seed=seed)
    key_shape = "rank%d-x-rank%d" % (len(sp), len(sd))
    batched = fam.make(sp)
    fill_params(batched, rng)
    data = fam.data(rng, sd)
    tol = fam.case_tol(batched, data) if hasattr(fam, "case_tol") else fam.tol
    try:
        got = fam.run(batched, data)
    except Exception as e:
        out.fail("impl-exception:%s:%s:%s" % (fam.name, type(e).__name__, key_shape),
                 "batched module raised on a broadcastable (parameter, data) batch shape pair: %r" % e, case)
        return 0
    t = m["t"]
    reader = {}
    for name, v in list(got.items()):
        if isinstance(v, Exception):
            out.fail("impl-exception:%s:%s:%s:%s%s" % (fam.name, name, type(v).__name__, key_shape, fam.input_class(name, sp, sd, m)),
                     "batched module raised while computing output %s on a broadcastable (parameter, data) batch shape "
                     "pair: %r" % (name, v), case)
            del got[name]
            continue
        ev = getattr(fam, "ev", {}).get(name, EV[name])
        u = tuple(v.shape[:v.dim() - ev]) if v.dim() >= ev else None
        mu = table.get((u, t)) if u is not None else None
        if mu is None or mu["t"] != t:
            out.fail("batch-shape:%s:%s:%s%s" % (fam.name, name, key_shape, fam.input_class(name, sp, sd, m)),
                     "output %s has shape %s: its batch shape %s does not broadcast to the broadcast batch shape %s"
                     % (name, tuple(v.shape), u, t), case, impl=list(v.shape), model=list(t))
            del got[name]
            continue
        if u != t:
            out.count("unexpanded-output:%s:%s" % (fam.name.split(":")[0], name))
        reader[name] = [tr["p"] for tr in mu["triples"]]      # Coq: bproj u b for every b of t, storage order
    ntr = 0
    for kb, tr in enumerate(m["triples"]):
        b, pidx, didx = tr["b"], tr["p"], tr["d"]
        rep = fam.make(())
        copy_slice(batched, rep, pidx)
        dsl = fam.dslice(data, didx) if hasattr(fam, "dslice") else {k: v[didx] for k, v in data.items()}
        try:
            ref = fam.run(rep, dsl)
        except Exception as e:
            out.fail("impl-exception:replica:%s:%s" % (fam.name, type(e).__name__), "non-batched replica raised %r" % e,
                     dict(case, b=list(b)))
            continue
        ntr += 1
        for name, v in got.items():
            mine = v[reader[name][kb]]
            r = ref[name]
            if isinstance(r, Exception):
                out.fail("impl-exception:replica:%s:%s:%s" % (fam.name, name, type(r).__name__),
                         "non-batched replica raised %r while computing output %s" % (r, name), dict(case, b=list(b)))
                continue
            if mine.shape != r.shape or not torch.allclose(mine, r, rtol=tol, atol=tol) \
                    or bool(torch.isnan(mine).any()):
                err = float((mine - r).abs().max()) if mine.shape == r.shape else None
                out.fail("replica:%s:%s:%s%s" % (fam.name, name, key_shape, fam.input_class(name, sp, sd, m)),
                         "element b of the batched output %s differs from the non-batched replica built from parameter "
                         "slice %s and data slice %s (max abs err %s)" % (name, list(pidx), list(didx), err),
                         dict(case, b=list(b), pidx=list(pidx), didx=list(didx)),
                         impl=mine, model=r)
    return ntr


# ------------------------------------------------------------------ exact GP: train and test batch shapes independent

TT_KERNELS = ("scale_rbf", "matern25_ard", "rbf+linear")


def train_test_cases(table, seed, tier):
    """ALL broadcastable pairs (train batch shape, test batch shape) - equal-rank pairs that differ in size-1 dimensions on
    either side included - each with parameter batch shapes broadcastable with the pair's broadcast shape: (quick) one
    drawn from them, () included / (thorough) all of them"""
    shapes = all_shapes()
    rng = random.Random(seed * 7919 + 8)
    cases = []
    for s_tr in shapes:
        for s_te in shapes:
            m1 = table[(s_tr, s_te)]
            if m1 is None:
                continue
            comp = [sp for sp in shapes if sp != () and table[(sp, m1["t"])] is not None]
            sps = [()] + comp if tier != "quick" else [rng.choice([()] + comp)]
            for sp in sps:
                cases.append((sp, s_tr, s_te))
    return cases


def tt_class(s_tr, s_te):
    """input class: how the two data batch shapes relate"""
    if s_tr == s_te:
        return "equal"
    if len(s_tr) != len(s_te):
        return "rank-differs"
    return "equal-rank-size1-stretch"


def run_train_test(out, table, sp, s_tr, s_te, seed, kname):
    """batched exact GP with hyperparameters of batch shape sp, training data of batch shape s_tr, test inputs of batch shape
    s_te.  Element b of the posterior (batch shape t = broadcast(sp, broadcast(s_tr, s_te))) must be the non-batched replica
    built from parameter slice bproj sp b, training slice bproj s_tr b, test slice bproj s_te b.  The slices are read off
    the Coq table by composition: (sp, t1) gives b -> (parameter index, index d into t1), (s_tr, s_te) gives d -> (train
    index, test index) (Props/C08.v c08_bproj_compose_l / _r: bproj s (bproj t1 b) = bproj s b)."""
    fam = ExactGPFam(kname)
    rng = random.Random("tt|%s|%s|%s|%s|%d" % (kname, sp, s_tr, s_te, seed))
    case = dict(kind="train-test", kernel=kname, sp=list(sp), s_tr=list(s_tr), s_te=list(s_te), seed=seed)
    cls = tt_class(s_tr, s_te)
    ks = "train-rank%d-x-test-rank%d:%s" % (len(s_tr), len(s_te), cls)
    m1 = table[(s_tr, s_te)]
    m = table[(sp, m1["t"])]
    t = m["t"]
    # cross-check of the composition against torch
    tt = tuple(torch.broadcast_shapes(torch.Size(sp), torch.Size(s_tr), torch.Size(s_te)))
    itr = torch.arange(int(torch.Size(s_tr).numel())).view(s_tr).expand(tt)
    ite = torch.arange(int(torch.Size(s_te).numel())).view(s_te).expand(tt)
    ok = tt == t
    for tr in m["triples"]:
        d1 = m1["triples"][tr["d_ravel"]]
        ok = ok and d1["b"] == tr["d"] and int(itr[tr["b"]]) == d1["p_ravel"] and int(ite[tr["b"]]) == d1["d_ravel"]
    if not ok:
        out.fail("shape-model:three-way-composition", "composed Coq projections disagree with torch.broadcast_shapes / expand of "
                 "three operands", case, impl=list(tt), model=list(t))
        return 0
    batched = fam.make(sp)
    fill_params(batched, rng)
    x, y, xs = points(rng, s_tr, N), rand(rng, *s_tr, N), points(rng, s_te, M)

    def post(h, x_, y_, xs_):
        model = fam.GP(x_, y_, h)
        model.eval(); h.likelihood.eval()
        with torch.no_grad():
            p = model(xs_)
            return dict(post_mean=p.mean, post_cov=p.covariance_matrix, pred_cov=h.likelihood(p).covariance_matrix)
    try:
        got = post(batched, x, y, xs)
    except Exception as e:
        out.fail("impl-exception:exactgp-train-test:%s:%s" % (type(e).__name__, ks),
                 "batched exact GP raised on broadcastable (parameter, train, test) batch shapes %s, %s, %s: %r" % (sp, s_tr, s_te, e), case)
        return 0
    for name, v in list(got.items()):
        ev = EV[name]
        if tuple(v.shape[:v.dim() - ev]) != t:
            out.fail("batch-shape:exactgp-train-test:%s:%s" % (name, ks), "output %s has shape %s, the broadcast batch shape is %s"
                     % (name, tuple(v.shape), t), case, impl=list(v.shape), model=list(t))
            del got[name]
    n = 0
    for tr in m["triples"]:
        d1 = m1["triples"][tr["d_ravel"]]
        b, pidx, tridx, teidx = tr["b"], tr["p"], d1["p"], d1["d"]
        rep = fam.make(())
        copy_slice(batched, rep, pidx)
        try:
            ref = post(rep, x[tridx], y[tridx], xs[teidx])
        except Exception as e:
            out.fail("impl-exception:replica:exactgp-train-test:%s" % type(e).__name__, "non-batched replica raised %r" % e, dict(case, b=list(b)))
            continue
        n += 1
        for name, v in got.items():
            mine, r = v[b], ref[name]
            if mine.shape != r.shape or not torch.allclose(mine, r, rtol=TOL, atol=TOL) or bool(torch.isnan(mine).any()):
                err = float((mine - r).abs().max()) if mine.shape == r.shape else None
                out.fail("replica:exactgp-train-test:%s:%s" % (name, ks),
                         "element b of %s differs from the non-batched replica built from parameter slice %s, training slice %s, "
                         "test slice %s (max abs err %s)" % (name, list(pidx), list(tridx), list(teidx), err),
                         dict(case, b=list(b)), impl=mine, model=r)
    return n


def check_train_test(out, table, seed, tier):
    n = 0
    for i, (sp, s_tr, s_te) in enumerate(train_test_cases(table, seed, tier)):
        kname = TT_KERNELS[(i + seed) % len(TT_KERNELS)]
        k = run_train_test(out, table, sp, s_tr, s_te, seed, kname)
        n += k
        out.case(dict(kind="train-test", kernel=kname, sp=list(sp), s_tr=list(s_tr), s_te=list(s_te)), k > 1,
                 label="exactgp-train-test:" + tt_class(s_tr, s_te))
    return n


# ------------------------------------------------------------------ model lists

class ListGP(gpytorch.models.ExactGP):
    def __init__(self, x, y, lik, mean, covar):
        super().__init__(x, y, lik)
        self.mean_module, self.covar_module = mean, covar

    def forward(self, x, scale=1.0, shift=None):
        """keyword arguments consumed by the member (options threaded through GP.__call__): the prior covariance is
        multiplied by `scale`, `shift` is added to the prior mean"""
        mean = self.mean_module(x)
        return gpytorch.distributions.MultivariateNormal(mean if shift is None else mean + shift, self.covar_module(x) * scale)


class KwGaussianLikelihood(gpytorch.likelihoods.GaussianLikelihood):
    """a Gaussian likelihood whose noise model consumes a keyword argument: the noise covariance is multiplied by `inflate`"""

    def _shaped_noise_covar(self, base_shape, *params, inflate=1.0, **kwargs):
        return super()._shaped_noise_covar(base_shape, *params, **kwargs) * inflate


LIST_LIKS = ("gaussian", "fixed", "fixed+learned", "hetero")


def make_list_member(rng, lik_kind, kname):
    """one exact GP with its own data size, hyperparameters and likelihood.  hetero: the noise is the posterior mean
    of a second exact GP evaluated at the inputs that are passed to the likelihood as params"""
    n = rng.choice([2, 3, 4, 5])
    x, y = points(rng, (), n), rand(rng, n)
    if lik_kind == "gaussian":
        lik = KwGaussianLikelihood()
    elif lik_kind in ("fixed", "fixed+learned"):
        lik = gpytorch.likelihoods.FixedNoiseGaussianLikelihood(0.05 + rand(rng, n).abs(), learn_additional_noise=lik_kind == "fixed+learned")
    else:
        nn_ = rng.choice([2, 3])
        nmodel = ListGP(points(rng, (), nn_), rand(rng, nn_), gpytorch.likelihoods.GaussianLikelihood(),
                        gpytorch.means.ConstantMean(), K.ScaleKernel(K.RBFKernel()))
        lik = gpytorch.likelihoods.gaussian_likelihood._GaussianLikelihoodBase(
            gpytorch.likelihoods.noise_models.HeteroskedasticNoise(nmodel))
    gp = ListGP(x, y, lik, gpytorch.means.ConstantMean(), KERNELS[kname](torch.Size()))
    fill_params(gp, rng)
    return gp, x, y


def _same(a, b, tol=1e-12):
    return a.shape == b.shape and bool(torch.allclose(a, b, rtol=0, atol=tol)) and not bool(torch.isnan(a).any())


def _same_mvn(a, b, tol=1e-12):
    return type(a) is type(b) and _same(a.mean, b.mean, tol) and _same(a.covariance_matrix, b.covariance_matrix, tol)


def check_model_list(out, seed, reps):
    """EVERY public call form of IndependentModelList / LikelihoodList / SumMarginalLogLikelihood, 2 and 3 members with
    different data sizes and likelihood kinds, compared with the members' own outputs (mean of them for the sum MLL)"""
    for k in range(reps):
        rng = random.Random(seed * 31 + k)
        nm = 2 + k % 2
        lik_kind = LIST_LIKS[(k // 2) % len(LIST_LIKS)]
        kname = rng.choice(["scale_rbf", "rbf+linear", "matern15"])
        made = [make_list_member(rng, lik_kind, kname) for _ in range(nm)]
        members, xs, ys = [g for g, _, _ in made], [x for _, x, _ in made], [y for _, _, y in made]
        tests = [points(rng, (), rng.choice([1, 2, 3])) for _ in range(nm)]
        noises = [0.05 + rand(rng, y.shape[0]).abs() for y in ys]             # per-model noise= kwarg (train)
        tnoises = [0.05 + rand(rng, t.shape[0]).abs() for t in tests]           # per-model noise= kwarg (test)
        samples = [rand(rng, 2, y.shape[0]) for y in ys]
        ml = gpytorch.models.IndependentModelList(*members)
        case = dict(kind="model-list", members=nm, lik=lik_kind, kernel=kname, sizes=[int(y.shape[0]) for y in ys], seed=seed, k=k)
        out.case(case, True, label="model-list:" + lik_kind)

        def form(key, what, thunk, tol=1e-12):
            """thunk returns a list of (got, want) tensor / MVN pairs; an exception in a call form is a failure of
            that form"""
            try:
                pairs = thunk()
            except Exception as e:
                out.fail("model-list:%s:%s:%s" % (key, lik_kind, type(e).__name__), "%s raised %r" % (what, e), case)
                return
            for i, (g, w) in enumerate(pairs):
                ok = _same_mvn(g, w, tol) if isinstance(w, gpytorch.distributions.MultivariateNormal) else _same(g, w, tol)
                if not ok:
                    out.fail("model-list:%s:%s" % (key, lik_kind), "%s differs from the members' own output (position %d)" % (what, i),
                             case, impl=getattr(g, "mean", g), model=getattr(w, "mean", w))
                    return

        # params handed to the likelihoods: needed by hetero, ignored by the others
        need = lik_kind == "hetero"
        ml.train()
        with torch.no_grad():
            form("call:train", "IndependentModelList(*train_inputs)", lambda: list(zip(ml(*ml.train_inputs), [m(x) for m, x in zip(members, xs)])))
            form("call:train:tensor-args", "IndependentModelList(x_0, x_1, ..) with bare tensors", lambda: list(zip(ml(*xs), [m(x) for m, x in zip(members, xs)])))
            form("forward", "IndependentModelList.forward", lambda: list(zip(ml.forward(*xs), [m.forward(x) for m, x in zip(members, xs)])))
            form("forward_i", "IndependentModelList.forward_i", lambda: [(ml.forward_i(i, xs[i]), members[i].forward(xs[i])) for i in range(nm)])
            outs = [m(x) for m, x in zip(members, xs)]
            mean_of = lambda vals: sum(vals) / nm       # noqa: E731
            for cname, cls in (("exact", gpytorch.mlls.ExactMarginalLogLikelihood), ("loo", gpytorch.mlls.LeaveOneOutPseudoLikelihood)):
                smll = gpytorch.mlls.SumMarginalLogLikelihood(ml.likelihood, ml, mll_cls=cls)
                if not need:
                    form("sum-mll:%s:no-params" % cname, "SumMarginalLogLikelihood(outputs, targets)",
                         lambda: [(smll(ml(*ml.train_inputs), ml.train_targets),
                                   mean_of([cls(m.likelihood, m)(o, y) for m, o, y in zip(members, outs, ys)]))])
                form("sum-mll:%s:per-model-params" % cname, "SumMarginalLogLikelihood(outputs, targets, *train_inputs)",
                     lambda: [(smll(ml(*ml.train_inputs), ml.train_targets, *ml.train_inputs),
                               mean_of([cls(m.likelihood, m)(o, y, x) for m, o, y, x in zip(members, outs, ys, xs)]))])
            if not need:
                form("likelihood:marginal", "LikelihoodList(*outputs)", lambda: list(zip(ml.likelihood(*outs), [m.likelihood(o) for m, o in zip(members, outs)])))
                form("likelihood_i", "IndependentModelList.likelihood_i", lambda: [(ml.likelihood_i(i, outs[i]), members[i].likelihood(outs[i])) for i in range(nm)])
                form("likelihood:elp", "LikelihoodList.expected_log_prob(*[(y, f)])",
                     lambda: list(zip(ml.likelihood.expected_log_prob(*[(y, o) for y, o in zip(ys, outs)]),
                                      [m.likelihood.expected_log_prob(y, o) for m, y, o in zip(members, ys, outs)])))
                form("likelihood:forward", "LikelihoodList.forward(*samples)",
                     lambda: [(g.scale, w.scale) for g, w in zip(ml.likelihood.forward(*samples),
                                                                 [m.likelihood.forward(f) for m, f in zip(members, samples)])])
            form("likelihood:marginal:params", "LikelihoodList(*[(output, x)])",
                 lambda: list(zip(ml.likelihood(*[(o, x) for o, x in zip(outs, xs)]), [m.likelihood(o, x) for m, o, x in zip(members, outs, xs)])))
            form("likelihood_i:params", "IndependentModelList.likelihood_i(i, output, x)",
                 lambda: [(ml.likelihood_i(i, outs[i], xs[i]), members[i].likelihood(outs[i], xs[i])) for i in range(nm)])
            form("likelihood:elp:params", "LikelihoodList.expected_log_prob(*[(y, f, x)])",
                 lambda: list(zip(ml.likelihood.expected_log_prob(*[(y, o, x) for y, o, x in zip(ys, outs, xs)]),
                                  [m.likelihood.expected_log_prob(y, o, x) for m, y, o, x in zip(members, ys, outs, xs)])))
            form("likelihood:forward:params", "LikelihoodList.forward(*[(samples, x)])",
                 lambda: [(g.scale, w.scale) for g, w in zip(ml.likelihood.forward(*[(f, x) for f, x in zip(samples, xs)]),
                                                             [m.likelihood.forward(f, x) for m, f, x in zip(members, samples, xs)])])
            form("likelihood:marginal:noise-kwarg", "LikelihoodList(*outputs, noise=[..])",
                 lambda: list(zip(ml.likelihood(*outs, noise=noises), [m.likelihood(o, noise=nz) for m, o, nz in zip(members, outs, noises)])))
            form("likelihood:forward:noise-kwarg", "LikelihoodList.forward(*samples, noise=[..])",
                 lambda: [(g.scale, w.scale) for g, w in zip(ml.likelihood.forward(*samples, noise=noises),
                                                             [m.likelihood.forward(f, noise=nz) for m, f, nz in zip(members, samples, noises)])])
            # ---- keyword arguments that the members consume: the list must hand them to every member
            sc, sh = 0.5 + rng.random() * 3.0, rng.uniform(-1.0, 1.0)
            kws = [("scale", dict(scale=sc)), ("scale+shift", dict(scale=sc, shift=sh))]
            for kn, kw in kws:
                form("call:train:kwargs:" + kn, "IndependentModelList(*train_inputs, %s)" % ", ".join("%s=.." % a for a in kw),
                     lambda kw=kw: list(zip(ml(*ml.train_inputs, **kw), [m(x, **kw) for m, x in zip(members, xs)])))
                form("forward:kwargs:" + kn, "IndependentModelList.forward(*xs, %s)" % ", ".join("%s=.." % a for a in kw),
                     lambda kw=kw: list(zip(ml.forward(*xs, **kw), [m.forward(x, **kw) for m, x in zip(members, xs)])))
                form("forward_i:kwargs:" + kn, "IndependentModelList.forward_i(i, x, %s)" % ", ".join("%s=.." % a for a in kw),
                     lambda kw=kw: [(ml.forward_i(i, xs[i], **kw), members[i].forward(xs[i], **kw)) for i in range(nm)])
            # ... against the dense definition (the keyword is really consumed): mean = m(x) + shift, covariance = scale * K(x, x)
            form("call:train:kwargs:dense", "IndependentModelList(*xs, scale=.., shift=..) vs the members' dense prior",
                 lambda: [(o.mean, m.mean_module(x) + sh) for o, m, x in zip(ml(*xs, scale=sc, shift=sh), members, xs)]
                 + [(o.covariance_matrix, sc * m.covar_module(x).to_dense()) for o, m, x in zip(ml(*xs, scale=sc, shift=sh), members, xs)], tol=1e-10)
            if lik_kind == "gaussian":
                infl = 1.5 + rng.random() * 2.0
                form("likelihood:marginal:kwargs", "LikelihoodList(*outputs, inflate=..)",
                     lambda: list(zip(ml.likelihood(*outs, inflate=infl), [m.likelihood(o, inflate=infl) for m, o in zip(members, outs)])))
                form("likelihood:marginal:kwargs:dense", "LikelihoodList(*outputs, inflate=..) vs covariance + inflate * noise * I",
                     lambda: [(g.covariance_matrix, o.covariance_matrix + infl * m.likelihood.noise * torch.eye(o.mean.shape[-1]))
                              for g, m, o in zip(ml.likelihood(*outs, inflate=infl), members, outs)], tol=1e-10)
                form("likelihood_i:kwargs", "IndependentModelList.likelihood_i(i, output, inflate=..)",
                     lambda: [(ml.likelihood_i(i, outs[i], inflate=infl), members[i].likelihood(outs[i], inflate=infl)) for i in range(nm)])
                form("likelihood:elp:kwargs", "LikelihoodList.expected_log_prob(*[(y, f)], inflate=..)",
                     lambda: list(zip(ml.likelihood.expected_log_prob(*[(y, o) for y, o in zip(ys, outs)], inflate=infl),
                                      [m.likelihood.expected_log_prob(y, o, inflate=infl) for m, y, o in zip(members, ys, outs)])))
                form("likelihood:forward:kwargs", "LikelihoodList.forward(*samples, inflate=..)",
                     lambda: [(g.scale, w.scale) for g, w in zip(ml.likelihood.forward(*samples, inflate=infl),
                                                                 [m.likelihood.forward(f, inflate=infl) for m, f in zip(members, samples)])])
                form("likelihood:forward:kwargs:dense", "LikelihoodList.forward(*samples, inflate=..) vs sqrt(inflate * noise)",
                     lambda: [(g.scale, (infl * m.likelihood.noise).sqrt().expand_as(g.scale)) for g, m in zip(ml.likelihood.forward(*samples, inflate=infl), members)], tol=1e-10)
        # eval mode with keyword arguments: separate copies (the prediction strategy is cached by the first eval call)
        if lik_kind in ("gaussian", "fixed+learned"):
            ml_kw = copy.deepcopy(ml)
            ref_kw = copy.deepcopy(members)
            ml_kw.eval()
            for m in ref_kw:
                m.eval()
            with torch.no_grad():
                form("call:eval:kwargs", "IndependentModelList posterior with scale=..",
                     lambda: list(zip(ml_kw(*tests, scale=sc), [m(xt, scale=sc) for m, xt in zip(ref_kw, tests)])))
                # the posterior of the scaled-kernel GP, densely: K* = sc K
                def dense_post(m, x, y, xt):
                    Kxx = sc * m.covar_module(x).to_dense() + m.likelihood.noise * torch.eye(len(y))
                    Ksx = sc * m.covar_module(xt, x).to_dense()
                    Kss = sc * m.covar_module(xt).to_dense()
                    sol = torch.linalg.solve(Kxx, torch.cat([(y - m.mean_module(x)).unsqueeze(-1), Ksx.transpose(-1, -2)], -1))
                    return m.mean_module(xt) + Ksx @ sol[:, 0], Kss - Ksx @ sol[:, 1:]
                if lik_kind == "gaussian":
                    form("call:eval:kwargs:dense", "IndependentModelList posterior with scale=.. vs the dense GP posterior under the scaled kernel",
                         lambda: [pair for o, m, x, y, xt in zip(copy.deepcopy(ml).eval()(*tests, scale=sc), members, xs, ys, tests)
                                  for pair in zip((o.mean, o.covariance_matrix), dense_post(m, x, y, xt))], tol=1e-8)
        ml.eval()
        with torch.no_grad():
            refs = [m(xt) for m, xt in zip(members, tests)]
            form("call:eval", "IndependentModelList posterior", lambda: list(zip(ml(*tests), refs)))
            form("likelihood:predictive:params", "LikelihoodList(*[(posterior, x*)])",
                 lambda: list(zip(ml.likelihood(*[(o, xt) for o, xt in zip(ml(*tests), tests)]), [m.likelihood(r, xt) for m, r, xt in zip(members, refs, tests)])))
            form("likelihood:predictive:noise-kwarg", "LikelihoodList(*posteriors, noise=[..])",
                 lambda: list(zip(ml.likelihood(*ml(*tests), noise=tnoises), [m.likelihood(r, noise=nz) for m, r, nz in zip(members, refs, tnoises)])))
            if lik_kind in ("gaussian", "fixed+learned"):
                form("likelihood:predictive", "LikelihoodList(*posteriors)", lambda: list(zip(ml.likelihood(*ml(*tests)), [m.likelihood(r) for m, r in zip(members, refs)])))
            # fantasies: one new observation set per member (with a per-member noise= for the fixed-noise likelihoods)
            fx = [points(rng, (), 2) + 0.0625 for _ in range(nm)]
            fy = [rand(rng, 2) for _ in range(nm)]
            fn = [0.05 + rand(rng, 2).abs() for _ in range(nm)]
            if lik_kind == "gaussian":
                form("fantasy", "IndependentModelList.get_fantasy_model(inputs, targets)",
                     lambda: list(zip(ml.get_fantasy_model(fx, fy)(*tests),
                                      [m.get_fantasy_model(a, b_)(xt) for m, a, b_, xt in zip(members, fx, fy, tests)])))
            if lik_kind == "gaussian":
                # (the copies whose caches were built by predictions with the same keyword argument)
                form("fantasy:kwargs", "IndependentModelList.get_fantasy_model(inputs, targets, scale=..)",
                     lambda: list(zip(ml_kw.get_fantasy_model(fx, fy, scale=sc)(*tests, scale=sc),
                                      [m.get_fantasy_model(a, b_, scale=sc)(xt, scale=sc) for m, a, b_, xt in zip(ref_kw, fx, fy, tests)])))
            if lik_kind in ("fixed", "fixed+learned"):
                form("fantasy:noise-kwarg", "IndependentModelList.get_fantasy_model(inputs, targets, noise=[..])",
                     lambda: list(zip(ml.get_fantasy_model(fx, fy, noise=fn)(*tests),
                                      [m.get_fantasy_model(a, b_, noise=nz)(xt) for m, a, b_, nz, xt in zip(members, fx, fy, fn, tests)])))


# ------------------------------------------------------------------ batch-independent multi-output exact GP

def check_multioutput(out, seed, reps):
    """the main use of a batch shape: T independent outputs as an exact GP whose mean / kernel carry batch_shape [T]
    (MultitaskMultivariateNormal.from_batch_mvn) with a diagonal MultitaskGaussianLikelihood.  Its MLL (with and without
    hyperparameter priors) is the sum of the T single-output replicas' MLLs (each with the t-th parameter slice, noise =
    global noise + task noise t), divided by the total number of observations."""
    class MO(gpytorch.models.ExactGP):
        def __init__(self, x, y, lik, mean, covar):
            super().__init__(x, y, lik)
            self.mean_module, self.covar_module = mean, covar

        def forward(self, x):
            return gpytorch.distributions.MultitaskMultivariateNormal.from_batch_mvn(
                gpytorch.distributions.MultivariateNormal(self.mean_module(x), self.covar_module(x)))

    def parts(bs, priors):
        mean = gpytorch.means.ConstantMean(batch_shape=bs, constant_prior=P.NormalPrior(0.3, 1.2) if priors else None)
        covar = K.ScaleKernel(K.RBFKernel(ard_num_dims=D, batch_shape=bs, lengthscale_prior=P.GammaPrior(3.0, 4.0) if priors else None),
                              batch_shape=bs, outputscale_prior=P.GammaPrior(2.0, 1.5) if priors else None)
        return mean, covar

    for k in range(reps):
        rng = random.Random(seed * 77 + k)
        nt, n, priors = rng.choice([2, 3]), rng.choice([3, 4]), k % 2 == 1
        x, y = points(rng, (), n), rand(rng, n, nt)
        case = dict(kind="multioutput", tasks=nt, n=n, priors=priors, seed=seed, k=k)
        out.case(case, True, label="multioutput-exact" + ("+priors" if priors else ""))
        mean, covar = parts(torch.Size([nt]), priors)
        lik = gpytorch.likelihoods.MultitaskGaussianLikelihood(num_tasks=nt, rank=0)
        model = MO(x, y, lik, mean, covar)
        fill_params(model, rng)
        model.train()
        key = "multioutput-exact:mll" + ("+priors" if priors else "")
        with torch.no_grad():
            try:
                got = gpytorch.mlls.ExactMarginalLogLikelihood(lik, model)(model(x), y)
            except Exception as e:
                out.fail("impl-exception:%s:%s" % (key, type(e).__name__),
                         "ExactMarginalLogLikelihood of a batch-independent multi-output exact GP raised %r" % e, case)
                continue
            total = 0.0
            for t in range(nt):
                rmean, rcovar = parts(torch.Size(), priors)
                rlik = gpytorch.likelihoods.GaussianLikelihood()
                rep = ListGP(x, y[:, t], rlik, rmean, rcovar)
                for (name, pb), (_, pr) in zip(list(mean.named_parameters()) + list(covar.named_parameters()),
                                               list(rmean.named_parameters()) + list(rcovar.named_parameters())):
                    pr.data.copy_(pb.data[t])
                rlik.noise = lik.noise.reshape(()) + lik.task_noises[t]
                rep.train()
                total = total + gpytorch.mlls.ExactMarginalLogLikelihood(rlik, rep)(rep(x), y[:, t]) * n
            want = total / (n * nt)
        if got.shape != want.shape or not C.close(got.item(), want.item(), 1e-9, 1e-9):
            out.fail("replica:" + key, "MLL of the batch-independent multi-output exact GP is not the sum of its T single-output "
                     "replicas' MLLs / (n T)", case, impl=got, model=want)


# ------------------------------------------------------------------ main

def run(out, ctx):
    tier, seed = ctx["tier"], ctx["seed"]
    torch.manual_seed(seed)
    shapes = all_shapes()
    pairs = [(sp, sd) for sp in shapes for sd in shapes]
    models = coq_triples(pairs)
    table = {pr: m for pr, m in zip(pairs, models)}
    out.rule = ("ALL pairs (parameter batch shape, data batch shape) of rank 0..2 with sizes in {1,2,3} (169 pairs); "
                "non-broadcastable pairs: Coq None <-> torch raises; broadcastable pairs: every element b of the "
                "broadcast batch x every module family; slice indices from the Coq model, cross-checked against "
                "Tensor.expand; an output that comes back with an unexpanded batch shape u is read at bproj u b (expand "
                "semantics; counted as unexpanded-output); every observable of a kernel / likelihood is evaluated separately so an "
                "exception is attributed to the public call that raised; families: %d kernels (K, K(x,x2), diag, lazy diag, and "
                "diag / lazy diag on n=3 points = a batch size), 2 means, 3 likelihoods; for the generic / Scale / Additive / Product / nested kernels also element b as handed out by the library's OWN batch "
                "indexing of the lazy kernel tensor: K[i] (a partial index for batch rank 2), K[:, j], K[i:i+1], Kx[i], reassembled and compared with the replica; exact GP (the "
                "prior and posterior also through MultivariateNormal.__getitem__: prior[i], prior[:, j], post[i]; data batch on train+test / train "
                "only / test only: MLL, prior, posterior, predictive), whitened + unwhitened variational (predictive, KL, ELBO), "
                "exact GP with hyperparameter priors on ONE kind of module per family (kernel, ConstantMean, LinearMean weights+bias, "
                "noise model, closure prior on the likelihood, closure priors on the model object (with / without event dims), all "
                "of them): MLL and leave-one-out pseudo likelihood; variational GP with priors (kernel, likelihood closure, model "
                "closure): ELBO and predictive log likelihood; batch-independent multi-output exact GP (batch_shape [T] + "
                "from_batch_mvn, with / without priors) vs T single-output replicas; IndependentModelList / LikelihoodList / "
                "SumMarginalLogLikelihood: 2 and 3 members of different data sizes with Gaussian / fixed-noise / fixed+learned / "
                "heteroskedastic (noise GP) likelihoods, EVERY public call form (call with tuples / bare tensors, forward, forward_i, "
                "likelihood_i, marginal / expected_log_prob / forward of the likelihood list with and without per-model params and "
                "with the noise= kwarg, SumMLL of exact and LOO members with and without per-model params, posterior, predictive, "
                "fantasy models with and without noise=; KEYWORD ARGUMENTS consumed by the members: forward(x, scale=, shift=) through __call__ / forward / forward_i in train "
                "and eval mode and through get_fantasy_model, a likelihood keyword (inflate=) through LikelihoodList __call__ / forward / expected_log_prob / likelihood_i, "
                "each also against the dense definition so that the keyword is known to be consumed) against the members' own outputs (their mean for the sum MLL); failure keys "
                "carry the input-class bits computed by the Coq model (Models/C08_diag.v: expands_to, takes_diagonal; "
                "Models/C08_prior.v: param_rank_short); non-trivial = broadcast batch has > 1 element.  "
                "NON-DEFAULT SETTINGS: batched exact GP with NaN targets at DIFFERENT positions per batch element under "
                "observation_nan_policy 'mask' / 'fill' x fast_pred_var off / on (posterior, predictive, a second call served from the "
                "caches, MLL under 'mask'): element b vs the replica run under the same settings on element b's own targets ('fill') / "
                "on element b's targets minus the union of the NaN positions ('mask', the documented batch reading).  "
                "TRAIN / TEST BATCH SHAPES INDEPENDENT: exact GP posterior for ALL broadcastable pairs (train batch shape, test batch "
                "shape) - equal-rank pairs stretched through size-1 dimensions on either side included - with a parameter batch shape "
                "drawn from the compatible ones; slices by composing the Coq projections (c08_bproj_compose_l/_r), cross-checked against "
                "torch; an exception on a broadcastable triple is a failure.  GEOMETRY: %d stationary kernels on batch data whose "
                "elements live far apart (element b shifted by ravel(b) * 1e6 .. 1e8), %d x %d points (torch.cdist's matmul regime) for K, "
                "K(x, x2), K(x2, x)^T, diag; tolerance max(1e-9, 8 x rounding bound of the replica's own per-data-set-centred computation).  "
                "Quick tier: the NaN-policy families (pairs of them) and the far-geometry kernels take turns over the shape pairs"
                % (len(KERNELS), len(FAR_KERNELS), FAR_N1, FAR_N2))
    out.exhaustive = True
    out.extra["tolerances"] = {"replica": TOL}
    fams = families(tier)
    rounds = 1 if tier == "quick" else 4
    ntr = nbc = 0
    for (sp, sd), m in zip(pairs, models):
        ok = check_against_torch(out, sp, sd, m)
        out.case(dict(kind="shape-pair", sp=list(sp), sd=list(sd), broadcastable=m is not None), m is not None,
                 label="broadcastable" if m is not None else "not-broadcastable")
        if m is None or not ok:
            continue
        nbc += 1
        for fam in fams:
            rot = getattr(fam, "rotate", None)
            if tier == "quick" and rot is not None and (nbc + seed) % rot[1] != rot[0]:
                continue
            for r in range(rounds):
                k = run_family(out, fam, sp, sd, m, seed * 1000 + r, table)
                ntr += k
                out.case(dict(family=fam.name, sp=list(sp), sd=list(sd), round=r), len(m["triples"]) > 1,
                         label=fam.name.split(":")[0])
    ntr += check_train_test(out, table, seed, tier)
    out.extra["triples_compared"] = ntr
    if FAR_BOUNDS:
        out.extra["far-geometry rounding bound (max over cases)"] = max(FAR_BOUNDS)
    check_model_list(out, seed, 16 if tier == "quick" else 80)
    check_multioutput(out, seed, 6 if tier == "quick" else 24)
    out.tested_not_proved = [
        "that each gpytorch module implements the batched operation of the model (this is what the replica comparison tests)",
        "torch broadcasting/expand semantics (cross-checked against the Coq shape model on every pair)"]


def replay(path):
    d = json.load(open(path))
    case = d["case"]
    out = C.Outcome("C08", "quick", 0)
    if case.get("kind") == "model-list":
        check_model_list(out, case["seed"], case["k"] + 1)
    elif case.get("kind") == "multioutput":
        check_multioutput(out, case["seed"], case["k"] + 1)
    elif case.get("kind") == "train-test":
        shapes = all_shapes()
        pairs = [(a, b) for a in shapes for b in shapes]
        table = {pr: mm for pr, mm in zip(pairs, coq_triples(pairs, tag="C08_replay"))}
        run_train_test(out, table, tuple(case["sp"]), tuple(case["s_tr"]), tuple(case["s_te"]), case["seed"], case["kernel"])
    elif "family" in case:
        sp, sd = tuple(case["sp"]), tuple(case["sd"])
        shapes = all_shapes()
        pairs = [(a, b) for a in shapes for b in shapes]
        table = {pr: mm for pr, mm in zip(pairs, coq_triples(pairs, tag="C08_replay"))}
        m = table[(sp, sd)]
        print("Coq: broadcast shape", m["t"])
        for tr in m["triples"]:
            print("  b=%s reads parameter slice %s, data slice %s" % (tr["b"], tr["p"], tr["d"]))
        fam = [f for f in families("quick") if f.name == case["family"]][0]
        run_family(out, fam, sp, sd, m, case["seed"], table)
    else:
        sp, sd = tuple(case["sp"]), tuple(case["sd"])
        m = coq_triples([(sp, sd)], tag="C08_replay")[0]
        check_against_torch(out, sp, sd, m)
    for f in out.failures:
        print("FAIL", f["key"], "-", f["what"])
        if f.get("impl") is not None:
            print("  impl ", C.jsonable(f["impl"])); print("  model", C.jsonable(f["model"]))
    print("FAILS" if out.failures else "agrees")
    return 1 if out.failures else 0
