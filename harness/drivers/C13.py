"""C13 — non-Gaussian likelihoods: Gauss-Hermite rule, Bernoulli marginal, documented parameters.

Tie C.  Families (each a function taking JSON-able case dicts, so that replay re-runs one case):
  premise   the finite premise of c13_gh_affine_exact / c13_gh_hermite_exact for the nodes the code
            uses (numpy hermgauss(n)), checked with mpmath (validated hypothesis, NOT a theorem),
            against the Coq model's Hermite moments; sharpness at degree 2n.
  expect    the real GaussHermiteQuadrature1D on monomials / random polynomials of every degree
            0..2n-1 (and 2n) vs E_{N(m,v)}[p] computed exactly by the Coq model (moment functional).
  rule      the same module vs the Coq model of its own formula on its own nodes (exact rationals).
  cond      conditional distributions' parameters and log-densities vs the documented formulas (expr).
  lik       expected_log_prob / log_marginal vs the rule applied to the documented density (expr).
  bern      analytic Bernoulli marginal / log_marginal vs Phi(m / sqrt(1+v)) and vs mpmath.quad.
  logphi    log_normal_cdf and its derivative vs log Phi, phi/Phi on a dense sweep (test only).
  trunc     expected_log_prob vs adaptive integration of the documented density (test only).
Likelihood parameters are SET by the harness (make_lik: setter / initialize / constructor default, default and
non-default constraints) and every reference density uses the values that were set, never values read back; the
read-back is compared with the set value (keys <kind>:param-readback:<name>:<route>).
Axes shared by the families: `xform` (the module - quadrature or likelihood - is built first and THEN cast / moved /
copied: .double() .float() .to(dtype) .cpu() .to("cpu") deepcopy pickle state_dict round trip, then evaluated; the
nodes after the transformation must be the casts of hermgauss(n), E[1] must be 1) and far-tail observations for
expected_log_prob / log_marginal (|y - m| up to hundreds of scale units, marginal densities down to 1e-280; the model
side is an expr evaluated by mpmath, nothing underflows there)."""
import contextlib
import copy
import pickle
import json
import math
import random
import re
import sys
from fractions import Fraction

import mpmath as mp
import numpy as np
import torch

import gpytorch
from gpytorch import settings as gs
from gpytorch.utils.quadrature import GaussHermiteQuadrature1D
from harness.lib import common as C

COQ_TARGETS = ["Models/C13_quadrature.vo"]
LEVEL_NOTE = ("theorems are about the Gallina model (gh_rule, moment functional); the premise of the main theorem for "
              "numpy's hermgauss nodes is a numerically validated hypothesis (mpmath, 50 digits); tie to /repo is "
              "differential (public outputs, float64 vs exact rationals / 40-digit mpmath evaluation of expr terms)")
IMPORTS = ("From Coq Require Import List ZArith QArith Qcanon String.\n"
           "From GPV Require Import Base.LinAlg Base.Exec Base.Expr Models.C13_quadrature.")

torch.set_default_dtype(torch.float64)
mp.mp.dps = 40
sys.set_int_max_str_digits(0)


def coq_run(tag, fn, cases, files=16, strings=False):
    """run `fn` of Models/C13_quadrature.v on the cases.  strings=True: results made of very large integers are
    returned as decimal strings (Coq's own printing of a large Z is far slower than computing it)"""
    shard = max(1, -(-len(cases) // files))
    rd = "Definition run c := strs (%s c)." % fn if strings else "Definition run := %s." % fn
    return C.coq_run_cases(tag, IMPORTS, rd, cases, shard=shard)


EPS64, EPS32 = 2.0 ** -52, 2.0 ** -23
NS = [3, 5, 10, 20, 30]
KINDS = ["bern", "laplace", "student", "beta"]
KTAG = {"bern": 2, "laplace": 8, "student": 10, "beta": 12}


# ----------------------------------------------------------------------------- helpers

def dyadic(rng, bits, emin, emax, signed=False, zero=False):
    k = rng.randint(0 if zero else 1, 2 ** bits - 1)
    v = k * 2.0 ** rng.randint(emin, emax)
    return -v if signed and rng.random() < 0.5 else v


_QUADS = {}

# module transformations (applied AFTER construction).  QUAD_XFORMS for the bare quadrature module (any final dtype),
# LIK_XFORMS for likelihoods (sequences ending in float64, so that the realised parameters are float64 numbers)
LIK_XFORMS = [["double"], ["to64"], ["cpu"], ["to_cpu"], ["deepcopy"], ["pickle"], ["state_dict"], ["float", "double"],
              ["deepcopy", "double"], ["to32", "to64"], ["pickle", "cpu"], ["eval", "double"]]
QUAD_XFORMS = LIK_XFORMS + [["float"], ["to32"], ["double", "float"], ["deepcopy", "float"], ["float", "pickle"]]


def apply_xform(mod, xform, rebuild):
    """cast / move / copy a built module; `rebuild()` makes a fresh module of the same configuration (state_dict
    round trip).  Returns the module to use afterwards."""
    for a in xform or []:
        if a == "double":
            mod = mod.double()
        elif a == "float":
            mod = mod.float()
        elif a == "to64":
            mod = mod.to(torch.float64)
        elif a == "to32":
            mod = mod.to(torch.float32)
        elif a == "cpu":
            mod = mod.cpu()
        elif a == "to_cpu":
            mod = mod.to("cpu")
        elif a == "deepcopy":
            mod = copy.deepcopy(mod)
        elif a == "pickle":
            mod = pickle.loads(pickle.dumps(mod))
        elif a == "eval":
            mod = mod.eval()
        elif a == "state_dict":
            fresh = rebuild()
            fresh.load_state_dict(mod.state_dict())
            mod = fresh
        else:
            raise ValueError("unknown transformation %r" % a)
    return mod


def expected_nodes(n, default, xform):
    """what the nodes of an n-point module built in `default` dtype must be after `xform`: numpy's hermgauss(n) taken
    through the same sequence of dtypes (a cast is elementwise rounding; copies and moves change nothing).
    Returns (locations, weights, prec) with prec = 'float32' when the values went through float32 at some point."""
    t_np, w_np = np.polynomial.hermite.hermgauss(n)
    dt0 = torch.float32 if default == "float32" else torch.float64
    t, w = torch.tensor(t_np, dtype=torch.float64).to(dt0), torch.tensor(w_np, dtype=torch.float64).to(dt0)
    prec32 = dt0 == torch.float32
    for a in xform or []:
        if a in ("double", "to64"):
            t, w = t.double(), w.double()
        elif a in ("float", "to32"):
            t, w = t.float(), w.float()
            prec32 = True
        elif a == "state_dict":       # a fresh module (its nodes are not part of the state dict)
            t, w = torch.tensor(t_np, dtype=torch.float64).to(dt0), torch.tensor(w_np, dtype=torch.float64).to(dt0)
            prec32 = dt0 == torch.float32
    return t, w, "float32" if prec32 else "float64"


def check_nodes(out, q, n, default, xform, case, who="quadrature"):
    """the module's nodes after construction + transformation are the casts of hermgauss(n)"""
    t, w, prec = expected_nodes(n, default, xform)
    ok = (isinstance(q.locations, torch.Tensor) and isinstance(q.weights, torch.Tensor)
          and q.locations.dtype == t.dtype and q.weights.dtype == w.dtype
          and q.locations.shape == t.shape and q.weights.shape == w.shape
          and torch.equal(q.locations, t) and torch.equal(q.weights, w))
    if not ok:
        out.fail("%s:nodes-after-transform:%s" % (who, "+".join(xform) if xform else "none"),
                 "nodes / weights of the %d-point module after %s are not the casts of hermgauss(%d) (sum of weights / sqrt(pi) "
                 "= %.6g, must be 1)" % (n, xform or "construction", n, float(q.weights.double().sum()) / math.sqrt(math.pi)), case,
                 impl=dict(t=q.locations.double().tolist(), w=q.weights.double().tolist()),
                 model=dict(t=t.double().tolist(), w=w.double().tolist()))
    return prec


def get_quad(n, default, xform=None):
    """the module under test; `default` is the torch default dtype at construction (the code builds its node
    tensors with torch.Tensor(np_array), i.e. in the default dtype); `xform`: transformations applied afterwards"""
    key = (n, default, tuple(xform or ()))
    if key not in _QUADS:
        def build():
            old = torch.get_default_dtype()
            torch.set_default_dtype(torch.float32 if default == "float32" else torch.float64)
            try:
                return GaussHermiteQuadrature1D() if n is None else GaussHermiteQuadrature1D(n)
            finally:
                torch.set_default_dtype(old)
        _QUADS[key] = apply_xform(build(), xform, build)
    return _QUADS[key]


def final32(default, xform):
    return expected_nodes(1, default, xform)[0].dtype == torch.float32


def quad_nodes(q):
    return [float(x) for x in q.locations.double().tolist()], [float(x) for x in q.weights.double().tolist()]


def horner(p):
    def f(x):
        r = torch.zeros_like(x)
        for c in reversed(p):
            r = r * x + c
        return r
    return f


def reshape(flat, shape):
    return torch.tensor(flat, dtype=torch.float64).reshape(shape) if shape else torch.tensor(flat[0], dtype=torch.float64)


def make_dist(kind, mean, var=None, sd=None):
    if kind == "normal":
        return torch.distributions.Normal(mean, sd if sd is not None else var.sqrt())
    from linear_operator.operators import DiagLinearOperator
    return gpytorch.distributions.MultivariateNormal(mean, DiagLinearOperator(var if var is not None else sd * sd))


def cond_bound(p, xs, ws):
    """sum_i w_i sum_k (k+1)|c_k||x_i|^k / sqrt(pi): first-order rounding-error scale of the node sum"""
    tot = 0.0
    for x, w in zip(xs, ws):
        ax, acc, pw = abs(x), 0.0, 1.0
        for k, c in enumerate(p):
            acc += (k + 1) * abs(c) * pw
            pw *= ax
        tot += w * acc
    return tot / math.sqrt(math.pi)


def safe_expr(r):
    """evaluate a serialised expr; a formula that is undefined at the input (e.g. lgamma at 0 for the documented Beta
    parametrisation when sigmoid(f) rounds to 0 or 1) evaluates to nan and can match nothing"""
    try:
        return C.Reader(r).expr()
    except (ValueError, ZeroDivisionError):
        return mp.nan


def mpf(x):
    return mp.mpf(x.numerator) / mp.mpf(x.denominator) if isinstance(x, Fraction) else mp.mpf(x)


# ----------------------------------------------------------------------------- premise

def refine_nodes(n, t_np):
    old = mp.mp.dps
    mp.mp.dps = 60
    try:
        ts, ws = [], []
        for x in t_np:
            x = mp.mpf(float(x))
            for _ in range(8):
                x = x - mp.hermite(n, x) / (2 * n * mp.hermite(n - 1, x))
            ts.append(x)
            ws.append(mp.mpf(2) ** (n - 1) * mp.factorial(n) * mp.sqrt(mp.pi) / (n * n * mp.hermite(n - 1, x) ** 2))
        return ts, ws
    finally:
        mp.mp.dps = old


def fam_premise(out, cases):
    """case: dict(fam='premise', n=..).  Premise (raw Hermite form): sum_i w_i t_i^k = sqrt(pi) h_k, k < 2n."""
    nmax = max(c["n"] for c in cases)
    r = coq_run("C13_hmom", "run_hmom", ["%d%%nat" % (2 * nmax + 1)])[0]
    rd = C.Reader(r)
    hm = rd.qs(2 * nmax + 1)
    old = mp.mp.dps
    mp.mp.dps = 60
    try:
        spi = mp.sqrt(mp.pi)
        for c in cases:
            n = c["n"]
            q = get_quad(n, "float64")
            t_code, w_code = quad_nodes(q)
            t_np, w_np = np.polynomial.hermite.hermgauss(n)
            if list(map(float, t_np)) != t_code or list(map(float, w_np)) != w_code:
                out.fail("premise:nodes-not-hermgauss", "module nodes differ from numpy hermgauss(%d) in float64 default dtype" % n, c,
                         impl=dict(t=t_code, w=w_code), model=dict(t=list(map(float, t_np)), w=list(map(float, w_np))))
            ts, ws = refine_nodes(n, t_np)
            dt = max(abs(mp.mpf(a) - b) / max(1, abs(b)) for a, b in zip(t_code, ts))
            dw = max(abs(mp.mpf(a) - b) / b for a, b in zip(w_code, ws))
            out.case(dict(fam="premise", n=n, what="nodes vs 60-digit Newton roots of H_n"), True, label="premise:nodes")
            if dt > 1e-15 or dw > 1e-13:
                out.fail("premise:hermgauss-accuracy", "hermgauss(%d) nodes/weights are not roundings of the true Gauss-Hermite rule "
                         "(node err %.2e, weight rel err %.2e)" % (n, dt, dw), c, impl=float(dt), model=float(dw))
            for k in range(2 * n + 1):
                target = spi * mpf(hm[k])
                s_code = sum(mp.mpf(w) * mp.mpf(t) ** k for t, w in zip(t_code, w_code))
                s_true = sum(w * t ** k for t, w in zip(ts, ws))
                s_abs = sum(w * abs(t) ** k for t, w in zip(ts, ws))
                out.case(dict(fam="premise", n=n, k=k), k >= 1, label="premise:k<2n" if k < 2 * n else "premise:k=2n(sharp)")
                if k < 2 * n:
                    if abs(s_true - target) > mp.mpf(10) ** -45 * s_abs:
                        out.fail("premise:true-rule:k<2n", "exact n=%d Gauss-Hermite rule misses the Hermite moment h_%d of the model" % (n, k),
                                 dict(c, k=k), impl=mp.nstr(s_true, 30), model=mp.nstr(target, 30))
                    if abs(s_code - target) > 1e-14 * (k + 1) * s_abs:
                        out.fail("premise:hermgauss:k<2n", "sum_i w_i t_i^%d over the code's nodes (n=%d) is not sqrt(pi) h_%d" % (k, n, k),
                                 dict(c, k=k), impl=mp.nstr(s_code, 25), model=mp.nstr(target, 25))
                else:
                    defect = mp.factorial(n) * spi / mp.mpf(2) ** n      # classical error term of the n-point rule
                    if abs((target - s_true) - defect) > mp.mpf(10) ** -45 * s_abs or abs((target - s_code) - defect) > 1e-14 * (k + 1) * s_abs:
                        out.fail("premise:sharpness", "degree 2n=%d defect of the exact rule is not n! sqrt(pi)/2^n" % k, dict(c, k=k),
                                 impl=mp.nstr(target - s_true, 25), model=mp.nstr(defect, 25))
    finally:
        mp.mp.dps = old


# ----------------------------------------------------------------------------- expect

def fam_expect(out, cases, tag="C13_expect"):
    """case: dict(fam='expect', n, default, dist, shape, p, m=[..flat], sd=[..flat], kind)
    impl: quadrature(poly, dist) ; model: E_{N(m, sd^2)}[p] (exact, Coq).  For len(p) == 2n+1 (degree 2n) the
    rule must MISS by exactly c_2n n! sd^(2n) (sharpness / non-trivial marker)."""
    coq, owner = [], []
    for ci, c in enumerate(cases):
        for j, (m, sd) in enumerate(zip(c["m"], c["sd"])):
            coq.append("(%s, %s, %s)" % (C.qc_lit(m), C.qc_lit(sd), C.qc_vec(c["p"])))
            owner.append((ci, j))
    order = list(range(len(coq)))
    random.Random(1).shuffle(order)                      # spread the expensive high-degree cases over the shards
    res_sh = coq_run(tag, "run_expect", [coq[i] for i in order], strings=True)
    res = [None] * len(coq)
    for pos, i in enumerate(order):
        res[i] = res_sh[pos]
    model = {}
    for (ci, j), r in zip(owner, res):
        rd = C.Reader(r)
        same, a = rd.int(), rd.q()
        if same != 1:
            out.fail("model:expect-forms-disagree", "binomial and recurrence forms of the normal moments disagree in the model",
                     dict(cases[ci], element=j), model=float(a))
        model[(ci, j)] = a
    for ci, c in enumerate(cases):
        n, p, shape = c["n"], c["p"], c["shape"]
        xf = c.get("xform")
        q = get_quad(n, c["default"], xf)
        prec = check_nodes(out, q, n, c["default"], xf, c)
        ts, ws = (x.double().tolist() for x in expected_nodes(n, c["default"], xf)[:2])      # for the rounding bound only
        mean, sd = reshape(c["m"], shape), reshape(c["sd"], shape)
        try:
            got = q(horner(p), make_dist(c["dist"], mean, sd=sd))
        except Exception as e:
            out.fail("quadrature:exception:%s" % type(e).__name__, "GaussHermiteQuadrature1D raised %r" % e, c)
            continue
        if tuple(got.shape) != tuple(shape):
            out.fail("quadrature:shape", "result shape %s for means of shape %s" % (tuple(got.shape), tuple(shape)), c)
            continue
        got = got.reshape(-1).tolist()
        deg = len(p) - 1
        eps = EPS32 if prec == "float32" else EPS64
        fac = 10 if prec == "float32" else 50
        lab = c["default"] if not xf else "xform:" + prec
        for j, (m, sd_j) in enumerate(zip(c["m"], c["sd"])):
            ex = model[(ci, j)]
            xs = [math.sqrt(2.0) * sd_j * t + m for t in ts]
            tol = fac * eps * cond_bound(p, xs, ws) + 1e-300
            plug = sum(Fraction(cc) * Fraction(m) ** k for k, cc in enumerate(p))
            desc = dict(fam="expect", n=n, deg=deg, default=c["default"], dist=c["dist"], shape=list(shape), kind=c["kind"], m=m, sd=sd_j)
            if xf:
                desc["xform"] = xf
                out.count("xform:" + "+".join(xf))
            if deg < 2 * n:
                # after a transformation E[1] = 1 is itself the claim (the weights must survive the cast)
                out.case(desc, abs(float(ex - plug)) > 10 * tol or bool(xf), label="expect:%s:n=%d" % (lab, n))
                out.count("expect:deg=%d" % deg)
                if not abs(got[j] - float(ex)) <= tol:
                    out.fail("quadrature:poly-exactness:%s" % lab,
                             "quadrature of a degree-%d polynomial with %d nodes differs from E_N(m,v)[p] (tol %.3e)" % (deg, n, tol),
                             dict(c, element=j), impl=got[j], model=float(ex), tol=tol)
            else:
                miss = Fraction(p[-1]) * math.factorial(n) * Fraction(sd_j) ** (2 * n)
                visible = abs(float(miss)) > 100 * tol
                out.case(desc, visible, label="expect:degree-2n:n=%d" % n)
                if visible:
                    out.count("expect:degree-2n defect visible above rounding")
                if not abs(got[j] - float(ex - miss)) <= tol:
                    out.fail("quadrature:degree-2n-defect", "degree-2n polynomial: rule should miss E[p] by exactly c_2n n! sd^2n",
                             dict(c, element=j), impl=got[j], model=float(ex - miss), tol=tol)
                if visible and abs(got[j] - float(ex)) <= tol:
                    out.fail("quadrature:degree-2n-not-sharp", "rule unexpectedly exact at degree 2n", dict(c, element=j), impl=got[j], model=float(ex))


def gen_expect(rng, tier):
    cases = []
    shapes = [(), (1,), (3,), (2, 2), (2, 1, 2)]

    def draw(n, deg, kind, default="float64", shape=None, xform=None):
        shape = rng.choice(shapes) if shape is None else shape
        cnt = int(np.prod(shape)) if shape else 1
        p = [0.0] * deg + [1.0] if kind == "monomial" else [rng.randint(-64, 64) / 16.0 for _ in range(deg)] + [rng.choice([-1, 1]) * rng.randint(1, 64) / 16.0]
        dist = rng.choice(["normal", "mvn"]) if shape else "normal"
        emin = -10 if dist == "normal" else -6            # MultivariateNormal clamps variances below settings.min_variance
        c = dict(fam="expect", n=n, default=default, dist=dist, shape=list(shape), p=p, kind=kind,
                 m=[dyadic(rng, 6, -10, 4, signed=True, zero=True) for _ in range(cnt)],
                 sd=[dyadic(rng, 6, emin, 4) for _ in range(cnt)])
        if xform:
            c["xform"] = xform
        return c
    # module transformations: build, then cast / move / copy, then integrate.  E[1] (degree 0) for every
    # transformation and every n, and a polynomial of random degree; final-float32 modules get dimensioned inputs
    # (same reason as for the float32 default dtype below)
    for n in NS:
        for k, xf in enumerate(QUAD_XFORMS):
            default = "float32" if (k + n) % 5 == 0 else "float64"
            shp = rng.choice(shapes[1:]) if (final32(default, xf) or default == "float32") else None
            cases.append(draw(n, 0, "monomial", default=default, shape=shp, xform=xf))
            if tier != "quick" or (k + n) % 2 == 0:
                cases.append(draw(n, rng.randint(1, min(2 * n - 1, 14)), rng.choice(["monomial", "random"]), default=default,
                                  shape=shp, xform=xf))
    for n in NS:
        for deg in range(2 * n):                           # every degree 0..2n-1: monomial + random polynomial
            batchy = (deg % 3 == 0) if deg < 16 else (deg % 10 == 9)      # high degrees are expensive in exact arithmetic
            cases.append(draw(n, deg, "monomial", shape=None if batchy else ()))
            cases.append(draw(n, deg, "random", shape=() if batchy else (None if deg < 16 else ())))
        for kind in ("monomial", "random"):                # degree 2n: sharpness
            cases.append(draw(n, 2 * n, kind, shape=(3,)))
        for _ in range(3 if tier == "quick" else 12):      # nodes built in the float32 default dtype
            # dimensioned float64 inputs only: with 0-dim float64 parameters torch's type promotion would run the whole
            # rule in float32 (overflow at high degree), which is not what this family is about (node rounding)
            cases.append(draw(n, rng.randint(0, 2 * n - 1), rng.choice(["monomial", "random"]), default="float32",
                              shape=rng.choice(shapes[1:])))
    for _ in range(0 if tier == "quick" else 400):
        n = rng.choice(NS + [1, 2, 4, 7, 15])
        cases.append(draw(n, rng.randint(0, 2 * n - 1), rng.choice(["monomial", "random"])))
    # the settings default (num_gauss_hermite_locs) read by the constructor
    with gs.num_gauss_hermite_locs(4):
        q = GaussHermiteQuadrature1D()
    _QUADS[(4, "float64", ())] = q
    for deg in range(9):
        cases.append(draw(4, deg, "random", shape=(2,)))
    return cases


# ----------------------------------------------------------------------------- rule

def fam_rule(out, cases, tag="C13_rule"):
    """case: dict(fam='rule', n, default, p, m=[..], s=[..]) with variance v = s^2/2 exactly (s dyadic):
    impl vs the Coq model of the formula (1/sqrt pi) sum_i w_i p(s t_i + m) on the module's own nodes."""
    coq, owner = [], []
    for ci, c in enumerate(cases):
        # the model is given the nodes the module MUST have (casts of hermgauss), not the ones it happens to hold
        ts, ws = (x.double().tolist() for x in expected_nodes(c["n"], c["default"], c.get("xform"))[:2])
        for j, (m, s) in enumerate(zip(c["m"], c["s"])):
            coq.append("(%s, %s, %s, %s, %s)" % (C.qc_vec(ts), C.qc_vec(ws), C.qc_lit(s), C.qc_lit(m), C.qc_vec(c["p"])))
            owner.append((ci, j))
    res = coq_run(tag, "run_rule_poly", coq, files=8, strings=True)
    model = {o: C.Reader(r).expr() for o, r in zip(owner, res)}
    for ci, c in enumerate(cases):
        q = get_quad(c["n"], c["default"], c.get("xform"))
        check_nodes(out, q, c["n"], c["default"], c.get("xform"), c)
        ts, ws = (x.double().tolist() for x in expected_nodes(c["n"], c["default"], c.get("xform"))[:2])
        mean = torch.tensor(c["m"], dtype=torch.float64)
        var = torch.tensor([s * s / 2 for s in c["s"]], dtype=torch.float64)
        got = q(horner(c["p"]), make_dist("mvn", mean, var=var)).tolist()
        for j, (m, s) in enumerate(zip(c["m"], c["s"])):
            tol = 50 * EPS64 * cond_bound(c["p"], [s * t + m for t in ts], ws) + 1e-300
            out.case(dict(fam="rule", n=c["n"], deg=len(c["p"]) - 1, default=c["default"], m=m, s=s, xform=c.get("xform")),
                     len(c["p"]) >= 2 or bool(c.get("xform")), label="rule:%s:n=%d" % (c["default"], c["n"]))
            if not abs(got[j] - float(model[(ci, j)])) <= tol:
                out.fail("quadrature:rule-formula:%s" % c["default"],
                         "module output differs from (1/sqrt pi) sum_i w_i p(sqrt(2v) t_i + m) on its own nodes (tol %.3e)" % tol,
                         dict(c, element=j), impl=got[j], model=float(model[(ci, j)]), tol=tol)


def gen_rule(rng, tier):
    cases = []
    for n in NS:
        for default in ("float64", "float32"):
            for _ in range(3 if tier == "quick" else 10):
                deg = rng.randint(0, min(2 * n + 2, 12 if tier == "quick" else 20))
                cases.append(dict(fam="rule", n=n, default=default, p=[rng.randint(-64, 64) / 16.0 for _ in range(deg + 1)],
                                  m=[dyadic(rng, 6, -8, 3, signed=True, zero=True) for _ in range(2)],
                                  s=[dyadic(rng, 6, -4, 3) for _ in range(2)]))
        for _ in range(3 if tier == "quick" else 10):     # built, then cast / moved / copied
            deg = rng.randint(0, min(2 * n + 2, 10))
            cases.append(dict(fam="rule", n=n, default=rng.choice(["float64", "float64", "float32"]), xform=rng.choice(QUAD_XFORMS),
                              p=[rng.randint(-64, 64) / 16.0 for _ in range(deg + 1)],
                              m=[dyadic(rng, 6, -8, 3, signed=True, zero=True) for _ in range(2)],
                              s=[dyadic(rng, 6, -4, 3) for _ in range(2)]))
    return cases


# ----------------------------------------------------------------------------- likelihood construction

def beta_documented_offset():
    """the documented Beta parametrisation, read from the class docstring: 0 for alpha = ms, beta = (1-m)s;
    1 for alpha = ms + 1, beta = (1-m)s + 1.  Unrecognised text -> the pinned documentation (0)."""
    doc = gpytorch.likelihoods.BetaLikelihood.__doc__ or ""
    m = re.search(r"\\alpha\s*=\s*ms\s*(\+\s*1)?\s*,\s*\\quad\s*\\beta\s*=\s*\(1\s*-\s*m\)\s*s\s*(\+\s*1)?", doc)
    if m and m.group(1) and m.group(2):
        return 1
    return 0


PAR_NAMES = {"laplace": ["noise"], "student": ["noise", "nu"], "beta": ["scale"], "bern": []}
ATTR = {"noise": "noise", "nu": "deg_free", "scale": "scale"}
CTOR_KW = {"noise": "noise_constraint", "nu": "deg_free_constraint", "scale": "scale_constraint"}
ROUTES = ["setter", "initialize", "initialize-float", "setter-each"]
STUDENT_DEFAULT_NU = 7.0        # StudentTLikelihood.__init__ ends with self.initialize(deg_free=7)


class LikBuildError(Exception):
    """constructing a likelihood / setting its parameters raised (reported by make_lik; the case is skipped)"""


def mk_constraint(spec):
    if spec is None:
        return None
    if spec[0] == "gt":
        return gpytorch.constraints.GreaterThan(spec[1])
    return gpytorch.constraints.Interval(spec[1], spec[2])


def through32(xform):
    return any(a in ("float", "to32") for a in xform or [])


def make_lik(kind, par, n=None, B=None, xform=None, out=None, case=None):
    """par: dict of requested values (lists of length B when batched) + optional "route" (how the values are SET:
    attribute setter / initialize(name=tensor) / initialize(name=float) (unbatched) / "setter-noise-only" (Student-t:
    deg_free is left at the constructor's own initialize(deg_free=7))) + optional "cons" (name -> constraint spec passed to the constructor);
    xform: transformations applied to the built likelihood (parameters set first).
    Returns (lik, ref): ref = the parameter values that were SET (what the documented conditional must use).  The
    values read back through the public properties AFTER the transformations are compared with the set values here
    (failure keys <kind>:param-readback:<name>); only when the module went through float32 (raw parameter rounded)
    the read-back values - within 2e-5 of the set ones - are returned instead."""
    bs = torch.Size([B]) if B else torch.Size([])
    L = gpytorch.likelihoods
    route = par.get("route", "setter")
    cons = par.get("cons") or {}
    names = PAR_NAMES[kind]

    def shp(v):
        return torch.tensor(v, dtype=torch.float64).reshape(*bs, 1)

    def build(setpar=True):
        kw = {CTOR_KW[k]: mk_constraint(cons.get(k)) for k in names if cons.get(k) is not None}
        with (gs.num_gauss_hermite_locs(n) if n else contextlib.nullcontext()):
            if kind == "bern":
                lik = L.BernoulliLikelihood()
            elif kind == "laplace":
                lik = L.LaplaceLikelihood(batch_shape=bs, **kw)
            elif kind == "student":
                lik = L.StudentTLikelihood(batch_shape=bs, **kw)
            else:
                lik = L.BetaLikelihood(batch_shape=bs, **kw)
        if setpar:
            order = names if route != "setter-each" else list(reversed(names))
            if route in ("setter", "setter-each"):
                for k in order:
                    setattr(lik, ATTR[k], shp(par[k]))
            elif route == "setter-noise-only":       # deg_free left at the constructor's initialize(deg_free=7)
                lik.noise = shp(par["noise"])
            elif route == "initialize":
                lik.initialize(**{ATTR[k]: shp(par[k]) for k in names})
            elif route == "initialize-float":        # python floats (unbatched only)
                lik.initialize(**{ATTR[k]: float(par[k]) for k in names})
            else:
                raise ValueError("unknown route %r" % route)
        return lik
    try:
        lik = apply_xform(build(), xform, lambda: build(False))
    except Exception as e:      # noqa: BLE001 -- an in-bounds value must be accepted by every public route
        if out is None:
            raise
        out.fail("%s:param-set:exception:%s:%s" % (kind, route, type(e).__name__),
                 "%s likelihood: setting %s through %s (constraints %s%s) raised %s: %s" %
                 (kind, {k: par[k] for k in names}, route, cons or "default", ", then %s" % xform if xform else "",
                  type(e).__name__, str(e)[:300]), case)
        raise LikBuildError(str(e))
    k_ = B or 1
    ref = {}
    for k in names:
        want = par[k] if isinstance(par[k], list) else [par[k]] * k_
        ref[k] = [float(x) for x in want]
        try:
            got = getattr(lik, ATTR[k]).double().reshape(-1).tolist()
        except Exception as e:
            if out is not None:
                out.fail("%s:param-readback:%s:exception:%s" % (kind, k, type(e).__name__), "reading %s raised %r" % (ATTR[k], e), case)
            continue
        if len(got) == 1 and k_ > 1:
            got = got * k_
        tol = 2e-5 if through32(xform) else 1e-10
        bad = len(got) != k_ or any(not abs(g - w) <= tol * (1 + abs(w)) for g, w in zip(got, ref[k]))
        if out is not None:
            out.count("param-set:%s:%s:%s:%s" % (kind, k, route, "default-constraint" if cons.get(k) is None else cons[k][0]))
            if bad:
                out.fail("%s:param-readback:%s:%s" % (kind, k, route),
                         "%s likelihood: %s set to %s through %s (constraints %s%s) reads back as %s" %
                         (kind, ATTR[k], ref[k], route, cons or "default", ", then %s" % xform if xform else "", got), case,
                         impl=got, model=ref[k])
        if through32(xform) and not bad:
            ref[k] = got
    return lik, ref


def lik_nodes(out, lik, n, xform, case):
    """(ts, ws) the likelihood's quadrature MUST hold (checked): hermgauss(n or the setting's default) through xform"""
    nn = n or gs.num_gauss_hermite_locs.value()
    q = getattr(lik, "quadrature", None)
    if q is not None:
        check_nodes(out, q, nn, "float64", xform, case, who="likelihood")
    t, w, _ = expected_nodes(nn, "float64", xform)
    return t.double().tolist(), w.double().tolist()


CONS_CHOICES = {
    # non-default constraints, all containing the value ranges drawn below and pairwise different (a setter that uses
    # the other parameter's constraint, or the default one, realises a different value)
    "noise": [None, ["gt", 0.01], ["iv", 0.01, 8.0], ["gt", 0.001]],
    "nu": [None, ["gt", 1.0], ["iv", 2.0, 40.0], ["gt", 2.125]],
    "scale": [None, ["gt", 0.1], ["iv", 0.05, 25.0]],
}


def draw_par(rng, kind, B, plain=False):
    """values to SET + how they are set (route) + constructor constraints.  plain=True: setter, default constraints"""
    k = B or 1

    def lst(f):
        v = [f() for _ in range(k)]
        return v if B else v[0]
    if kind == "laplace":
        par = dict(noise=lst(lambda: rng.uniform(0.05, 3.0)))
    elif kind == "student":
        par = dict(noise=lst(lambda: rng.uniform(0.05, 3.0)), nu=lst(lambda: rng.uniform(2.2, 12.0)))
    elif kind == "beta":
        par = dict(scale=lst(lambda: rng.uniform(0.3, 8.0)))
    else:
        return {}
    if plain:
        return par
    par["route"] = rng.choice(ROUTES if not B else [r for r in ROUTES if r != "initialize-float"])
    cons = {name: rng.choice(CONS_CHOICES[name]) for name in PAR_NAMES[kind]}
    if kind == "student" and cons["noise"] == cons["nu"]:
        cons["nu"] = ["iv", 2.0, 40.0]
    if any(v is not None for v in cons.values()):
        par["cons"] = cons
    if kind == "student" and rng.random() < 0.15:
        # the constructor's own initialisation (self.initialize(deg_free=7) under the default GreaterThan(2)); the noise
        # is then whatever raw 0 means and is not pinned by the documentation: set it
        par = dict(noise=par["noise"], nu=[STUDENT_DEFAULT_NU] * k if B else STUDENT_DEFAULT_NU, route="setter-noise-only")
    return par


def par_args(kind, real, b, off):
    """model argument prefix (before y / f) for batch element b"""
    if kind == "bern":
        return []
    if kind == "laplace":
        return [real["noise"][b]]
    if kind == "student":
        return [real["nu"][b], real["noise"][b]]
    return [off, real["scale"][b]]


def logp_mp(kind, a, y, f):
    """python/mpmath copy of the documented log-density (used only as the integrand of mpmath.quad; tied to the
    Coq expr formulas in fam_cond)"""
    y, f = mp.mpf(y), mp.mpf(f)
    if kind == "bern":
        return mp.log(mp.ncdf((2 * y - 1) * f))
    if kind == "laplace":
        b = mp.sqrt(mp.mpf(a[0]))
        return -mp.log(2 * b) - abs(y - f) / b
    if kind == "student":
        nu, sc = mp.mpf(a[0]), mp.sqrt(mp.mpf(a[1]))
        z = (y - f) / sc
        return mp.loggamma((nu + 1) / 2) - mp.loggamma(nu / 2) - mp.log(nu * mp.pi) / 2 - mp.log(sc) - (nu + 1) / 2 * mp.log(1 + z * z / nu)
    off, s = mp.mpf(a[0]), mp.mpf(a[1])
    mix = 1 / (1 + mp.exp(-f))
    al, be = mix * s + off, (1 - mix) * s + off
    return (al - 1) * mp.log(y) + (be - 1) * mp.log(1 - y) - (mp.loggamma(al) + mp.loggamma(be) - mp.loggamma(al + be))


def draw_y(rng, kind):
    if kind == "bern":
        return float(rng.randint(0, 1))
    if kind == "beta":
        return rng.randint(1, 63) / 64.0
    return rng.randint(-48, 48) / 16.0


# ----------------------------------------------------------------------------- cond

def fam_cond(out, cases, tag="C13_cond"):
    """case: dict(fam='cond', kind, par, B, N, f=[[..N]..rows], y=[[..]])  rows = B or 1.
    impl: lik(f) (conditional distribution): public parameters and log_prob(y); model: documented formulas."""
    off_doc = beta_documented_offset()
    coq, owner, liks = [], [], []
    built = []
    for c in cases:
        try:
            built.append((c,) + make_lik(c["kind"], c["par"], B=c["B"], xform=c.get("xform"), out=out, case=c))
        except LikBuildError:
            out.case(dict(fam="cond", kind=c["kind"], par=c["par"], what="construction failed"), True, label="cond:%s" % c["kind"])
    cases = [b_[0] for b_ in built]
    for ci, c in enumerate(cases):
        lik, real = built[ci][1:]
        liks.append((lik, real))
        kind = c["kind"]
        for b, (frow, yrow) in enumerate(zip(c["f"], c["y"])):
            for i, (f, y) in enumerate(zip(frow, yrow)):
                for off in ((off_doc, 1 - off_doc) if kind == "beta" else (0,)):
                    a = par_args(kind, real, b, off)
                    if kind == "bern":
                        coq.append("(1, %s)" % C.qc_vec([f]))
                    elif kind == "laplace":
                        coq.append("(7, %s)" % C.qc_vec(a))
                    elif kind == "student":
                        coq.append("(9, %s)" % C.qc_vec([a[1]]))
                    else:
                        coq.append("(11, %s)" % C.qc_vec(a + [f]))
                    owner.append((ci, b, i, off, "par"))
                    coq.append("(%d, %s)" % (KTAG[kind], C.qc_vec(a + [y, f])))
                    owner.append((ci, b, i, off, "logp"))
    res = coq_run(tag, "run_formula", coq, files=4)
    model = {}
    for o, r in zip(owner, res):
        rd = C.Reader(r)
        model[o] = [rd.expr(), rd.expr()] if (o[4] == "par" and cases[o[0]]["kind"] == "beta") else [rd.expr()]
    for ci, c in enumerate(cases):
        kind, (lik, real) = c["kind"], liks[ci]
        B, N = c["B"], c["N"]
        ft = torch.tensor(c["f"], dtype=torch.float64).reshape((B, N) if B else (N,))
        yt = torch.tensor(c["y"], dtype=torch.float64).reshape((B, N) if B else (N,))
        try:
            d = lik(ft)
            lp = d.log_prob(yt)
            if kind == "bern":
                pars = dict(probs=d.probs)
            elif kind == "laplace":
                pars = dict(loc=d.loc, scale=d.scale)
            elif kind == "student":
                pars = dict(loc=d.loc, scale=d.scale, df=d.df)
            else:
                pars = dict(alpha=d.concentration1, beta=d.concentration0)
            pars = {k: v.expand(ft.shape).reshape(len(c["f"]), N).tolist() for k, v in pars.items()}
            lp = lp.reshape(len(c["f"]), N).tolist()
        except Exception as e:
            out.fail("%s:forward:exception:%s" % (kind, type(e).__name__), "likelihood(f) raised %r" % e, c)
            continue
        for b in range(len(c["f"])):
            for i in range(N):
                f, y = c["f"][b][i], c["y"][b][i]
                desc = dict(fam="cond", kind=kind, B=B, N=N, f=f, y=y, par={k: v[b] for k, v in real.items()}, xform=c.get("xform"))
                out.case(desc, True, label="cond:%s" % kind)
                a_doc = par_args(kind, real, b, off_doc)
                # tie of the python integrand oracle to the Coq formula
                lm = model[(ci, b, i, off_doc if kind == "beta" else 0, "logp")][0]
                if abs(logp_mp(kind, a_doc, y, f) - lm) > mp.mpf(10) ** -30 * (1 + abs(lm)):
                    out.fail("harness:oracle-tie:%s" % kind, "mpmath integrand differs from the Coq formula", dict(c, b=b, i=i),
                             impl=mp.nstr(logp_mp(kind, a_doc, y, f), 30), model=mp.nstr(lm, 30))

                def chk(name, impl, mod, key):
                    if not abs(impl - float(mod)) <= 1e-11 * (1 + abs(float(mod))):
                        out.fail(key, "%s of %s conditional distribution differs from the documented formula" % (name, kind),
                                 dict(c, b=b, i=i), impl=impl, model=float(mod))
                        return False
                    return True
                if kind == "bern":
                    chk("probs", pars["probs"][b][i], model[(ci, b, i, 0, "par")][0], "bernoulli:forward:probs")
                    pr = float(mp.ncdf(f)) if y == 1 else float(mp.ncdf(-f))
                    if pr > 1e-12:          # torch clamps Bernoulli probs to [eps, 1-eps] in log_prob; rounding of
                        # probs (one ulp of 1.0) moves log P(y) by eps / P(y)
                        if not abs(lp[b][i] - float(lm)) <= 1e-11 * (1 + abs(float(lm))) + 4 * EPS64 / pr:
                            out.fail("bernoulli:forward:log_prob", "log_prob of the Bernoulli conditional differs from log Phi((2y-1) f)",
                                     dict(c, b=b, i=i), impl=lp[b][i], model=float(lm))
                elif kind in ("laplace", "student"):
                    chk("loc", pars["loc"][b][i], f, "%s:forward:loc" % kind)
                    chk("scale", pars["scale"][b][i], model[(ci, b, i, 0, "par")][0], "%s:forward:scale" % kind)
                    if kind == "student":
                        chk("df", pars["df"][b][i], real["nu"][b], "student:forward:df")
                    chk("log_prob", lp[b][i], lm, "%s:forward:log_prob" % kind)
                else:
                    ma, mb = model[(ci, b, i, off_doc, "par")]
                    ok = abs(pars["alpha"][b][i] - float(ma)) <= 1e-11 * (1 + float(ma)) and abs(pars["beta"][b][i] - float(mb)) <= 1e-11 * (1 + float(mb))
                    if not ok:
                        oa, ob = model[(ci, b, i, 1 - off_doc, "par")]
                        other = abs(pars["alpha"][b][i] - float(oa)) <= 1e-11 * (1 + float(oa)) and abs(pars["beta"][b][i] - float(ob)) <= 1e-11 * (1 + float(ob))
                        key = "beta:forward:alpha-beta-plus-one" if (other and off_doc == 0) else "beta:forward:params"
                        out.fail(key, "Beta conditional has (alpha, beta) = (%.6g, %.6g); documented (m s, (1-m) s) = (%.6g, %.6g) for "
                                 "f=%.4g, s=%.6g" % (pars["alpha"][b][i], pars["beta"][b][i], float(ma), float(mb), f, real["scale"][b]),
                                 dict(c, b=b, i=i), impl=[pars["alpha"][b][i], pars["beta"][b][i]], model=[float(ma), float(mb)])
                        lm_o = model[(ci, b, i, 1 - off_doc, "logp")][0]
                        if not abs(lp[b][i] - float(lm_o)) <= 1e-10 * (1 + abs(float(lm_o))):
                            out.fail("beta:forward:log_prob", "Beta log_prob matches neither parametrisation", dict(c, b=b, i=i),
                                     impl=lp[b][i], model=float(lm_o))
                    else:
                        chk("log_prob", lp[b][i], lm, "beta:forward:log_prob")


def gen_cond(rng, tier):
    cases = []
    for kind in KINDS:
        for _ in range(6 if tier == "quick" else 40):
            B = rng.choice([None, None, 2, 3])
            N = rng.randint(1, 4)
            rows = B or 1
            cases.append(dict(fam="cond", kind=kind, par=draw_par(rng, kind, B), B=B, N=N,
                              f=[[rng.randint(-96, 96) / 16.0 for _ in range(N)] for _ in range(rows)],
                              y=[[draw_y(rng, kind) for _ in range(N)] for _ in range(rows)]))
            if rng.random() < 0.5:
                cases[-1]["xform"] = rng.choice(LIK_XFORMS)
    return cases


def fam_softmax(out, cases, tag="C13_softmax"):
    """case: dict(fam='softmax', W=None|rows, f=[[..features]..data])"""
    coq = []
    for c in cases:
        W = "(@None (list (list Qc)))" if c["W"] is None else "(Some %s)" % C.qc_mat(c["W"])
        for row in c["f"]:
            coq.append("(%s, %s)" % (W, C.qc_vec(row)))
    res = coq_run(tag, "run_softmax", coq, files=2)
    k = 0
    for c in cases:
        ncls = len(c["W"]) if c["W"] is not None else len(c["f"][0])
        nfeat = len(c["f"][0])
        lik = gpytorch.likelihoods.SoftmaxLikelihood(num_features=nfeat, num_classes=ncls, mixing_weights=c["W"] is not None)
        if c["W"] is not None:
            Wt = torch.tensor(c["W"], dtype=torch.float64)
            if c.get("route") == "initialize":
                lik.initialize(mixing_weights=Wt)
            else:
                lik.mixing_weights.data = Wt
            lik = apply_xform(lik, c.get("xform"), None)
            back = lik.mixing_weights.detach().double()
            if back.shape != Wt.shape or not torch.equal(back, Wt):
                out.fail("softmax:param-readback:mixing_weights", "mixing weights set through %s read back differently" % c.get("route", "data"),
                         c, impl=back.tolist(), model=c["W"])
        ft = torch.tensor(c["f"], dtype=torch.float64)
        if c.get("lead"):
            ft = ft.unsqueeze(0).expand(c["lead"], *ft.shape)
        probs = lik(ft).probs
        if c.get("lead"):
            probs = probs[c["lead"] - 1]
        probs = probs.tolist()
        for i, row in enumerate(c["f"]):
            rd = C.Reader(res[k]); k += 1
            mod = [float(rd.expr()) for _ in range(ncls)]
            out.case(dict(fam="softmax", mixing=c["W"] is not None, ndata=len(c["f"]), nfeat=nfeat, ncls=ncls, i=i), True, label="cond:softmax")
            if max(abs(a - b) for a, b in zip(probs[i], mod)) > 1e-12:
                out.fail("softmax:forward:probs", "Categorical probs differ from softmax(W f)", dict(c, i=i), impl=probs[i], model=mod)


def gen_softmax(rng, tier):
    cases = []
    for _ in range(8 if tier == "quick" else 60):
        nfeat, ncls = rng.randint(1, 4), rng.randint(2, 4)
        mixing = rng.random() < 0.6
        if not mixing:
            nfeat = ncls
        ndata = rng.choice([k for k in (1, 2, 3, 5) if k != nfeat])     # ndata == nfeat is the deprecated transposed layout
        cases.append(dict(fam="softmax", W=[[rng.randint(-32, 32) / 16.0 for _ in range(nfeat)] for _ in range(ncls)] if mixing else None,
                          f=[[rng.randint(-64, 64) / 16.0 for _ in range(nfeat)] for _ in range(ndata)], lead=rng.choice([0, 0, 2])))
        if mixing:      # how the weights are set (dyadic values: exact in float32 too), then cast / copied
            cases[-1]["route"] = rng.choice(["data", "initialize"])
            cases[-1]["xform"] = rng.choice([None, ["double"], ["deepcopy"], ["pickle"], ["float", "double"]])
    return cases


# ----------------------------------------------------------------------------- lik (rule applied to documented density)

def fam_lik(out, cases, tag="C13_lik"):
    """case: dict(fam='lik', kind, fn='elp'|'lm', n, par, B, N, m=[[..]], s=[[..]], y=[[..]]); variance = s^2/2.
    impl: likelihood.expected_log_prob / log_marginal ; model: gh rule (module's own nodes) on the documented
    log-density / density, evaluated as an expr with mpmath."""
    off_doc = beta_documented_offset()
    coq, owner, liks = [], [], []
    built = []
    for c in cases:
        try:
            built.append((c,) + make_lik(c["kind"], c["par"], n=c["n"], B=c["B"], xform=c.get("xform"), out=out, case=c))
        except LikBuildError:
            out.case(dict(fam="lik", kind=c["kind"], par=c["par"], what="construction failed"), True, label="lik:%s:%s:build" % (c["kind"], c["fn"]))
    cases = [b_[0] for b_ in built]
    for ci, c in enumerate(cases):
        lik, real = built[ci][1:]
        liks.append((lik, real))
        nown = lik.quadrature.locations.numel()
        if c["n"] and nown != c["n"]:
            out.fail("likelihood:num_gauss_hermite_locs", "likelihood built under num_gauss_hermite_locs(%d) has %d nodes" % (c["n"], nown), c)
        # the model integrates over the nodes the likelihood MUST hold after the transformations (checked here)
        ts, ws = lik_nodes(out, lik, c["n"], c.get("xform"), c)
        for b in range(len(c["m"])):
            for i in range(c["N"]):
                for off in ((off_doc, 1 - off_doc) if c["kind"] == "beta" else (0,)):
                    a = par_args(c["kind"], real, b, off) + [c["y"][b][i]]
                    coq.append("(%d, %s, %s, %s, %s, %s, %s)" % (KTAG[c["kind"]], "true" if c["fn"] == "elp" else "false", C.qc_vec(a),
                                                              C.qc_vec(ts), C.qc_vec(ws), C.qc_lit(c["s"][b][i]), C.qc_lit(c["m"][b][i])))
                    owner.append((ci, b, i, off))
    res = coq_run(tag, "run_rule_lik", coq, files=12)
    model = {o: safe_expr(r) for o, r in zip(owner, res)}
    for ci, c in enumerate(cases):
        kind, (lik, real) = c["kind"], liks[ci]
        B, N = c["B"], c["N"]
        shape = (B, N) if B else (N,)
        mean = torch.tensor(c["m"], dtype=torch.float64).reshape(shape)
        var = torch.tensor([[s * s / 2 for s in row] for row in c["s"]], dtype=torch.float64).reshape(shape)
        yt = torch.tensor(c["y"], dtype=torch.float64).reshape(shape)
        dist = make_dist("mvn", mean, var=var)
        try:
            got = (lik.expected_log_prob(yt, dist) if c["fn"] == "elp" else lik.log_marginal(yt, dist))
            got = got.reshape(len(c["m"]), N).tolist()
        except Exception as e:
            out.fail("%s:%s:exception:%s" % (kind, c["fn"], type(e).__name__), "likelihood.%s raised %r" % (c["fn"], e), c)
            continue
        ts, _ = (x.double().tolist() for x in expected_nodes(c["n"] or gs.num_gauss_hermite_locs.value(), "float64", c.get("xform"))[:2])
        fname = "expected_log_prob" if c["fn"] == "elp" else "log_marginal"
        for b in range(len(c["m"])):
            for i in range(N):
                m, s, y = c["m"][b][i], c["s"][b][i], c["y"][b][i]
                mod = model[(ci, b, i, off_doc if kind == "beta" else 0)]
                tol = 1e-9 * (1 + abs(float(mod)))
                branch = "exact"
                if kind == "bern" and c["fn"] == "elp" and any((2 * y - 1) * (s * t + m) < -1 + 1e-9 for t in ts):
                    tol, branch = 2e-3, "approx"        # log_normal_cdf is only claimed to 2e-3 below -1
                if c.get("tail"):
                    branch += ":far-tail"
                    out.count("lik:far-tail:%s:%s:log-value in [%d00, %d00)" % (kind, c["fn"], math.floor(float(mod) / 100), math.floor(float(mod) / 100) + 1))
                desc = dict(fam="lik", kind=kind, fn=c["fn"], n=len(ts), B=B, m=m, s=s, y=y, par={k: v[b] for k, v in real.items()})
                if c.get("xform"):
                    desc["xform"] = c["xform"]
                    out.count("xform:" + "+".join(c["xform"]))
                out.case(desc, True, label="lik:%s:%s:%s" % (kind, c["fn"], branch))
                out.count("lik:n=%d" % len(ts))
                if c["fn"] == "lm" and float(mod) < -690:
                    # the marginal density is below float64's normal range (1e-300): only "far down" can be asked for
                    out.count("lik:far-tail:below-float-range")
                    if not got[b][i] <= -650:
                        out.fail("%s:%s:far-tail-saturates" % (kind, fname), "%s of %s likelihood is %r where the rule applied to the "
                                 "documented density gives %.6g" % (fname, kind, got[b][i], float(mod)), dict(c, b=b, i=i),
                                 impl=got[b][i], model=float(mod))
                    continue
                if not abs(got[b][i] - float(mod)) <= tol:
                    key = "%s:%s" % ({"bern": "bernoulli"}.get(kind, kind), fname)
                    if kind == "beta" and off_doc == 0:
                        oth = model[(ci, b, i, 1)]
                        if abs(got[b][i] - float(oth)) <= 1e-9 * (1 + abs(float(oth))):
                            key += ":alpha-beta-plus-one"
                    out.fail(key, "%s of %s likelihood differs from the %d-node rule applied to the documented density (tol %.1e)"
                             % (fname, kind, len(ts), tol), dict(c, b=b, i=i), impl=got[b][i], model=float(mod), tol=tol)


def tail_case(rng, kind, fn, n):
    """an observation in the FAR tail of the marginal: |y - m| of 30..600 Laplace scale units, 1e5..1e21 Student-t
    scale units, y within 2^-30..2^-100 of 0 (2^-30..2^-50 of 1) for Beta, |m| of 8..35 function standard deviations on the wrong
    side for Bernoulli - marginal densities down to ~1e-280, log-likelihood terms down to ~-650"""
    N = rng.randint(1, 2)
    par = draw_par(rng, kind, None)
    m = [rng.randint(-48, 48) / 16.0 for _ in range(N)]
    s = [dyadic(rng, 5, -5, -2) * 2 for _ in range(N)]
    y = []
    for j in range(N):
        sgn = rng.choice([-1, 1])
        if kind == "laplace":
            u = math.exp(rng.uniform(math.log(30.0), math.log(600.0)))
            y.append(round((m[j] + sgn * u * math.sqrt(par["noise"])) * 16) / 16.0)
        elif kind == "student":
            u = 10.0 ** rng.uniform(5.0, 21.0)
            y.append(float(round((m[j] + sgn * u * math.sqrt(par["noise"])) * 16) / 16.0))
        elif kind == "beta":
            y.append(2.0 ** -rng.randint(30, 100) if sgn < 0 else 1.0 - 2.0 ** -rng.randint(30, 50))
        else:
            y.append(float(rng.randint(0, 1)))
            m[j] = -(2 * y[j] - 1) * rng.randint(8 * 16, 35 * 16) / 16.0
            s[j] = rng.randint(1, 8) / 64.0
    return dict(fam="lik", kind=kind, fn=fn, n=n, par=par, B=None, N=N, m=[m], s=[s], y=[y], tail=True)


def gen_lik(rng, tier):
    cases = []
    quick = tier == "quick"
    per = 1 if quick else 6
    for kind in KINDS:
        for fn in (("elp",) if kind == "bern" else ("elp", "lm")):
            # the printed expr has one documented log-density per node (the Beta one is ~120 tokens): the quick tier
            # covers every n for expected_log_prob and a subset for log_marginal / Beta
            ns = NS + [None]
            if quick and (fn == "lm" or kind == "beta"):
                ns = [3, 10, None] if fn == "elp" else [5, None]
            for n in ns:
                for _ in range(per):
                    B = rng.choice([None, None, 2]) if (not quick or (n or 20) <= 10) else None
                    N = rng.randint(1, 3) if (not quick or (n or 20) <= 10) else 1
                    rows = B or 1
                    cases.append(dict(fam="lik", kind=kind, fn=fn, n=n, par=draw_par(rng, kind, B), B=B, N=N,
                                      m=[[rng.randint(-48, 48) / 16.0 for _ in range(N)] for _ in range(rows)],
                                      s=[[dyadic(rng, 5, -5, -2) * 2 for _ in range(N)] for _ in range(rows)],
                                      y=[[draw_y(rng, kind) for _ in range(N)] for _ in range(rows)]))
        if kind == "bern":                                  # all nodes in the exact branches of log_normal_cdf: tight
            for n in NS:
                for _ in range(per):
                    y = float(rng.randint(0, 1))
                    sgn = 2 * y - 1
                    cases.append(dict(fam="lik", kind=kind, fn="elp", n=n, par={}, B=None, N=2,
                                      m=[[sgn * rng.randint(16, 64) / 16.0 for _ in range(2)]],
                                      s=[[rng.randint(1, 8) / 64.0 for _ in range(2)]], y=[[y, y]]))
    for c in cases:                                         # built, then cast / moved / copied, then evaluated
        if rng.random() < 0.5:
            c["xform"] = rng.choice(LIK_XFORMS)
    # far-tail observations, every likelihood, both functions
    for kind in KINDS:
        for fn in (("elp",) if kind == "bern" else ("elp", "lm")):
            for n in ([5, None] if quick else [3, 5, 10, 20, None]):
                for _ in range(2 if quick else 6):
                    cases.append(tail_case(rng, kind, fn, n))
                    if rng.random() < 0.3:
                        cases[-1]["xform"] = rng.choice(LIK_XFORMS)
    return cases


# ----------------------------------------------------------------------------- bern (analytic marginal)

def fam_bern(out, cases, tag="C13_bern"):
    """case: dict(fam='bern', m=[..], v=[..], y=[..], shape)"""
    coq, owner = [], []
    for ci, c in enumerate(cases):
        for j, (m, v, y) in enumerate(zip(c["m"], c["v"], c["y"])):
            coq.append("(3, %s)" % C.qc_vec([m, v])); owner.append((ci, j, "p"))
            coq.append("(4, %s)" % C.qc_vec([y, m, v])); owner.append((ci, j, "lm"))
    res = coq_run(tag, "run_formula", coq, files=4)
    model = {o: C.Reader(r).expr() for o, r in zip(owner, res)}
    for ci, c in enumerate(cases):
        lik, _ = make_lik("bern", {}, xform=c.get("xform"))
        lik_nodes(out, lik, None, c.get("xform"), c)
        shape = tuple(c["shape"])
        mean, var, yt = reshape(c["m"], shape), reshape(c["v"], shape), reshape(c["y"], shape)
        dist = make_dist("mvn", mean, var=var)
        probs = lik(dist).probs.reshape(-1).tolist()
        lm = lik.log_marginal(yt, dist).reshape(-1).tolist()
        for j, (m, v, y) in enumerate(zip(c["m"], c["v"], c["y"])):
            mp_, ml = model[(ci, j, "p")], model[(ci, j, "lm")]
            out.case(dict(fam="bern", m=m, v=v, y=y, shape=list(shape), xform=c.get("xform")), True, label="bern:marginal")
            if not abs(probs[j] - float(mp_)) <= 1e-13 + 1e-12 * float(mp_):
                out.fail("bernoulli:marginal:probs", "likelihood(dist).probs differs from Phi(m / sqrt(1+v))", dict(c, element=j),
                         impl=probs[j], model=float(mp_))
            pr = float(mp.exp(ml))
            if pr > 1e-12:           # torch's Bernoulli clamps probs to [eps, 1-eps] in log_prob; rounding of probs
                # (one ulp of 1.0) moves log P(y) by eps / P(y)
                if not abs(lm[j] - float(ml)) <= 1e-10 * (1 + abs(float(ml))) + 4 * EPS64 / pr:
                    out.fail("bernoulli:log_marginal", "log_marginal differs from log Phi((2y-1) m / sqrt(1+v))", dict(c, element=j),
                             impl=lm[j], model=float(ml))
            if c.get("quad") and j == 0:
                sd = mp.sqrt(mp.mpf(v))
                mm = mp.mpf(m)
                pts = sorted({mm + k * sd for k in (-14, -5, -1.5, 0, 1.5, 5, 14)} | ({mp.mpf(0)} if abs(mm) < 14 * sd else set()))
                integ = mp.quad(lambda f: mp.ncdf(f) * mp.npdf(f, mm, sd), pts)
                out.case(dict(fam="bern", m=m, v=v, what="Phi(m/sqrt(1+v)) vs adaptive integration"), True, label="bern:marginal-vs-quad")
                if abs(integ - mp_) > 1e-15:
                    out.fail("bernoulli:marginal:identity", "Phi(m/sqrt(1+v)) differs from int Phi(f) N(f; m, v) df", dict(c, element=j),
                             impl=mp.nstr(mp_, 20), model=mp.nstr(integ, 20))


def gen_bern(rng, tier):
    cases = []
    for k in range(40 if tier == "quick" else 300):
        shape = rng.choice([(1,), (3,), (2, 2), (2, 1, 2)])
        cnt = int(np.prod(shape))
        cases.append(dict(fam="bern", shape=list(shape), quad=(k % 2 == 0),
                          m=[dyadic(rng, 6, -10, 1, signed=True, zero=True) for _ in range(cnt)],
                          v=[dyadic(rng, 6, -9, 3) for _ in range(cnt)], y=[float(rng.randint(0, 1)) for _ in range(cnt)]))
        if k % 3 == 0:
            cases[-1]["xform"] = rng.choice(LIK_XFORMS)
    return cases


# ----------------------------------------------------------------------------- logphi sweep (test)

def branch_of(z):
    return "small(z<-1)" if z < -1 else ("near0(z^2<0.04)" if z * z < 0.04 else "ordinary")


def fam_logphi(out, cases, tag="C13_logphi"):
    """case: dict(fam='logphi', z=[...])"""
    from gpytorch.functions import log_normal_cdf
    coq, owner = [], []
    for ci, c in enumerate(cases):
        for j, z in enumerate(c["z"]):
            coq.append("(5, %s)" % C.qc_vec([z])); owner.append((ci, j, "v"))
            coq.append("(6, %s)" % C.qc_vec([z])); owner.append((ci, j, "g"))
    res = coq_run(tag, "run_formula", coq, files=(4 if len(coq) < 4000 else 16))
    model = {o: C.Reader(r).expr() for o, r in zip(owner, res)}
    worst = {}
    for ci, c in enumerate(cases):
        z = torch.tensor(c["z"], dtype=torch.float64)
        if c.get("shape"):
            z = z.reshape(c["shape"])
        z.requires_grad_(True)
        try:
            val = log_normal_cdf(z)
            val.sum().backward()
        except Exception as e:
            out.fail("log_normal_cdf:exception:%s" % type(e).__name__, "log_normal_cdf / its backward raised %r" % e, c)
            continue
        val, grad = val.reshape(-1).tolist(), z.grad.reshape(-1).tolist()
        for j, zz in enumerate(c["z"]):
            mv, mg = model[(ci, j, "v")], model[(ci, j, "g")]
            br = branch_of(zz)
            out.case(dict(fam="logphi", z=zz), True, label="logphi:" + br)
            ev, eg = abs(val[j] - mv), abs(grad[j] - mg) / mg
            w = worst.setdefault(br, [0.0, 0.0])
            w[0], w[1] = max(w[0], float(ev)), max(w[1], float(eg))
            tv = 2e-3 if zz < -1 else 1e-13 * max(1.0, abs(float(mv)))
            tg = 2e-3 if zz < -1 else 1e-12
            if not ev <= tv:
                out.fail("log_normal_cdf:value:" + br, "|log_normal_cdf(z) - log Phi(z)| = %.3e > %.1e at z = %r" % (float(ev), tv, zz),
                         dict(fam="logphi", z=[zz]), impl=val[j], model=float(mv))
            if not eg <= tg:
                out.fail("log_normal_cdf:grad:" + br, "relative error of d/dz log_normal_cdf vs phi/Phi = %.3e > %.1e at z = %r" % (float(eg), tg, zz),
                         dict(fam="logphi", z=[zz]), impl=grad[j], model=float(mg))
    return worst


def gen_logphi(rng, tier):
    npts = 700 if tier == "quick" else 20000
    zs = [float(x) for x in np.linspace(-40.0, 10.0, npts)]
    for b in (-1.0, -0.2, 0.2):
        zs += [b, float(np.nextafter(b, -50)), float(np.nextafter(b, 50)), b - 1e-9, b + 1e-9]
    zs += [0.0, -0.0, 1e-300, -1e-300, -38.5, 8.3, 37.0]
    zs += [rng.uniform(-3, 1) for _ in range(150)] + [rng.uniform(-1.5, -0.9) for _ in range(100)]
    cases = []
    for k in range(0, len(zs), 500):
        chunk = zs[k:k + 500]
        shape = [len(chunk) // 4, 4] if len(chunk) % 4 == 0 and (k // 500) % 2 else None
        cases.append(dict(fam="logphi", z=chunk, shape=shape))
    return cases


# ----------------------------------------------------------------------------- truncation (test)

def fam_trunc(out, cases):
    """case: dict(fam='trunc', kind, par, m, v, y).  |expected_log_prob_n - true integral| for n in NS, where the
    true integral of the documented log-density is adaptive mpmath.quad.  Envelope (test only, stated in evidence)."""
    off_doc = beta_documented_offset()
    old = mp.mp.dps
    mp.mp.dps = 25
    table = {}
    try:
        for c in cases:
            kind, m, v, y = c["kind"], c["m"], c["v"], c["y"]
            errs, tr = [], None
            try:
                make_lik(kind, c["par"], n=NS[0], out=out, case=c)
            except LikBuildError:
                continue
            for n in NS:
                lik, real = make_lik(kind, c["par"], n=n)
                a = par_args(kind, real, 0, off_doc)
                if tr is None:
                    sd, mm = mp.sqrt(mp.mpf(v)), mp.mpf(m)
                    pts = {mm + k * sd for k in (-13, -4, 0, 4, 13)}
                    for kink in ((mp.mpf(y),) if kind == "laplace" else (mp.mpf(0),) if kind == "bern" else ()):
                        if mm - 13 * sd < kink < mm + 13 * sd:
                            pts.add(kink)
                    tr = mp.quad(lambda f: logp_mp(kind, a, y, f) * mp.npdf(f, mm, sd), sorted(pts))
                dist = make_dist("mvn", torch.tensor([m]), var=torch.tensor([v]))
                got = lik.expected_log_prob(torch.tensor([y]), dist).item()
                errs.append(abs(got - float(tr)))
            out.case(dict(fam="trunc", kind=kind, m=m, v=v, y=y, par=c["par"]), True, label="trunc:" + kind)
            scale = 1 + abs(float(tr))
            # envelopes are the harness's choice (the property does not quantify the truncation error): a decade above
            # the worst seen over several hundred draws; a wrong node scale / weight factor shifts every n by >= 5e-2
            if kind == "bern":
                env = [2e-2, 4e-3, 3e-3, 3e-3, 3e-3]       # floor: log_normal_cdf's own 2e-3
            elif kind == "laplace":
                b = math.sqrt(real["noise"][0])
                env = [2.0 * math.sqrt(v) / b / math.sqrt(n) for n in NS]      # kink: slow, O(n^-1/2) envelope
            else:
                env = [1.0, 3e-1, 1e-1, 3e-2, 1e-2]
            t = table.setdefault(kind, [0.0] * len(NS))
            for k in range(len(NS)):
                t[k] = max(t[k], errs[k] / scale)
            bad = [NS[k] for k in range(len(NS)) if not errs[k] <= env[k] * scale]
            if kind != "laplace" and not errs[-1] <= 0.5 * errs[0] + 3e-3 * scale:      # "shrinking as nodes are added"
                bad.append("no-shrink")
            key = "truncation:%s" % kind
            if kind == "beta" and off_doc == 0 and bad:
                a1 = par_args(kind, real, 0, 1)
                tr1 = mp.quad(lambda f: logp_mp(kind, a1, y, f) * mp.npdf(f, mm, sd), sorted(pts))
                if abs(got - float(tr1)) <= 1e-5 * (1 + abs(float(tr1))):
                    key = "beta:expected_log_prob:alpha-beta-plus-one"
            if bad:
                out.fail(key, "expected_log_prob of %s likelihood is not within the truncation envelope of the true integral of the "
                         "documented density for n in %s (errors %s, true %.6g)" % (kind, bad, ["%.2e" % e for e in errs], float(tr)),
                         c, impl=errs, model=float(tr))
    finally:
        mp.mp.dps = old
    return table


def gen_trunc(rng, tier):
    cases = []
    for kind in KINDS:
        for _ in range(5 if tier == "quick" else 40):
            cases.append(dict(fam="trunc", kind=kind, par=draw_par(rng, kind, None), m=rng.randint(-32, 32) / 16.0,
                              v=rng.randint(1, 32) / 16.0, y=draw_y(rng, kind)))
    return cases


# ----------------------------------------------------------------------------- entry points

FAMS = dict(premise=fam_premise, expect=fam_expect, rule=fam_rule, cond=fam_cond, softmax=fam_softmax, lik=fam_lik,
            bern=fam_bern, logphi=fam_logphi, trunc=fam_trunc)


def run(out, ctx):
    tier, seed = ctx["tier"], ctx["seed"]
    rng = random.Random(seed * 7919 + 13)
    torch.manual_seed(seed)
    default_n = gs.num_gauss_hermite_locs.value()
    fam_premise(out, [dict(fam="premise", n=n) for n in sorted(set(NS + [default_n, 1, 2, 4]))])
    fam_expect(out, gen_expect(rng, tier))
    fam_rule(out, gen_rule(rng, tier))
    fam_cond(out, gen_cond(rng, tier))
    fam_softmax(out, gen_softmax(rng, tier))
    fam_lik(out, gen_lik(rng, tier))
    fam_bern(out, gen_bern(rng, tier))
    worst = fam_logphi(out, gen_logphi(rng, tier))
    table = fam_trunc(out, gen_trunc(rng, tier))
    out.exhaustive = True
    out.rule = ("monomials and random polynomials of EVERY degree 0..2n-1 (exhaustive in the degree) for n in %s through the real "
                "GaussHermiteQuadrature1D, batch shapes (), (1,), (3,), (2,2), (2,1,2), Normal and MultivariateNormal inputs, means "
                "0..1e3 and standard deviations 1e-3..1e3 (dyadic), nodes built in float64 and float32 default dtype; degree 2n per n "
                "(rule must miss by c n! sd^2n); rule formula on the module's own nodes; Bernoulli/Laplace/StudentT/Beta/Softmax "
                "conditional parameters and log-densities with parameter draws and batched parameters; expected_log_prob/log_marginal "
                "for num_gauss_hermite_locs in %s + default vs the rule applied to the documented density; analytic Bernoulli marginal; "
                "log_normal_cdf sweep z in [-40,10] + branch boundaries.  Module-transformation axis: quadrature modules and "
                "likelihoods are built and THEN taken through %s (likelihoods: the sequences ending in float64) before they are "
                "evaluated; their nodes must be the casts of hermgauss(n) and E[1] = 1.  Parameter axis: every parameter of every "
                "likelihood (Student-t deg_free + noise, Laplace noise, Beta scale, Softmax mixing weights) is SET by the harness "
                "through a public route (attribute setters in either order, initialize(name=tensor), initialize(name=float), "
                "Student-t: deg_free left at the constructor's own initialize(deg_free=7)) under default and non-default, pairwise "
                "different constructor constraints (GreaterThan / Interval); the documented conditional is built from the values "
                "that were SET and the values read back through the public properties are compared with them.  Far-tail axis: expected_log_prob / "
                "log_marginal of every likelihood at observations 30..600 (Laplace) / 1e5..1e21 (Student-t) scale units from the "
                "mean, Beta targets within 2^-30..2^-100 of 0 / 2^-30..2^-50 of 1, Bernoulli means 8..35 on the wrong side (log values down to "
                "-650).  non-trivial = E[p] differs from p(m) by more than 10 tol (polynomials) or the module was transformed, "
                "degree-2n defect above 100 tol (sharpness), every likelihood case" % (NS, NS, ["+".join(x) for x in QUAD_XFORMS]))
    out.tested_not_proved = [
        "premise of c13_gh_affine_exact for numpy hermgauss(n), n in %s: validated with mpmath (60 digits) against the model's "
        "Hermite moments, tolerance 1e-14 (k+1) sum_i w_i |t_i|^k for the float64 nodes, 1e-45 for their 60-digit refinements"
        % sorted(set(NS + [default_n, 1, 2, 4])),
        "degree-2n defect of the n-point rule equals c_2n n! sd^(2n) (classical error term; checked exactly, not proved)",
        "Bernoulli marginal Phi(m/sqrt(1+v)) = int Phi(f) N(f;m,v) df: adaptive mpmath.quad, 1e-15",
        "|log_normal_cdf - log Phi| <= 2e-3 for z < -1 and to rounding for z >= -1; derivative vs phi/Phi to the same relative "
        "accuracy: dense sweep only (DESIGN 9.2)",
        "expected_log_prob vs the true integral of the documented log-density (truncation error): envelope test against mpmath.quad",
        "torch.distributions log_prob / lgamma / erf numerics (compared at 1e-9..1e-11)"]
    out.extra["tolerances"] = {
        "polynomial exactness (float64 nodes)": "50 eps64 * (1/sqrt pi) sum_i w_i sum_k (k+1)|c_k||x_i|^k",
        "polynomial exactness (nodes built in float32 default dtype)": "10 eps32 * same bound (node rounding 6e-8 is inherent to torch.Tensor(np_array))",
        "conditional parameters": 1e-11, "likelihood rule vs expr": 1e-9, "bernoulli elp with nodes below -1": 2e-3,
        "log_normal_cdf": {"z<-1": 2e-3, "z>=-1": 1e-13}}
    out.extra["log_normal_cdf_worst_abs_and_rel_grad_error"] = worst
    out.extra["truncation_worst_relative_error_by_n"] = {"n": NS, **table}
    out.extra["beta_documented_offset_read_from_docstring"] = beta_documented_offset()
    out.notes.append("SoftmaxLikelihood with num_data == num_features silently transposes its input (deprecated legacy layout); "
                     "the generator avoids square inputs")


def replay(path):
    d = json.load(open(path))
    case = d["case"]
    print("case:", json.dumps(case)[:2000])
    out = C.Outcome("C13", "quick", 0)
    fam = case.get("fam")
    case = {k: v for k, v in case.items() if k not in ("element", "b", "i", "k")}
    FAMS[fam](out, [case])
    for f in out.failures:
        print("key  :", f["key"])
        print("what :", f["what"])
        print("impl :", f["impl"])
        print("model:", f["model"])
    print("FAILS" if out.failures else "agrees")
    return 1 if out.failures else 0
