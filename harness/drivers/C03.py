"""C03 — evaluation-mode outputs are history independent (no stale prediction caches).

Tie C as a refinement on outputs.  The driver generates operation histories; the Coq state machine
(Models/C03_cache.v, run by vm_compute) returns for every operation its status and, for every
prediction, the TAGS (parameter version, data version, unkeyed-settings value) of the cache
entries it consults.  The harness holds the concrete snapshot of every version and interprets
a tag as "prediction of a FRESHLY constructed model holding that snapshot under that
configuration"; the implementation's value after the history must agree with it."""
import hashlib
import itertools
import json
import multiprocessing as mp
import os
import random
import warnings

import torch

import gpytorch
from gpytorch import settings as gs
from harness.lib import common as C

COQ_TARGETS = ["Models/C03_cache.vo"]
LEVEL_NOTE = ("theorems are about the Gallina cache state machine (all histories, by induction); the tie to /repo is "
              "differential: per operation status and, per prediction, implementation value vs a freshly constructed "
              "model holding the snapshot the proved model names (public outputs, float64)")
IMPORTS = "From Coq Require Import List ZArith.\nFrom GPV Require Import Models.C03_cache."
RUN_DEF = "Definition run := run_history."

torch.set_default_dtype(torch.float64)
warnings.filterwarnings("ignore")
# development aids (sensitivity experiments): VERIF_TAG keeps the scratch directories of concurrent runs apart,
# VERIF_C03_FAMILIES=kiss,sgpr restricts the run to some families (the histories are those of the full run)
TAGSFX = os.environ.get("VERIF_TAG", "")
ONLY = [f for f in os.environ.get("VERIF_C03_FAMILIES", "").split(",") if f]

# a prediction op is O_PRED + c with c = settings index (0..3, family specific) + 4 * input-batch-shape index
# (Models/C03_cache.v: cfg_of / shape_of); "Predict1@b(3,)" = settings 1 on test inputs of shape 3 x n x d
SHAPES = [(), (2,), (3,)]
NCFG = 4
OPS = ["Train", "Eval", "Step", "SetData", "Load", "Fantasy", "Prior", "Backward"] + [
    "Predict%d%s" % (c, "" if not sh else "@b%s" % (sh,)) for sh in SHAPES for c in range(NCFG)]
O_TRAIN, O_EVAL, O_STEP, O_SETDATA, O_LOAD, O_FANT, O_PRIOR, O_BWD, O_PRED = range(9)
NOPS = O_PRED + NCFG * len(SHAPES)
VARIANTS = {1: "Module.train(True) does not clear caches", 2: "Module.train(False) from training does not clear caches",
            3: "_load_from_state_dict does not clear caches", 4: "set_train_data keeps the prediction strategy",
            5: "clear_cache_hook on backward missing", 6: "_VariationalStrategy.__call__ does not clear in training mode",
            7: "kernel._clear_cache missing", 8: "ExactGP._clear_cache missing",
            9: "_VariationalStrategy._clear_cache missing", 10: "KISS-GP covar_cache pair not re-keyed",
            11: "Module.train override missing (no clearing on any mode change)",
            12: "staleness guard missing (SGPR strategy not rebuilt when sgpr_diagonal_correction changes / "
                "variational memo not cleared when variational_cholesky_jitter changes / cached K_UU kept when a "
                "data-following KISS-GP grid is replaced)",
            13: "get_fantasy_model does not restore the source model when the copy raises",
            14: "VariationalStrategy.forward keeps a memoised Cholesky factor of another batch shape"}
ATOL = 1e-8


class _multi:
    def __init__(self, *cms):
        self.cms = cms

    def __enter__(self):
        for c in self.cms:
            c.__enter__()

    def __exit__(self, *a):
        for c in reversed(self.cms):
            c.__exit__(*a)
        return False


def _pts(rng, n, d=1, lo=-2.0, hi=2.0, sep=0.2):
    """n separated points on a dyadic grid"""
    for _ in range(1000):
        pts = [[round(rng.uniform(lo, hi) * 16) / 16 for _ in range(d)] for _ in range(n)]
        if all(max(abs(a - b) for a, b in zip(p, q)) >= sep for p, q in itertools.combinations(pts, 2)):
            return pts
    raise RuntimeError("could not place points")


# =========================================================================== model families

class _ExactModel(gpytorch.models.ExactGP):
    def __init__(self, x, y, lik, mean, kern):
        super().__init__(x, y, lik)
        self.mean_module, self.covar_module = mean, kern

    def forward(self, x):
        return gpytorch.distributions.MultivariateNormal(self.mean_module(x), self.covar_module(x))


class _SVGP(gpytorch.models.ApproximateGP):
    def __init__(self, Z, strat, dist):
        m = Z.size(0)
        vd = {"cholesky": gpytorch.variational.CholeskyVariationalDistribution,
              "meanfield": gpytorch.variational.MeanFieldVariationalDistribution,
              "natural": gpytorch.variational.NaturalVariationalDistribution,
              "delta": gpytorch.variational.DeltaVariationalDistribution}[dist](m)
        VS = {"whitened": gpytorch.variational.VariationalStrategy,
              "unwhitened": gpytorch.variational.UnwhitenedVariationalStrategy}[strat]
        super().__init__(VS(self, Z, vd, learn_inducing_locations=True))
        self.mean_module = gpytorch.means.ConstantMean()
        self.covar_module = gpytorch.kernels.ScaleKernel(gpytorch.kernels.RBFKernel())
        self.likelihood = gpytorch.likelihoods.GaussianLikelihood()

    def forward(self, x):
        return gpytorch.distributions.MultivariateNormal(self.mean_module(x), self.covar_module(x))


class Family:
    """One concrete model family: how to construct it, its data / parameter pools, its four
    prediction configurations.  `coq` is the family index of Models/C03_cache.v:family_of."""
    name = "?"
    coq = 0
    has_data = True
    cmp_backward_status = False
    cfg_names = ["default", "c1", "c2", "c3"]
    batch_cfg = 0       # the setting under which the exhaustive short histories predict on batched test inputs

    def __init__(self, seed):
        self.rng = random.Random(seed * 104729 + 17)
        self.seed = seed
        self.setup()
        self.pool = self.make_pool()

    # --- to be provided by subclasses
    def setup(self):
        raise NotImplementedError

    def construct(self, data):
        raise NotImplementedError

    def cfg(self, c):
        raise NotImplementedError

    def perturb(self, model, k):
        """deterministic, well-separated parameter setting number k (through the public setters)"""
        raise NotImplementedError

    # --- shared
    def make_pool(self):
        pool = []
        for k in range(3):
            m = self.construct(self.data0())
            self.perturb(m, k)
            pool.append({a: b.detach().clone() for a, b in m.state_dict().items()})
        return pool

    def data0(self):
        return self.data[0] if self.has_data else None

    def new(self, sd, data, training=False):
        m = self.construct(data)
        m.load_state_dict(sd)
        m.train(training)
        return m

    def loss(self, model):
        out = model(*model.train_inputs)
        mll = gpytorch.mlls.ExactMarginalLogLikelihood(model.likelihood, model)
        return -mll(out, model.train_targets)

    def train_output(self, model):
        return model(*model.train_inputs)

    def fantasy(self, model):
        return model.get_fantasy_model(self.Xf, self.yf)

    def xs(self, shape_index):
        """test inputs of batch shape SHAPES[shape_index]: element i is the family's test set moved by i/16"""
        shape = SHAPES[shape_index]
        if not shape:
            return self.Xs
        n = torch.Size(shape).numel()
        return torch.stack([self.Xs + 0.0625 * i for i in range(n)]).reshape(*shape, *self.Xs.shape)

    def xs_for(self, c):
        """test inputs of configuration c (families may tie a range of test inputs to a settings index)"""
        return self.xs(c // NCFG)

    def cfg_label(self, c):
        return self.cfg_names[c % NCFG] + ("" if c < NCFG else "@b%s" % (SHAPES[c // NCFG],))


def _rbf_exact(rng):
    k = gpytorch.kernels.ScaleKernel(gpytorch.kernels.RBFKernel())
    return k


class ExactA(Family):
    name, coq, cmp_backward_status = "exact:gaussian-scale-rbf", 0, True
    cfg_names = ["default", "fast_pred_var", "nan_policy_mask", "eager_kernels"]

    def setup(self):
        r = self.rng
        self.sizes = [5, 5, 5]
        self.data = []
        for n in self.sizes:
            X = torch.tensor(_pts(r, n))
            y = torch.tensor([round(r.uniform(-2, 2) * 8) / 8 for _ in range(n)])
            self.data.append((X, y))
        self.Xs = torch.tensor(_pts(r, 3))
        self.Xf = torch.tensor(_pts(r, 2, lo=2.2, hi=3.0))
        self.yf = torch.tensor([0.5, -0.25])

    def construct(self, data):
        X, y = data
        lik = gpytorch.likelihoods.GaussianLikelihood()
        return _ExactModel(X.clone(), y.clone(), lik, gpytorch.means.ConstantMean(),
                           gpytorch.kernels.ScaleKernel(gpytorch.kernels.RBFKernel()))

    def perturb(self, m, k):
        m.likelihood.noise = [0.2, 0.35, 0.12][k]
        m.covar_module.outputscale = [1.0, 1.8, 0.6][k]
        m.covar_module.base_kernel.lengthscale = [0.7, 1.3, 0.45][k]
        m.mean_module.constant.data.fill_([0.0, 0.6, -0.4][k])

    def cfg(self, c):
        return [_multi(), _multi(gs.fast_pred_var(True)), _multi(gs.observation_nan_policy("mask")),
                _multi(gs.lazily_evaluate_kernels(False))][c]


class ExactB(ExactA):
    """fixed heteroskedastic noise + learned extra noise, Matern + linear kernel, linear mean"""
    name = "exact:fixednoise-matern+linear"

    def setup(self):
        super().setup()
        r = self.rng
        self.sizes = [5, 5, 5]
        self.data = []
        for n in self.sizes:
            self.data.append((torch.tensor(_pts(r, n, d=2)),
                              torch.tensor([round(r.uniform(-2, 2) * 8) / 8 for _ in range(n)])))
        self.noise = torch.tensor([round(r.uniform(0.1, 0.5) * 64) / 64 for _ in range(5)])
        self.Xs = torch.tensor(_pts(r, 3, d=2))
        self.Xf = torch.tensor(_pts(r, 2, d=2, lo=2.2, hi=3.0))

    def construct(self, data):
        X, y = data
        lik = gpytorch.likelihoods.FixedNoiseGaussianLikelihood(self.noise.clone(), learn_additional_noise=True)
        kern = gpytorch.kernels.MaternKernel(nu=1.5, ard_num_dims=2) + gpytorch.kernels.LinearKernel()
        return _ExactModel(X.clone(), y.clone(), lik, gpytorch.means.LinearMean(2), kern)

    def perturb(self, m, k):
        m.likelihood.second_noise = [0.1, 0.3, 0.05][k]
        m.covar_module.kernels[0].lengthscale = torch.tensor([[0.8, 1.4], [1.5, 0.6], [0.5, 0.9]][k])
        m.covar_module.kernels[1].variance = [0.3, 0.8, 0.15][k]
        m.mean_module.weights.data = torch.tensor([[[0.2], [-0.1]], [[-0.4], [0.3]], [[0.0], [0.5]]][k])
        m.mean_module.bias.data.fill_([0.1, -0.3, 0.4][k])

    def fantasy(self, model):
        return model.get_fantasy_model(self.Xf, self.yf, noise=torch.tensor([0.2, 0.3]))


class Kiss(ExactA):
    """KISS-GP: GridInterpolationKernel, InterpolatedPredictionStrategy (WISKI fantasies)"""
    name, coq, cmp_backward_status = "kiss", 1, False
    cfg_names = ["default", "fast_pred_var", "fast_pred_var+fast_pred_samples", "skip_posterior_variances"]
    batch_cfg = 1

    def setup(self):
        super().setup()
        r = self.rng
        self.data = [(torch.tensor(_pts(r, 6)), torch.tensor([round(r.uniform(-2, 2) * 8) / 8 for _ in range(6)]))
                     for _ in range(3)]
        self.Xf = torch.tensor(_pts(r, 2, lo=-1.5, hi=1.5))

    def construct(self, data):
        X, y = data
        lik = gpytorch.likelihoods.GaussianLikelihood()
        kern = gpytorch.kernels.ScaleKernel(gpytorch.kernels.GridInterpolationKernel(
            gpytorch.kernels.RBFKernel(), grid_size=10, num_dims=1, grid_bounds=[(-3.0, 3.0)]))
        return _ExactModel(X.clone(), y.clone(), lik, gpytorch.means.ConstantMean(), kern)

    def perturb(self, m, k):
        m.likelihood.noise = [0.2, 0.35, 0.12][k]
        m.covar_module.outputscale = [1.0, 1.8, 0.6][k]
        m.covar_module.base_kernel.base_kernel.lengthscale = [0.9, 1.4, 0.7][k]
        m.mean_module.constant.data.fill_([0.0, 0.6, -0.4][k])

    def cfg(self, c):
        return [_multi(), _multi(gs.fast_pred_var(True)),
                _multi(gs.fast_pred_var(True), gs.fast_pred_samples(True)),
                _multi(gs.skip_posterior_variances(True))][c]


class ExactNaN(ExactA):
    """exact GP whose training targets contain NaNs (missing observations): the settings axis is the
    observation_nan_policy itself - 'ignore' (the default: NaN outputs, as documented), 'mask', 'fill', and
    fast_pred_var + 'mask' - in every order on one model object"""
    name, coq, cmp_backward_status = "exact:nan-targets", 5, False
    cfg_names = ["nan_policy_ignore(default)", "nan_policy_mask", "nan_policy_fill", "fast_pred_var+nan_policy_mask"]
    batch_cfg = 1

    def setup(self):
        super().setup()
        r = self.rng
        self.data = []
        for v in range(3):
            n = 6
            X = torch.tensor(_pts(r, n))
            y = [round(r.uniform(-2, 2) * 8) / 8 for _ in range(n)]
            for i in r.sample(range(n), 1 + (v % 2)):     # one or two missing observations, elsewhere per version
                y[i] = float("nan")
            self.data.append((X, torch.tensor(y)))

    def cfg(self, c):
        return [_multi(), _multi(gs.observation_nan_policy("mask")), _multi(gs.observation_nan_policy("fill")),
                _multi(gs.fast_pred_var(True), gs.observation_nan_policy("mask"))][c]

    def loss(self, model):
        # training on data with missing observations is done under the 'mask' policy
        with gs.observation_nan_policy("mask"):
            return super().loss(model)


class KissDyn(Kiss):
    """KISS-GP on a DATA-FOLLOWING grid (GridInterpolationKernel without grid_bounds): the grid is laid out anew for
    the inputs of every call.  The three data versions span different input ranges, the test inputs lie strictly
    inside the narrowest training range (batched copies included), the prior-mode call sees the test inputs only,
    and setting 3 predicts at test inputs OUTSIDE the training range."""
    name, coq = "kiss:data-following-grid", 6
    cfg_names = ["default", "fast_pred_var", "fast_pred_var+fast_pred_samples", "default@test-inputs-outside-training-range"]

    def setup(self):
        super().setup()
        r = self.rng
        self.data = []
        for R in (1.0, 2.0, 3.0):
            for _ in range(1000):
                inner = [round(r.uniform(-R, R) * 16) / 16 for _ in range(4)]
                xs = sorted([-R, R] + inner)
                if min(b - a for a, b in zip(xs, xs[1:])) >= 0.15 * R:
                    break
            r.shuffle(xs)
            self.data.append((torch.tensor([[v] for v in xs]),
                              torch.tensor([round(r.uniform(-2, 2) * 8) / 8 for _ in range(6)])))
        self.Xs = torch.tensor(_pts(r, 3, lo=-0.8, hi=0.6))
        self.Xwide = torch.tensor([[-4.5], [self.Xs[0, 0].item()], [3.75]])
        self.Xf = torch.tensor(_pts(r, 2, lo=-0.9, hi=0.9))

    def construct(self, data):
        X, y = data
        lik = gpytorch.likelihoods.GaussianLikelihood()
        kern = gpytorch.kernels.ScaleKernel(gpytorch.kernels.GridInterpolationKernel(
            gpytorch.kernels.RBFKernel(), grid_size=12, num_dims=1))
        return _ExactModel(X.clone(), y.clone(), lik, gpytorch.means.ConstantMean(), kern)

    def cfg(self, c):
        return [_multi(), _multi(gs.fast_pred_var(True)),
                _multi(gs.fast_pred_var(True), gs.fast_pred_samples(True)), _multi()][c]

    def xs_for(self, c):
        if c % NCFG == 3:
            sh = SHAPES[c // NCFG]
            if not sh:
                return self.Xwide
            n = torch.Size(sh).numel()
            return torch.stack([self.Xwide + 0.0625 * i for i in range(n)]).reshape(*sh, *self.Xwide.shape)
        return self.xs(c // NCFG)


class Sgpr(ExactA):
    """SGPR: InducingPointKernel, SGPRPredictionStrategy"""
    name, coq, cmp_backward_status = "sgpr", 2, False
    cfg_names = ["default", "fast_pred_var", "nan_policy_mask", "sgpr_diagonal_correction_off"]

    def setup(self):
        super().setup()
        r = self.rng
        self.data = [(torch.tensor(_pts(r, 7)), torch.tensor([round(r.uniform(-2, 2) * 8) / 8 for _ in range(7)]))
                     for _ in range(3)]
        self.Z = torch.tensor(_pts(r, 4, sep=0.5))

    def construct(self, data):
        X, y = data
        lik = gpytorch.likelihoods.GaussianLikelihood()
        kern = gpytorch.kernels.InducingPointKernel(gpytorch.kernels.ScaleKernel(gpytorch.kernels.RBFKernel()),
                                                    self.Z.clone(), lik)
        return _ExactModel(X.clone(), y.clone(), lik, gpytorch.means.ConstantMean(), kern)

    def perturb(self, m, k):
        m.likelihood.noise = [0.2, 0.35, 0.12][k]
        m.covar_module.base_kernel.outputscale = [1.0, 1.8, 0.6][k]
        m.covar_module.base_kernel.base_kernel.lengthscale = [0.9, 1.4, 0.7][k]
        m.mean_module.constant.data.fill_([0.0, 0.6, -0.4][k])
        m.covar_module.inducing_points.data.add_(0.1 * k)

    def cfg(self, c):
        return [_multi(), _multi(gs.fast_pred_var(True)), _multi(gs.observation_nan_policy("mask")),
                _multi(gs.sgpr_diagonal_correction(False))][c]


class VarWC(Family):
    """variational GP; whitened strategy, Cholesky distribution (fantasy models exist)"""
    name, coq, has_data = "variational:whitened-cholesky", 3, False
    strat, dist = "whitened", "cholesky"
    lr = 0.01
    cfg_names = ["default", "skip_posterior_variances", "eager_kernels", "variational_cholesky_jitter_1e-3"]

    def setup(self):
        r = self.rng
        self.Z = torch.tensor(_pts(r, 4, sep=0.5))
        self.Xtr = torch.tensor(_pts(r, 8))
        self.ytr = torch.tensor([round(r.uniform(-2, 2) * 8) / 8 for _ in range(8)])
        self.Xs = torch.tensor(_pts(r, 3))
        self.Xf = torch.tensor(_pts(r, 2, lo=2.2, hi=3.0))
        self.yf = torch.tensor([0.5, -0.25])

    def construct(self, data):
        return _SVGP(self.Z.clone(), self.strat, self.dist)

    def perturb(self, m, k):
        m.eval()
        torch.manual_seed(1000 + k)
        with torch.no_grad():
            m(self.Xs)      # initialises the variational parameters (variational_params_initialized := 1)
        m.likelihood.noise = [0.2, 0.35, 0.12][k]
        m.covar_module.outputscale = [1.0, 1.8, 0.6][k]
        m.covar_module.base_kernel.lengthscale = [0.9, 1.4, 0.7][k]
        m.mean_module.constant.data.fill_([0.0, 0.6, -0.4][k])
        for _, p in m.variational_strategy._variational_distribution.named_parameters():
            pert = 0.05 * (k + 1) * torch.sin(torch.arange(p.numel(), dtype=p.dtype).reshape(p.shape) + k)
            if p.dim() == 2:
                pert = (pert + pert.t()) / 2
            p.data.add_(pert)

    def cfg(self, c):
        return [_multi(), _multi(gs.skip_posterior_variances(True)), _multi(gs.lazily_evaluate_kernels(False)),
                _multi(gs.variational_cholesky_jitter(float_value=1e-3, double_value=1e-3))][c]

    def loss(self, model):
        mll = gpytorch.mlls.VariationalELBO(model.likelihood, model, num_data=self.Xtr.size(0))
        return -mll(model(self.Xtr), self.ytr)

    def prior_call(self, model):
        return model(self.Xs, prior=True)

    def fantasy(self, model):
        return model.get_fantasy_model(self.Xf, self.yf)


class VarUC(VarWC):
    name, strat = "variational:unwhitened-cholesky", "unwhitened"


class VarWN(VarWC):
    name, coq, dist = "variational:whitened-natural", 4, "natural"


class VarWM(VarWC):
    name, coq, dist = "variational:whitened-meanfield", 4, "meanfield"


FAMILIES = {"exactA": ExactA, "exactB": ExactB, "exactNaN": ExactNaN, "kiss": Kiss, "kissdyn": KissDyn, "sgpr": Sgpr, "varWC": VarWC, "varUC": VarUC,
            "varWN": VarWN, "varWM": VarWM}



# =========================================================================== running a history

def sd_hash(sd):
    h = hashlib.sha1()
    for k in sorted(sd):
        h.update(k.encode())
        h.update(sd[k].detach().cpu().contiguous().numpy().tobytes())
    return h.hexdigest()


def data_hash(data):
    if data is None:
        return ""
    h = hashlib.sha1()
    for t in data:
        h.update(t.detach().contiguous().numpy().tobytes())
    return h.hexdigest()


def dist_out(p):
    return dict(mean=p.mean.detach().clone(), cov=p.covariance_matrix.detach().clone())


def do_predict(fam, model, c, kind="post"):
    """the public call under configuration c (settings c % 4 on test inputs of batch shape SHAPES[c // 4]);
    kind: post / prior"""
    with torch.no_grad(), fam.cfg(c % NCFG):
        if model.training and fam.has_data:
            return dist_out(fam.train_output(model))
        if kind == "prior":
            if hasattr(fam, "prior_call"):
                return dist_out(fam.prior_call(model))
            with gs.prior_mode(True):
                return dist_out(model(fam.Xs))
        return dist_out(model(fam.xs_for(c)))


def do_backward(fam, model):
    """a non-detached evaluation followed by backward through it (no optimiser step)"""
    model.zero_grad(set_to_none=True)
    if model.training:
        loss = fam.loss(model)
        loss.backward()
        model.zero_grad(set_to_none=True)
        return None
    with gs.detach_test_caches(False):
        p = model(fam.Xs)
        res = dist_out(p)
        (p.mean.sum() + p.variance.sum()).backward()
    model.zero_grad(set_to_none=True)
    return res


def do_step(fam, model):
    opt = torch.optim.SGD([p for p in model.parameters() if p.requires_grad], lr=fam_lr(fam))
    opt.zero_grad(set_to_none=True)
    loss = fam.loss(model)
    loss.backward()
    opt.step()
    model.zero_grad(set_to_none=True)


def fam_lr(fam):
    return getattr(fam, "lr", 0.05)


class Oracle:
    """prediction of a freshly constructed model holding snapshot (state_dict, data index) under cfg"""

    def __init__(self, fam):
        self.fam, self.memo = fam, {}

    def get(self, sd, sdh, data, c, training, kind):
        key = (sdh, data_hash(data), c, training, kind)
        if key not in self.memo:
            try:
                m = self.fam.new(sd, data, training)
                if kind == "backward":
                    self.memo[key] = ("ok", do_backward(self.fam, m))
                else:
                    self.memo[key] = ("ok", do_predict(self.fam, m, c, kind))
            except Exception as e:  # a fresh model raising is part of the specification
                self.memo[key] = ("err:" + type(e).__name__, None)
        return self.memo[key]


def agree(a, b, atol=ATOL):
    if a is None or b is None:
        return a is b
    for k in ("mean", "cov"):
        x, y = a[k], b[k]
        if x.shape != y.shape:
            return False
        nx, ny = torch.isnan(x), torch.isnan(y)
        if not torch.equal(nx, ny):
            return False
        if not torch.all((x[~nx] - y[~ny]).abs() <= atol + atol * y[~ny].abs()):
            return False
    return True


def maxdiff(a, b):
    if a is None or b is None:
        return None
    try:
        return max(float((a[k] - b[k]).abs().max()) for k in ("mean", "cov"))
    except Exception:
        return "shape"


def decode_trace(ints, nops):
    rd = C.Reader(ints)
    out = []
    for _ in range(nops):
        pv, dv, st, ind, nt = rd.int(), rd.int(), rd.int(), rd.int(), rd.int()
        tags = [(rd.int(), rd.int(), rd.int(), rd.int()) for _ in range(nt)]  # key, pv, dv, ck
        out.append(dict(pv=pv, dv=dv, st=st, indep=ind, tags=tags))
    assert rd.done()
    return out


def run_history(fam, oracle, hist, trace, keep=False):
    """Execute hist on the implementation next to the model trace.  Returns (problems, statuses):
    problems = list of dict(kind, pos, ...)."""
    torch.manual_seed(fam.seed)
    snaps = {0: fam.pool[0]}
    hashes = {0: sd_hash(fam.pool[0])}
    data = fam.data0()
    model = fam.new(fam.pool[0], data, False)
    pv = dv = 0
    problems, statuses, values = [], [], []
    for pos, (o, tr) in enumerate(zip(hist, trace)):
        values.append(None)
        if tr["st"] == 2:      # inadmissible for the property / this family: not executed
            statuses.append("skip")
            continue
        res, err, kind = None, None, None
        training = model.training
        try:
            if o == O_TRAIN:
                model.train()
            elif o == O_EVAL:
                model.eval()
            elif o == O_STEP:
                do_step(fam, model)
            elif o == O_SETDATA:
                # version k of the data: targets only / inputs only / both replaced (k mod 3 = 1 / 2 / 0): the
                # partial updates come first so that the exhaustive short histories contain them
                k = tr["dv"]
                X, y = fam.data[k % len(fam.data)]
                if k % 3 == 1:
                    data = (data[0], y)
                    model.set_train_data(targets=y.clone(), strict=False)
                elif k % 3 == 2:
                    data = (X, data[1])
                    model.set_train_data(inputs=X.clone(), strict=False)
                else:
                    data = (X, y)
                    model.set_train_data(X.clone(), y.clone(), strict=False)
            elif o == O_LOAD:
                model.load_state_dict(fam.pool[tr["pv"] % len(fam.pool)])
            elif o == O_FANT:
                with torch.no_grad():
                    fam.fantasy(model)
            elif o == O_PRIOR:
                kind = "prior"
                res = do_predict(fam, model, 0, "prior")
            elif o == O_BWD:
                kind = "backward"
                res = do_backward(fam, model)
            else:
                kind = "post"
                res = do_predict(fam, model, o - O_PRED, "post")
        except Exception as e:
            err = type(e).__name__
        statuses.append(err or "ok")
        if keep:
            values[-1] = res
        if o == O_FANT and err is not None and fam.has_data and (
                model.train_inputs is None or model.train_targets is None or model.likelihood is None):
            # the failed call left the SOURCE model without data / likelihood (public attributes):
            # everything after this point silently predicts from the prior.  Reported once; the
            # rest of this history is not executed.
            problems.append(dict(kind="fantasy-corrupts", pos=pos, err=err))
            break
        # versions as the model counts them; snapshot what the implementation holds now
        if tr["pv"] != pv:
            pv = tr["pv"]
            snaps[pv] = {a: b.detach().clone() for a, b in model.state_dict().items()}
            hashes[pv] = sd_hash(snaps[pv])
        dv = tr["dv"]
        model_err = tr["st"] == 1
        c = o - O_PRED if kind == "post" else 0
        if kind in ("post", "prior") and err is not None and not model_err:
            # a prediction raised: history dependence only if a fresh model does not raise
            fst, _ = oracle.get(snaps[pv], hashes[pv], data, c, training, kind)
            if fst == "ok":
                problems.append(dict(kind="exception", pos=pos, cfg=c, opkind=kind, err=err))
            continue
        if o == O_BWD and not fam.cmp_backward_status:
            if err is not None:
                continue
        elif (err is not None) != model_err:
            problems.append(dict(kind="status", pos=pos, impl=err or "ok", model="err" if model_err else "ok"))
            continue
        if res is None or err is not None:
            continue
        # the property itself: a fresh model holding the CURRENT snapshot, same configuration
        fst, fres = oracle.get(snaps[pv], hashes[pv], data, c, training, kind)
        cur_ok = fst == "ok" and agree(res, fres)
        if cur_ok:
            if not tr["indep"]:
                problems.append(dict(kind="model-pessimistic", pos=pos, cfg=c, opkind=kind))
            continue
        pk = "stale" if tr["indep"] else "unkeyed"
        extra = {}
        if fst == "ok" and fres is not None and res["mean"].shape != fres["mean"].shape:
            # the symptom of a cache that carries the batch shape of an EARLIER call
            pk = "batch-shape"
            extra = dict(impl_shape=list(res["mean"].shape), fresh_shape=list(fres["mean"].shape))
        problems.append(dict(kind=pk, pos=pos, cfg=c, opkind=kind, diff=maxdiff(res, fres), fresh=fst, tags=tr["tags"],
                             training=training, **extra))
    return problems, statuses, values


# =========================================================================== generation / workers

_W = {}


def _worker(job):
    famname, seed, items = job
    key = (famname, seed)
    if key not in _W:
        fam = FAMILIES[famname](seed)
        _W[key] = (fam, Oracle(fam))
    fam, oracle = _W[key]
    out = []
    for hist, trace in items:
        try:
            problems, statuses, _ = run_history(fam, oracle, hist, trace)
        except Exception as e:      # the harness itself failed on this history
            import traceback
            problems, statuses = [dict(kind="crash", pos=-1, err=traceback.format_exc()[-800:])], []
        out.append((hist, problems, statuses))
    return famname, out


def coq_traces(tag, coqfam, hists, variant=0):
    cases = ["(%d%%nat, %d%%nat, %s)" % (coqfam, variant, C.z_list(h)) for h in hists]
    res = C.coq_run_cases(tag + TAGSFX, IMPORTS, RUN_DEF, cases, shard=max(50, (len(cases) + 15) // 16))
    return [decode_trace(r, len(h)) for r, h in zip(res, hists)]


def exhaustive(alphabet, k):
    """all op sequences of length k over alphabet followed by one prediction (every prediction
    INSIDE a sequence is checked as well, so all shorter histories are covered too)"""
    preds = [o for o in alphabet if o >= O_PRED]
    return [list(p) + [f] for p in itertools.product(alphabet, repeat=k) for f in preds]


def random_history(rng, alphabet, n, training0=False):
    """seeded random history; Step is generated only while in training mode (the property's exclusion)"""
    h, training = [], training0
    while len(h) < n:
        o = rng.choice(alphabet)
        if o == O_STEP and not training:
            if rng.random() < 0.5 and len(h) + 1 < n:
                h.append(O_TRAIN)
                training = True
            else:
                continue
        if o == O_TRAIN:
            training = True
        if o == O_EVAL:
            training = False
        h.append(o)
    if training:
        h.append(O_EVAL)
    h.append(rng.choice([o for o in alphabet if o >= O_PRED]))
    return h


def is_nontrivial(hist):
    """a cache-populating op, later a mutating op, later a prediction; or two posterior calls on test inputs of
    different batch shapes"""
    st = 0
    shapes = set()
    for o in hist:
        if o >= O_PRED or o == O_BWD:
            shapes.add((o - O_PRED) // NCFG if o >= O_PRED else 0)
        if st == 0 and (o >= O_PRED or o in (O_BWD, O_FANT, O_PRIOR)):
            st = 1
        elif st == 1 and o in (O_STEP, O_SETDATA, O_LOAD):
            st = 2
        elif st == 2 and o >= O_PRED:
            return True
    return len(shapes) > 1


def pred(c, shape=0):
    return O_PRED + c + NCFG * shape


def plan(tier, seed):
    """(family name, list of histories, exhaustive bound or None).
    base = the 8 non-prediction ops + the 4 settings on un-batched test inputs; ext = base + predictions on batched
    test inputs (3 x n x d and 2 x n x d) under one family-specific setting (the one whose caches are richest);
    full = all 20 ops (random histories)."""
    rng = random.Random(seed * 31337 + 5)
    full = list(range(NOPS))
    base = list(range(O_PRED + NCFG))
    P = []
    kA, kB = (3, 2) if tier == "quick" else (4, 3)

    def ext(f):
        return base + [pred(FAMILIES[f].batch_cfg, sh) for sh in (2, 1)]
    P.append(("exactA", exhaustive(base, kA), (kA, len(base))))
    P.append(("exactA", exhaustive(ext("exactA"), kA - 1), (kA - 1, len(base) + 2)))
    P.append(("exactB", exhaustive(ext("exactB"), kB), (kB, len(base) + 2)))
    nrand = 40 if tier == "quick" else 300
    for f in ("exactA", "exactB"):
        P.append((f, [random_history(rng, full, rng.randint(5, 25)) for _ in range(nrand)], None))
    k2 = 2 if tier == "quick" else 3
    for f in ("exactNaN", "kiss", "kissdyn", "sgpr", "varWC", "varUC", "varWN", "varWM"):
        keep = (lambda o: True) if FAMILIES[f].has_data else (lambda o: o != O_SETDATA)
        alphabet = [o for o in ext(f) if keep(o)]
        P.append((f, exhaustive(alphabet, k2), (k2, len(alphabet))))
        P.append((f, [random_history(rng, [o for o in full if keep(o)], rng.randint(5, 25)) for _ in range(nrand)], None))
    return P


def hist_names(h):
    return [OPS[o] for o in h]


def shrink(fam, oracle, hist, coqfam, pkind):
    """delta-debug: drop operations while a problem of the same kind remains (the model traces of
    all single-removal candidates are computed by one coqc call per round)"""
    cur = list(hist)
    for _ in range(40):
        if len(cur) <= 1:
            break
        cands = [cur[:i] + cur[i + 1:] for i in range(len(cur) - 1)]
        try:
            traces = coq_traces("C03_shrink", coqfam, cands)
        except Exception:
            break
        nxt = None
        for h, tr in zip(cands, traces):
            try:
                probs, _, _ = run_history(fam, oracle, h, tr)
            except Exception:
                continue
            if any(p["kind"] == pkind for p in probs):
                nxt = h
                break
        if nxt is None:
            break
        cur = nxt
    return cur


def explain(fam, oracle, hist, coqfam):
    """which single-invalidation-removed variants of the model consult a stale entry at the end of hist"""
    names = []
    try:
        vs = sorted(VARIANTS)
        cases = ["(%d%%nat, %d%%nat, %s)" % (coqfam, v, C.z_list(hist)) for v in vs]
        res = C.coq_run_cases("C03_explain" + TAGSFX, IMPORTS, RUN_DEF, cases, shard=len(cases))
        for v, r in zip(vs, res):
            tr = decode_trace(r, len(hist))
            if tr and not tr[-1]["indep"]:
                names.append(VARIANTS[v])
    except Exception as e:
        names.append("explanation failed: %r" % e)
    return names


def run(out, ctx):
    tier, seed = ctx["tier"], ctx["seed"]
    torch.set_num_threads(1)
    P = plan(tier, seed)
    if ONLY:
        P = [x for x in P if x[0] in ONLY]
        out.notes.append("restricted to families %s (VERIF_C03_FAMILIES)" % ONLY)
    nw = max(1, min(8, C.NPROC))
    jobs, total = [], 0
    exh = {}
    for gi, (famname, hists, bound) in enumerate(P):
        coqfam = FAMILIES[famname].coq
        traces = coq_traces("C03_%d" % gi, coqfam, hists)
        items = list(zip(hists, traces))
        total += len(items)
        if bound is not None:
            exh.setdefault(famname, []).append(
                "all sequences of %d ops over %d op kinds + final prediction (%d histories)" % (bound[0], bound[1], len(hists)))
        chunk = max(20, (len(items) + nw * 4 - 1) // (nw * 4))
        for i in range(0, len(items), chunk):
            jobs.append((famname, seed, items[i:i + chunk]))
    out.rule = ("operation histories over {Train, Eval, Step (training mode only), SetTrainData, LoadStateDict, Fantasy, "
                "PriorCall, Backward(non-detached), Predict x 4 settings x 3 batch shapes of the test inputs (n x d, "
                "2 x n x d, 3 x n x d)}; every prediction of every history is compared IN SHAPE AND VALUE with a freshly "
                "constructed model holding the current snapshot; exhaustive short histories use the 4 settings on un-batched "
                "inputs plus both batched shapes under one setting per family, random histories all 20 ops; non-trivial = a "
                "cache-populating op, later a mutating op (Step/SetTrainData/LoadStateDict), later a prediction, or two "
                "posterior calls on inputs of different batch shapes; the settings axis is family specific: the exact family "
                "with NaN training targets predicts under observation_nan_policy ignore / mask / fill / fast_pred_var+mask in "
                "every order; the KISS-GP family on a data-following grid (no grid_bounds) has data versions spanning "
                "different input ranges, a prior-mode call on the test range only, and one setting whose test inputs lie "
                "outside the training range")
    out.extra["tolerances"] = {"prediction vs fresh model": ATOL}
    out.extra["exhaustive_bounds"] = exh
    out.exhaustive = True
    ctxm = mp.get_context("fork")
    failures = []
    with ctxm.Pool(nw) as pool:
        for famname, res in pool.imap_unordered(_worker, jobs):
            for hist, problems, statuses in res:
                out.case(dict(family=famname, history=hist_names(hist)), is_nontrivial(hist), label="family=" + famname)
                out.count("len=%d" % len(hist))
                for st in statuses:
                    if st not in ("ok", "skip"):
                        out.count("op-raised:" + st)
                for p in problems:
                    if p["kind"] == "model-pessimistic":
                        out.count("model-pessimistic:%s:cfg%d" % (famname, p["cfg"]))
                        continue
                    failures.append((famname, hist, p))
    report_failures(out, failures, seed)
    out.tested_not_proved = ["the cache state machine is a hand-written abstraction of the code: its agreement with "
                             "the implementation (statuses, which snapshot a prediction is computed from) is tested",
                             "numerical agreement of cached and freshly computed quantities (1e-8)",
                             "which caches depend on the batch shape of the test inputs (model: only the variational Cholesky "
                             "factor; the exact strategies' caches, KISS-GP covar_cache included, are functions of the training "
                             "data only): tested by comparing shapes and values with a fresh model"]
    out.notes.append("Backward status is compared for the exact/default family only; other families log it")


def failure_key(famname, p, fam):
    if p["kind"] == "unkeyed":      # cannot occur while the model's history-independence theorem holds
        return "unkeyed-setting:%s:%s" % (famname, fam.cfg_names[3])
    if p["kind"] == "stale":
        return "stale:%s:%s:%s" % (famname, p["opkind"], fam.cfg_label(p["cfg"]))
    if p["kind"] == "batch-shape":
        return "batch-shape:%s:%s:%s" % (famname, p["opkind"], fam.cfg_label(p["cfg"]))
    if p["kind"] == "status":
        return "status:%s:impl=%s:model=%s" % (famname, p["impl"], p["model"])
    if p["kind"] == "fantasy-corrupts":
        return "fantasy-exception-corrupts-source:%s" % famname
    if p["kind"] == "exception":
        return "exception:%s:%s:%s" % (famname, fam.cfg_label(p["cfg"]), p["err"])
    return "harness:%s:%s" % (p["kind"], famname)


def report_failures(out, failures, seed):
    # group by key, shrink the shortest representative of each
    groups = {}
    fams = {}
    for famname, hist, p in failures:
        fam = fams.setdefault(famname, FAMILIES[famname](seed))
        groups.setdefault(failure_key(famname, p, fam), []).append((famname, hist, p))
    # the budget for shrinking / explaining goes to keys that are not recorded findings first
    try:
        import re
        known = [k["key"] for k in C.load_known() if k.get("property") == "C03" and k.get("status", "known") == "known"]
    except Exception:
        known = []
    order = sorted(groups.items(), key=lambda kv: (any(re.search(r, kv[0]) for r in known), kv[0]))
    for key, lst in order:
        famname, hist, p = min(lst, key=lambda t: (t[2]["pos"], len(t[1])))
        fam = fams[famname]
        oracle = Oracle(fam)
        h = hist[:p["pos"] + 1] if p["pos"] >= 0 else hist
        small, why = h, []
        nshrunk = getattr(report_failures, "n", 0)
        if p["kind"] in ("stale", "batch-shape", "unkeyed", "status", "exception", "fantasy-corrupts") and nshrunk < 6:
            report_failures.n = nshrunk + 1
            try:
                small = shrink(fam, oracle, h, fam.coq, p["kind"])
                if p["kind"] in ("stale", "batch-shape", "exception"):
                    why = explain(fam, oracle, small, fam.coq)
            except Exception as e:
                why = ["shrinking failed: %r" % e]
        what = {"stale": "prediction after the history differs from a freshly constructed model with the same "
                         "parameters/data/settings (max abs diff %s)" % p.get("diff"),
                "batch-shape": "prediction after the history has batch shape %s, a freshly constructed model with the same "
                               "parameters/data/settings returns %s (a cache carries the batch shape of an earlier call)" % (
                                   p.get("impl_shape"), p.get("fresh_shape")),
                "unkeyed": "prediction depends on the settings of an EARLIER call (cache not keyed by the setting); "
                           "differs from a fresh model by %s" % p.get("diff"),
                "status": "operation status differs from the model (impl %s, model %s)" % (p.get("impl"), p.get("model")),
                "exception": "a prediction raised %s after the history but not on a fresh model" % p.get("err"),
                "fantasy-corrupts": "get_fantasy_model raised %s and left the SOURCE model with train_inputs / "
                                    "train_targets / likelihood = None (later predictions silently come from the "
                                    "prior)" % p.get("err"),
                }.get(p["kind"], "harness problem: %s" % p.get("err"))
        what += " | family %s, minimal history %s" % (famname, hist_names(small))
        if why:
            what += " | explained by model variant(s): " + "; ".join(why)
        out.fail(key, what, dict(family=famname, history=small, history_names=hist_names(small), seed=seed,
                                 failing_cases=len(lst)), impl=p, model=None)


def replay(path):
    d = json.load(open(path))
    case = d["case"]
    fam = FAMILIES[case["family"]](case.get("seed", d.get("seed", 0)))
    hist = case["history"]
    tr = coq_traces("C03_replay", fam.coq, [hist])[0]
    problems, statuses, values = run_history(fam, Oracle(fam), hist, tr, keep=True)
    for o, t, s in zip(hist, tr, statuses):
        print("%-9s impl=%-14s model: status=%d versions=(%d,%d) indep=%d consulted(key,pv,dv,ck)=%s" % (
            OPS[o], s, t["st"], t["pv"], t["dv"], t["indep"], t["tags"]))
    problems = [p for p in problems if p["kind"] != "model-pessimistic"]
    for p in problems:
        print("PROBLEM", p)
    print("FAILS" if problems else "agrees")
    return 1 if problems else 0
