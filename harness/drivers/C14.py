"""C14 — variational predictive q(f) and KL(q(u)||p(u)) = closed forms, every strategy x every
variational distribution.
Tie C: the implementation supplies its own prior pieces (K and mean on [Z; X], jitter free) and
the raw PARAMETERS of the variational distribution; the Coq model (Models/C14_variational.v,
vm_compute over Qc, KL as an Expr term evaluated with mpmath) turns the parameters into
(m, S), pushes q(u) through the prior conditional and evaluates the closed-form KL.  Compared
with model(X).mean/.covariance_matrix (eval), .mean/.variance (train),
variational_distribution.mean/.covariance_matrix and kl_divergence()."""
import contextlib
import itertools
import json
import random
import warnings

import numpy as np
import torch

import gpytorch
from gpytorch import settings as gs
from gpytorch import variational as V
from harness.lib import common as C

COQ_TARGETS = ["Models/C14_variational.vo"]
LEVEL_NOTE = ("theorems are about the Gallina model; tie to /repo is differential (public outputs, float64 vs "
              "exact rationals / mpmath, tolerances in coverage.tolerances)")
IMPORTS = ("From Coq Require Import List ZArith QArith Qcanon.\n"
           "From GPV Require Import Base.LinAlg Base.Exec Base.Expr Models.C14_variational.")

torch.set_default_dtype(torch.float64)

DISTS = ["cholesky", "meanfield", "delta", "natural", "trilnatural"]
KIND = {d: i for i, d in enumerate(DISTS)}
STRATS = ["vs", "unwh", "ciq", "bdec", "orth", "grid", "lmc", "imt"]
KERNELS = ["rbf", "matern25", "scale_rbf", "rbf+linear"]
MEANS = ["zero", "constant", "linear"]
TOL = {"vs": 1e-8, "unwh": 1e-8, "bdec": 1e-8, "orth": 1e-8, "grid": 1e-8, "lmc": 1e-8, "imt": 1e-8, "ciq": 1e-4}


# --------------------------------------------------------------------------- model construction

KBITS = 16                 # kernel matrices of most cases are rounded to a 2^-16 grid (see DyadicKernel)
JIT_DY = 2.0 ** -20        # explicit jitter_val of those cases (a dyadic close to the 1e-6 default)
JIT_SET = 2.0 ** -17       # value given through settings.variational_cholesky_jitter in the `jset` cases


class DyadicKernel(gpytorch.kernels.Kernel):
    """k(x, x') rounded entrywise to a 2^-KBITS grid.  The strategies are generic in the kernel; rounding keeps
    the exact-rational model cheap (operands of ~100 instead of ~1000 bits) so that many more configurations
    fit in the budget.  Raw kernels are used in the `raw` cases."""

    def __init__(self, base):
        super().__init__()
        self.base_kernel = base

    @property
    def batch_shape(self):
        return self.base_kernel.batch_shape

    def forward(self, x1, x2, diag=False, **params):
        from linear_operator import to_dense
        k = to_dense(self.base_kernel.forward(x1, x2, diag=diag, **params))
        return torch.round(k * 2.0 ** KBITS) / 2.0 ** KBITS


def dy(rng, lo, hi, den=16):
    """a dyadic rational k/den in [lo, hi]"""
    return rng.randint(int(np.ceil(lo * den)), int(np.floor(hi * den))) / den

def make_kernel(name, d, bs, rng):
    k = gpytorch.kernels
    bsz = torch.Size(bs)

    def draw(lo, hi, shape=()):
        return torch.tensor(np.array([rng.uniform(lo, hi) for _ in range(int(np.prod(bs + list(shape)) or 1))])
                            .reshape(bs + list(shape))) if (bs or shape) else rng.uniform(lo, hi)

    def ls():
        return draw(0.5, 1.2, (1, 1)) if bs else rng.uniform(0.5, 1.2)
    if name == "rbf":
        m = k.RBFKernel(batch_shape=bsz); m.lengthscale = ls()
    elif name == "matern25":
        m = k.MaternKernel(nu=2.5, batch_shape=bsz); m.lengthscale = ls()
    elif name == "scale_rbf":
        m = k.ScaleKernel(k.RBFKernel(batch_shape=bsz), batch_shape=bsz)
        m.base_kernel.lengthscale = ls(); m.outputscale = draw(0.5, 2.5)
    else:
        a = k.RBFKernel(batch_shape=bsz); a.lengthscale = ls()
        b = k.LinearKernel(batch_shape=bsz); b.variance = draw(0.2, 1.0, (1, 1)) if bs else rng.uniform(0.2, 1.0)
        m = a + b
    return m


def make_mean(name, d, bs, rng):
    bsz = torch.Size(bs)
    if name == "zero":
        return gpytorch.means.ZeroMean(batch_shape=bsz)
    if name == "constant":
        m = gpytorch.means.ConstantMean(batch_shape=bsz)
        vals = [dy(rng, -1.5, 1.5, 8) for _ in range(int(np.prod(bs)) if bs else 1)]
        if len(vals) > 1 and len(set(vals)) == 1:
            vals[-1] += 0.5                 # batch members must be distinguishable
        m.constant.data.copy_(torch.tensor(vals).reshape(m.constant.shape))
        return m
    m = gpytorch.means.LinearMean(d, batch_shape=bsz)
    m.weights.data.copy_(torch.tensor([dy(rng, -1, 1, 8) for _ in range(m.weights.numel())]).reshape(m.weights.shape))
    m.bias.data.copy_(torch.tensor([dy(rng, -1, 1, 8) for _ in range(m.bias.numel())]).reshape(m.bias.shape))
    return m


def make_dist(name, m, bs):
    cls = {"cholesky": V.CholeskyVariationalDistribution, "meanfield": V.MeanFieldVariationalDistribution,
           "delta": V.DeltaVariationalDistribution, "natural": V.NaturalVariationalDistribution,
           "trilnatural": V.TrilNaturalVariationalDistribution}[name]
    return cls(m, batch_shape=torch.Size(bs))


def rand_spd(m, rng):
    """a well conditioned SPD matrix with dyadic entries: B B^T + D"""
    a = np.array([[dy(rng, -0.5, 0.5, 8) for _ in range(m)] for _ in range(m)])
    return a @ a.T + np.diag([dy(rng, 0.5, 1.25, 8) for _ in range(m)])


def fill_dist(dist, name, m, bs, rng, mode="random"):
    """set the raw parameters (dyadic values, exactly representable on both sides)"""
    nb = int(np.prod(bs)) if bs else 1

    def vec():
        return [[dy(rng, -1, 1) for _ in range(m)] for _ in range(nb)]
    with torch.no_grad():
        if name == "cholesky":
            L = []
            for _ in range(nb):
                a = [[dy(rng, -0.625, 0.625) for _ in range(m)] for _ in range(m)]   # upper part is garbage
                for i in range(m):
                    a[i][i] = dy(rng, 0.4, 1.3) * (-1 if rng.random() < 0.15 else 1)
                L.append(a)
            dist.variational_mean.copy_(torch.tensor(vec()).reshape(dist.variational_mean.shape))
            dist.chol_variational_covar.copy_(torch.tensor(L).reshape(dist.chol_variational_covar.shape))
        elif name == "meanfield":
            s = [[dy(rng, 0.3, 1.5) * (-1 if rng.random() < 0.2 else 1) for _ in range(m)] for _ in range(nb)]
            dist.variational_mean.copy_(torch.tensor(vec()).reshape(dist.variational_mean.shape))
            dist._variational_stddev.copy_(torch.tensor(s).reshape(dist._variational_stddev.shape))
        elif name == "delta":
            dist.variational_mean.copy_(torch.tensor(vec()).reshape(dist.variational_mean.shape))
        elif name == "natural":
            P = [(-0.5 * rand_spd(m, rng)).tolist() for _ in range(nb)]
            dist.natural_vec.copy_(torch.tensor(vec()).reshape(dist.natural_vec.shape))
            dist.natural_mat.copy_(torch.tensor(P).reshape(dist.natural_mat.shape))
        else:
            T = []
            for _ in range(nb):
                # garbage above the diagonal with probability 1/2 (solve_triangular must ignore it)
                junk = rng.random() < 0.5
                a = [[dy(rng, -0.625, 0.625) if (j < i or junk) else 0.0 for j in range(m)] for i in range(m)]
                for i in range(m):
                    a[i][i] = dy(rng, 0.5, 1.5)
                T.append(a)
            dist.natural_vec.copy_(torch.tensor(vec()).reshape(dist.natural_vec.shape))
            dist.natural_tril_mat.copy_(torch.tensor(T).reshape(dist.natural_tril_mat.shape))


def set_dist_to(dist, name, mean, cov):
    """make q(u) = N(mean, cov) (unbatched) through the raw parameters; used by the
    prior-fixed-point family.  Returns False if the class cannot represent it."""
    m = len(mean)
    mean_t, cov_t = torch.tensor(mean), torch.tensor(cov)
    with torch.no_grad():
        if name == "cholesky":
            dist.variational_mean.copy_(mean_t); dist.chol_variational_covar.copy_(torch.linalg.cholesky(cov_t))
        elif name == "natural":
            P = torch.linalg.inv(cov_t)
            dist.natural_vec.copy_(P @ mean_t); dist.natural_mat.copy_(-0.5 * P)
        elif name == "trilnatural":
            Lc = torch.linalg.cholesky(cov_t)
            T = torch.linalg.solve_triangular(Lc, torch.eye(m), upper=False)
            dist.natural_vec.copy_(torch.linalg.solve(cov_t, mean_t)); dist.natural_tril_mat.copy_(T)
        elif name == "meanfield":
            if (cov_t - torch.diag(cov_t.diagonal())).abs().max() > 0:
                return False
            dist.variational_mean.copy_(mean_t); dist._variational_stddev.copy_(cov_t.diagonal().sqrt())
        else:
            return False
    return True


def dist_params(dist, name, bidx):
    """raw parameters of batch element bidx as (p1 list, P2 list of lists)"""
    def sel(t, ev):
        t = t.detach()
        lead = t.shape[:t.dim() - ev]
        if len(lead) == 0:
            return t
        return t.reshape(-1, *t.shape[t.dim() - ev:])[bidx % int(np.prod(lead))]
    m = dist.num_inducing_points
    if name == "cholesky":
        return sel(dist.variational_mean, 1).tolist(), sel(dist.chol_variational_covar, 2).tolist()
    if name == "meanfield":
        return sel(dist.variational_mean, 1).tolist(), [[v] for v in sel(dist._variational_stddev, 1).tolist()]
    if name == "delta":
        return sel(dist.variational_mean, 1).tolist(), [[0.0]]
    if name == "natural":
        return sel(dist.natural_vec, 1).tolist(), sel(dist.natural_mat, 2).tolist()
    return sel(dist.natural_vec, 1).tolist(), sel(dist.natural_tril_mat, 2).tolist()


class GP(gpytorch.models.ApproximateGP):
    def __init__(self, make_strategy, mean, kern):
        super().__init__(make_strategy(self))
        self.mean_module, self.covar_module = mean, kern

    def forward(self, x):
        return gpytorch.distributions.MultivariateNormal(self.mean_module(x), self.covar_module(x))


def mark_initialized(strategy):
    s = strategy
    while s is not None:
        v = getattr(s, "variational_params_initialized", None)
        if isinstance(v, torch.Tensor):
            v.fill_(1)
        s = getattr(s, "base_variational_strategy", None)


def points(rng, k, d, lo=-36, hi=36, sep=0.5):
    for _ in range(500):
        pts = [[rng.randint(lo, hi) / 8.0 for _ in range(d)] for _ in range(k)]
        if all(max(abs(a - b) for a, b in zip(p, q)) >= sep for p, q in itertools.combinations(pts, 2)):
            return pts
    return pts


# --------------------------------------------------------------------------- case generation

def gen_cases(rng, tier):
    cases = []
    big = tier != "quick"

    def msize():
        # inducing sets 2..5; the exact-rational cost grows steeply with m, so small sets dominate
        return rng.choice([2, 2, 3, 3, 3, 4, 4, 5] if not big else [2, 3, 3, 4, 4, 5, 5])

    def base(strat, dist, **kw):
        c = dict(strat=strat, dist=dist, m=msize(), n=rng.randint(2, 3), d=rng.randint(1, 2),
                 kernel=rng.choice(KERNELS), mean=rng.choice(MEANS), batch="none", family="random", raw=False,
                 hseed=rng.randint(0, 10 ** 9))
        c.update(kw)
        return c
    reps = 1 if not big else 5
    for rep in range(reps):
        # every strategy x every distribution, unbatched
        for strat in ("vs", "unwh", "ciq", "bdec", "grid"):
            for k, dist in enumerate(DISTS):
                if strat in ("bdec", "grid") and dist == "delta":
                    continue            # refused by the code (NotImplementedError / RuntimeError) — see check_refusals
                c = base(strat, dist)
                if strat == "grid":
                    c.update(m=rng.choice([5, 6]), d=1, n=rng.randint(2, 3))
                if strat == "bdec":
                    c.update(m=rng.choice([2, 3, 3, 4]))
                cases.append(c)
        # grid interpolation in d = 2 (4 x 4 nodes, different bounds per dimension): inputs at grid nodes, so that
        # q(f) must be the marginal of q(u) at the inducing points equal to the inputs (predictive only, see run_c14 5)
        for dist in ("cholesky", "meanfield") * (1 if not big else 3):
            cases.append(base("grid", dist, m=16, gsize=4, d=2, n=rng.randint(2, 3), family="grid2d",
                              kernel=rng.choice(["rbf", "matern25", "scale_rbf"])))
        # the same grid once more with m forced to the largest size 5 (quick: plain strategies only)
        for strat in ("vs", "unwh", "ciq"):
            for dist in (DISTS if big else rng.sample(DISTS, 2)):
                cases.append(base(strat, dist, m=5, n=2))
        # raw (unrounded) kernels and the default jitter: small sizes
        for strat in ("vs", "unwh", "ciq", "bdec", "orth"):
            for dist in (DISTS if big else rng.sample(DISTS, 2)):
                if strat == "bdec" and dist == "delta":
                    continue
                cases.append(base(strat, dist, raw=True, m=rng.randint(2, 3), n=2, g=2))
        # jitter taken from settings.variational_cholesky_jitter (the `jitter_val is None` branch of jitter_val / LMC)
        for strat in ("vs", "unwh", "ciq", "bdec", "orth", "lmc"):
            dist = rng.choice([x for x in DISTS if not (strat == "bdec" and x == "delta")])
            kw = dict(jset=True, m=rng.randint(2, 3), n=2)
            if strat == "orth":
                kw.update(g=2)
            if strat == "lmc":
                kw.update(T=2, Q=rng.randint(1, 2), zbatch=False, kbatch=rng.random() < 0.5, ti=[0, 1])
            cases.append(base(strat, dist, **kw))
        # batch patterns for the three plain strategies
        for strat in ("vs", "unwh", "ciq"):
            for bp in ("model", "x", "both", "params"):
                for dist in rng.sample(DISTS, 2 if not big else 5):
                    cases.append(base(strat, dist, batch=bp, m=rng.randint(2, 3), n=2))
        # batch-decoupled with separate mean/variance hyperparameters
        # (a prior mean that differs between the mean half and the variance half: the two halves are distinguishable)
        for k, dist in enumerate(("cholesky", "meanfield", "natural", "trilnatural")):
            cases.append(base("bdec", dist, batch="hypers", m=rng.randint(2, 3), mean=("constant", "linear")[k % 2]))
        # orthogonally decoupled on top of a whitened base with every base distribution
        for dist in DISTS:
            cases.append(base("orth", dist, m=rng.randint(2, 3), n=2, g=rng.randint(2, 3)))
        # multitask wrappers
        for strat in ("lmc", "imt"):
            for dist in DISTS:
                T = rng.randint(2, 3)
                nn = rng.randint(2, 3)
                t0, st = rng.randrange(T), rng.randint(1, T - 1)   # neighbouring inputs on different tasks
                cases.append(base(strat, dist, m=rng.randint(2, 3), n=nn, T=T,
                                  Q=rng.randint(1, 3), zbatch=rng.random() < 0.5, kbatch=rng.random() < 0.5,
                                  ti=[(t0 + i * st) % T for i in range(nn)]))
        # BATCHES of multitask models: variational parameters of batch shape [2, Q] (LMC) / [2, T] (independent
        # multitask): per-model mixing coefficients, kernels / inducing points batched or shared; q(f) and
        # kl_divergence() of every batch element against the closed form of that element
        for strat in ("lmc", "imt"):
            for dist in (DISTS if big else rng.sample(DISTS, 3)):
                T = 2
                nn = 2
                cases.append(base(strat, dist, m=2, n=nn, T=T, Q=rng.randint(1, 2) if strat == "lmc" else T, mtbatch=2,
                                  zbatch=rng.random() < 0.5, kbatch=rng.random() < 0.5,
                                  ti=[rng.randrange(T) for _ in range(nn)]))
        # legacy checkpoints: a state dict WITHOUT the `updated_strategy` flag holds the parameters of an UNWHITENED
        # q(u) = N(m, S); VariationalStrategy converts them on the first call after loading.  The first call is made in
        # eval mode, in train mode, or in eval mode on a model object that was already evaluated with other parameters;
        # compared with the unwhitened closed form of the ORIGINAL (m, S)
        for k, first in enumerate(("eval", "train", "evaluated-eval")):
            for dist in (("cholesky", "natural", "trilnatural") if big else
                         ("cholesky", ("natural", "trilnatural", "cholesky")[(k + rep) % 3])):
                cases.append(base("vs", dist, family="legacy", first=first, m=rng.randint(2, 3), n=2,
                                  batch=rng.choice(["none", "none", "params", "model"])))
        # q(u) = p(u): q(f) must be the prior, KL = 0
        for strat in ("vs", "unwh", "ciq"):
            for dist in ("cholesky", "natural", "trilnatural") + (("meanfield",) if strat != "unwh" else ()):
                cases.append(base(strat, dist, family="prior", m=rng.randint(2, 3)))
        # unwhitened shortcut X == Z
        for dist in ("cholesky", "meanfield", "natural", "trilnatural"):
            cases.append(base("unwh", dist, family="x_is_z", m=rng.randint(2, 3)))
        # whitened parameters through the unwhitened closed form (theorem cross-check), tiny
        for strat in ("vs", "ciq"):
            cases.append(base(strat, "cholesky", m=2, n=2, family="crossform"))
    return cases


class Built:
    pass


def build(case):
    rng = random.Random(case["hseed"])
    torch.manual_seed(case["hseed"])
    b = Built()
    b.case = case
    strat, dist, m, n, d = case["strat"], case["dist"], case["m"], case["n"], case["d"]
    bp = case.get("batch", "none")
    nb = 2
    mb = [nb] if bp in ("model", "both") else []          # batch shape of kernel/mean/Z
    pb = [nb] if bp in ("model", "both", "params") else []  # batch shape of the variational parameters
    xb = [nb] if bp in ("x", "both") else []
    if strat in ("lmc", "imt"):
        Q = case["Q"] if strat == "lmc" else case["T"]
        lead = [case["mtbatch"]] if case.get("mtbatch") else []
        pb = lead + [Q]
        mb = lead + [Q] if case.get("kbatch") else []
    if strat == "bdec" and bp == "hypers":
        mb = [2]
    kern = make_kernel(case["kernel"], d, mb, rng)
    if not case.get("raw"):
        kern = DyadicKernel(kern)
    jkw = {} if (case.get("raw") or case.get("jset")) else dict(jitter_val=JIT_DY)
    mean = make_mean(case["mean"], d, mb, rng)
    allpts = points(rng, m + n + case.get("g", 0) + (m if strat == "bdec" else 0), d)
    Z = torch.tensor(allpts[:m])
    X = torch.tensor(allpts[m:m + n])
    if case["family"] == "x_is_z":
        X = Z.clone(); n = m; case = dict(case, n=m); b.case = case
    Zg = torch.tensor(allpts[m + n:m + n + case.get("g", 0)]) if case.get("g") else None
    Z2 = torch.tensor(allpts[m + n + case.get("g", 0):])     # second inducing set (batch-decoupled)
    if bp in ("model", "both") or (strat in ("lmc", "imt") and case.get("zbatch")):
        zb = mb if bp in ("model", "both") else pb
        Z = torch.stack([Z + 0.125 * k for k in range(zb[-1])])
        if len(zb) == 2:
            Z = torch.stack([Z + 0.0625 * k for k in range(zb[0])])
    if xb:
        X = torch.stack([X + 0.0625 * k for k in range(nb)])
    vd = make_dist(dist, m, pb)
    b.dist = vd
    b.pb = pb
    if strat == "vs":
        mk = lambda mod: V.VariationalStrategy(mod, Z, vd, learn_inducing_locations=True, **jkw)  # noqa: E731
    elif strat == "unwh":
        mk = lambda mod: V.UnwhitenedVariationalStrategy(mod, Z, vd, learn_inducing_locations=True, **jkw)  # noqa: E731
    elif strat == "ciq":
        mk = lambda mod: V.CiqVariationalStrategy(mod, Z, vd, learn_inducing_locations=True, **jkw)  # noqa: E731
    elif strat == "bdec":
        mk = lambda mod: V.BatchDecoupledVariationalStrategy(  # noqa: E731
            mod, Z, vd, learn_inducing_locations=True, mean_var_batch_dim=(-1 if bp == "hypers" else None), **jkw)
    elif strat == "orth":
        def mk(mod):
            basevs = V.VariationalStrategy(mod, Z, vd, learn_inducing_locations=True, **jkw)
            return V.OrthogonallyDecoupledVariationalStrategy(basevs, Zg, V.DeltaVariationalDistribution(Zg.size(-2)), **jkw)
    elif strat == "grid":
        lo, hi = -1.0, 1.0 + 0.25 * rng.randint(0, 4)
        gb = [(lo, hi)] if d == 1 else [(lo, hi), (lo + 0.5, hi + 1.0 + 0.25 * rng.randint(0, 4))]
        mk = lambda mod: V.GridInterpolationVariationalStrategy(mod, case.get("gsize", m), gb, vd)  # noqa: E731
    elif strat == "lmc":
        mk = lambda mod: V.LMCVariationalStrategy(  # noqa: E731
            V.VariationalStrategy(mod, Z, vd, learn_inducing_locations=True, **jkw), num_tasks=case["T"],
            num_latents=case["Q"], latent_dim=-1, **jkw)
    else:
        mk = lambda mod: V.IndependentMultitaskVariationalStrategy(  # noqa: E731
            V.VariationalStrategy(mod, Z, vd, learn_inducing_locations=True, **jkw), num_tasks=case["T"])
    model = GP(mk, mean, kern)
    vs = model.variational_strategy
    mark_initialized(vs)
    fill_dist(vd, dist, m, pb, rng)
    with torch.no_grad():
        if strat == "bdec":
            # the two inducing sets are one parameter of shape [2, m, d] ([m, 2?]...): make them differ
            ip = vs.inducing_points
            idx = [slice(None)] * ip.dim()
            idx[-3] = 1
            ip[tuple(idx)] = Z2
        if strat == "orth":
            vs._variational_distribution.variational_mean.copy_(
                torch.tensor([dy(rng, -1, 1) for _ in range(Zg.size(-2))]))
        if strat == "lmc":
            vs.lmc_coefficients.copy_(torch.tensor([[dy(rng, -1.5, 1.5, 8) for _ in range(case["T"])]
                                                    for _ in range(vs.lmc_coefficients.numel() // case["T"])])
                                      .reshape(vs.lmc_coefficients.shape))
        if strat == "grid" and d == 1:
            g = vs.grid[:, 0]
            nodes = sorted(rng.sample(range(2, m - 2 + 1), min(n, m - 3))) if m - 3 >= 1 else [2]
            nodes = [rng.choice(range(1, m - 1)) for _ in range(n)]
            b.grid_idx = nodes
            X = g[nodes].clone().unsqueeze(-1)
        elif strat == "grid":
            # n distinct inducing points (public attribute) as inputs; at least one off the diagonal of the grid
            gsz = case["gsize"]
            for _ in range(100):
                nodes = rng.sample(range(m), n)
                if any(p % gsz != p // gsz for p in nodes):
                    break
            b.grid_idx = nodes
            X = vs.inducing_points[nodes].detach().clone()
    b.model, b.vs, b.X, b.Zg = model, vs, X, Zg
    b.jit = float(vs.jitter_val) if strat not in ("lmc", "imt") else float(vs.base_variational_strategy.jitter_val)
    return b


def base_strategy(b):
    s = b.vs
    if b.case["strat"] in ("lmc", "imt"):
        return s.base_variational_strategy
    if b.case["strat"] == "orth":
        return s.model
    return s


def prior_pieces(b):
    """the implementation's own prior on [Z; X (; Zg)], expanded over the joint batch shape:
    returns (batch_shape, K [B, N, N], mu [B, N]) with B flattened"""
    s = base_strategy(b)
    Z = s.inducing_points.detach()
    X = b.X
    strat = b.case["strat"]
    if strat == "bdec":
        X = X.unsqueeze(-3)
    if strat == "grid":
        full = Z
    else:
        extra = [b.Zg] if strat == "orth" else []
        bs = torch.broadcast_shapes(Z.shape[:-2], X.shape[:-2])
        parts = [Z.expand(*bs, *Z.shape[-2:]), X.expand(*bs, *X.shape[-2:])] + \
                [e.expand(*bs, *e.shape[-2:]) for e in extra]
        full = torch.cat(parts, -2)
    with torch.no_grad(), gs.debug(False):
        J = b.model.forward(full)
        K = J.covariance_matrix
        mu = J.mean
    bs = torch.broadcast_shapes(K.shape[:-2], mu.shape[:-1], torch.Size(list(b.dist.batch_shape)) if strat != "bdec" else K.shape[:-2])
    K = K.expand(*bs, *K.shape[-2:]).reshape(-1, *K.shape[-2:])
    mu = mu.expand(*bs, mu.shape[-1]).reshape(-1, mu.shape[-1])
    return list(bs), K, mu


def same_prior_under(b, variant):
    """the prior pieces handed to the model were computed under default settings; a settings variant that changes how the
    kernel is evaluated (trace_mode: explicit distances) may move an entry by an ulp, which the 2^-KBITS rounding of
    DyadicKernel could amplify: such a case is skipped for that variant (never observed; counted if it happens)"""
    with _multi(*VARIANTS[variant]()):
        _, K1, mu1 = prior_pieces(b)
    _, K0, mu0 = prior_pieces(b)
    return K0.shape == K1.shape and float((K0 - K1).abs().max()) <= 1e-13 and float((mu0 - mu1).abs().max()) <= 1e-13


def kzz_cond(b):
    _, K, _ = prior_pieces(b)
    m = b.case["m"]
    return max(float(torch.linalg.cond(K[i][:m, :m] + b.jit * torch.eye(m))) for i in range(K.shape[0]))


def tight():
    return _multi(gs.cg_tolerance(1e-10), gs.eval_cg_tolerance(1e-10), gs.minres_tolerance(1e-10),
                  gs.num_contour_quadrature(40), gs.max_cg_iterations(2000), gs.ciq_samples(False))


class _multi:
    def __init__(self, *cms):
        self.cms = cms

    def __enter__(self):
        for c in self.cms:
            c.__enter__()

    def __exit__(self, *a):
        for c in reversed(self.cms):
            c.__exit__(*a)
        return False


# settings-selected branches of the anchored strategies (grep `settings.` / `trace_mode` in gpytorch/variational): every
# built configuration is evaluated once more under each of these and compared with the SAME closed form
VARIANTS = {
    # dense branch of VariationalStrategy.forward (and the explicit-distance branch of the stationary kernels)
    "trace_mode": lambda: [gs.trace_mode(True)],
    # model.forward returns evaluated kernel matrices instead of LazyEvaluatedKernelTensors
    "lazy_kernels_off": lambda: [gs.lazily_evaluate_kernels(False)],
    # num_induc > max_cholesky_size: UnwhitenedVariationalStrategy keeps Kzz lazy and solves with (tight) CG
    "max_cholesky_size_0": lambda: [gs.max_cholesky_size(0)],
    # fast_computations off with max_cholesky_size(0): the first disjunct of the Cholesky test decides
    "fast_computations_off": lambda: [gs.fast_computations(covar_root_decomposition=False, log_prob=False, solves=False),
                                      gs.max_cholesky_size(0)],
    # UnwhitenedVariationalStrategy eval shortcut (mean only); every other strategy must be unaffected
    "skip_posterior_variances": lambda: [gs.skip_posterior_variances(True)],
    # no consumer in the variational package: must be inert
    "memory_efficient_no_toeplitz": lambda: [gs.memory_efficient(True), gs.use_toeplitz(False)],
}
# CG at the tightest tolerance linear_cg can reach: its eps = 1e-10 regulariser floors the relative residual at ~1e-6 (it
# reports "terminated in 2000 iterations with average residual norm 5e-7" on a 5 x 5 system of condition number 12), so the
# solution error is ~1e-6 x cond(Kzz + jitter): tolerance 1e-5 x cond, cases with cond > 100 are not run on this path
VARIANT_TOL = {"max_cholesky_size_0": 1e-5}
CG_MAX_COND = 100.0
VARIANT_SKIP_KL = {"max_cholesky_size_0"}        # the log-determinant is a stochastic trace estimate on that path
KNOWN_KEY_PREFIXES = ("kl:unwh:prior-default-jitter:", "cov-diagonal-only:ciq:natural", "kl-zero:ciq:natural")


def variants_for(case, tier):
    if case["family"] == "grid2d":
        return []
    vs_ = ["trace_mode", "lazy_kernels_off", "fast_computations_off", "skip_posterior_variances"]
    if case["strat"] == "unwh":
        # the only reader of max_cholesky_size in the anchored files.  (Elsewhere the setting only switches linear_operator's
        # own root decompositions to Lanczos approximations whose error no tolerance setting controls.)
        vs_.append("max_cholesky_size_0")
    if case["strat"] == "grid":
        vs_.append("memory_efficient_no_toeplitz")
    if case["strat"] == "ciq" and tier == "quick":
        # contour-integral quadrature is the slow one: the settings its own code reads plus one rotating other
        vs_ = ["lazy_kernels_off", vs_[case["hseed"] % len(vs_)]]
        vs_ = sorted(set(vs_))
    return vs_


class VariantOut:
    """forwards failures with the settings variant in key, text and case (keys of recorded known findings unchanged:
    the same finding under another setting is the same finding)"""

    def __init__(self, out, variant):
        self.out, self.variant = out, variant

    def fail(self, key, what, case, **kw):
        if not key.startswith(KNOWN_KEY_PREFIXES):
            key = "%s@%s" % (key, self.variant)
        case = dict(case, settings=self.variant) if isinstance(case, dict) else case
        self.out.fail(key, "%s [under gpytorch.settings %s]" % (what, self.variant), case, **kw)


class HistoryOut:
    """failures of a re-evaluation after a parameter change: key and text say which history"""

    def __init__(self, out, hist):
        self.out, self.hist = out, hist

    def fail(self, key, what, case, **kw):
        if not key.startswith(KNOWN_KEY_PREFIXES):
            key = "%s@history:%s" % (key, self.hist)
        case = dict(case, history=self.hist) if isinstance(case, dict) else case
        self.out.fail(key, "%s [after the history %s on one model object: the first evaluation is made with OTHER "
                      "parameters; compared with the closed form at the parameters in force at the last evaluation]"
                      % (what, self.hist), case, **kw)


def impl_outputs(b, variant=None, modes=("eval", "train"), toggle=True):
    """public outputs in eval and training mode (variant: name of a VARIANTS entry active during the calls);
    toggle=False: the model is called in the mode it is in, without calling .eval() / .train() again"""
    res = {}
    for mode in modes:
        if toggle:
            getattr(b.model, mode)()
        elif b.model.training != (mode == "train"):
            raise RuntimeError("model is not in %s mode" % mode)
        with torch.no_grad(), tight(), _multi(*(VARIANTS[variant]() if variant else [])):
            out = b.model(b.X)
            r = dict(mean=out.mean.detach().clone(), var=out.variance.detach().clone())
            if mode == "eval":
                r["cov"] = out.covariance_matrix.detach().clone()
            try:
                r["kl"] = b.vs.kl_divergence().detach().clone()
            except Exception as e:  # noqa: BLE001
                r["kl_exc"] = "%s: %s" % (type(e).__name__, e)
            if b.case["strat"] in ("lmc", "imt"):
                # second public mode of the multitask wrappers: one task per input -> MultivariateNormal
                ti = torch.tensor(b.case["ti"], dtype=torch.long)
                try:
                    o2 = b.model(b.X, task_indices=ti)
                    r["ti_mean"] = o2.mean.detach().clone()
                    r["ti_var"] = o2.variance.detach().clone()
                    if mode == "eval":
                        r["ti_cov"] = o2.covariance_matrix.detach().clone()
                except Exception as e:  # noqa: BLE001
                    r["ti_exc"] = "%s: %s" % (type(e).__name__, e)
            if mode == "eval" and b.case["family"] != "legacy" and not (b.case["strat"] == "ciq" and b.case["dist"] == "natural"):
                q = base_strategy(b).variational_distribution
                r["qmean"] = q.mean.detach().clone()
                if b.case["dist"] != "delta":
                    r["qcov"] = q.covariance_matrix.detach().clone()
        res[mode] = r
    return res


# ---- re-evaluation after a parameter change on a model that has ALREADY been evaluated
# The closed form is a function of the CURRENT parameters: whatever a strategy memoised during an earlier evaluation
# (Cholesky factor of K_ZZ, q(u), p(u), cached solves) must not survive load_state_dict / a train-mode parameter update.
HISTORIES = ["eval,load_state_dict,eval", "eval,train,assign,eval"]


def other_parameters(b, rng):
    """move EVERY parameter of the model to another valid value, in place: a fresh q(u) from the case generator's own
    fill_dist, raw hyper-parameters / mean weights / mixing coefficients shifted by a dyadic constant, inducing points
    translated"""
    case = b.case
    own = {id(p) for p in b.dist.parameters()}
    with torch.no_grad():
        fill_dist(b.dist, case["dist"], case["m"], b.pb, rng)
        for name, p in b.model.named_parameters():
            if id(p) in own:
                continue
            if name.endswith("inducing_points"):
                p.add_(rng.choice([-0.1875, 0.1875, 0.3125]))
            else:
                p.add_(torch.tensor([rng.choice([-0.375, -0.25, 0.25, 0.375]) for _ in range(p.numel())]).reshape(p.shape))


def impl_history(b, hist, rng):
    """run the history on b.model; returns the impl dict (eval outputs = those of the LAST step of the history, train
    outputs taken afterwards) or None when the old-parameter evaluation itself is not possible.  The model ends with the
    parameters it started with."""
    model = b.model
    new = {k: v.detach().clone() for k, v in model.state_dict().items()}
    model.eval()
    try:
        other_parameters(b, rng)
        with torch.no_grad(), tight():
            o = model(b.X); o.covariance_matrix      # fills the memoised pieces at the OLD parameters
            try:
                b.vs.kl_divergence()
            except Exception:  # noqa: BLE001
                pass
        if hist == "eval,load_state_dict,eval":
            model.load_state_dict(new)              # stays in eval mode
        else:
            model.train()
            with torch.no_grad():
                model(b.X)
                cur = dict(model.named_parameters()); cur.update(dict(model.named_buffers()))
                for k, v in new.items():
                    cur[k].data.copy_(v)
            model.eval()
        res = impl_outputs(b, modes=("eval",), toggle=False)
    finally:
        model.load_state_dict(new)
    model.train()
    res.update(impl_outputs(b, modes=("train",), toggle=False))
    return res


def legacy_load(out, b):
    """make b.model a model that has just loaded a checkpoint written before VariationalStrategy was whitened: the
    state dict of the built model (its variational parameters are then read as those of an UNWHITENED q(u) = N(m, S))
    without the `updated_strategy` entry - the recipe of the repository's test_loading_old_model - is loaded into the
    model object after that object was given other parameters and put into the mode of the case's `first` call
    ("evaluated-eval": additionally evaluated once, q(f) + KL, so that every memoised piece is populated)"""
    case = b.case
    sd = {k: v.detach().clone() for k, v in b.model.state_dict().items()}
    flags = [k for k in sd if k.endswith("updated_strategy")]
    if not flags:
        out.fail("harness:legacy:no-flag-in-state-dict", "state dict of a VariationalStrategy model has no updated_strategy entry",
                 short(case), no_input=True)
    for k in flags:
        del sd[k]
    other_parameters(b, random.Random(case["hseed"] * 17 + 5))
    first = case["first"]
    if first == "train":
        b.model.train()
    else:
        b.model.eval()
    if first == "evaluated-eval":
        with torch.no_grad(), tight():
            o = b.model(b.X); o.covariance_matrix
            b.vs.kl_divergence()
    with warnings.catch_warnings(record=True) as ws:
        warnings.simplefilter("always")
        b.model.load_state_dict(sd)
    from gpytorch.utils.warnings import OldVersionWarning
    if not any(issubclass(w.category, OldVersionWarning) for w in ws):
        out.fail("legacy:no-old-version-warning", "loading a state dict without `updated_strategy` raised no OldVersionWarning",
                 short(case))


def impl_legacy(b):
    """first call after loading in the mode of the case (no mode toggle before it), then the other mode"""
    if b.case["first"] == "train":
        res = impl_outputs(b, modes=("train",), toggle=False)
        res.update(impl_outputs(b, modes=("eval",)))
    else:
        res = impl_outputs(b, modes=("eval",), toggle=False)
        res.update(impl_outputs(b, modes=("train",)))
    return res


def sqrtm_sym(A):
    w, Vv = np.linalg.eigh(A)
    return (Vv * np.sqrt(w)) @ Vv.T


def root_of(b, Kzz):
    A = np.array(Kzz, dtype=float)
    if b.case["strat"] == "ciq":
        return sqrtm_sym(A).tolist()
    return np.linalg.cholesky(A).tolist()


def coq_term(strat_code, m, n, g, K, mu, jit3, kind, p1, p2, L, xv, idx):
    return "(%d%%nat, (%d%%nat, %d%%nat, %d%%nat), %s, %s, (%s, %s, %s), %d%%nat, %s, %s, %s, %s, %s)" % (
        strat_code, m, n, g, C.qc_mat(K), C.qc_vec(mu), C.qc_lit(jit3[0]), C.qc_lit(jit3[1]), C.qc_lit(jit3[2]),
        kind, C.qc_vec(p1), C.qc_mat(p2), C.qc_mat(L), C.qc_vec(xv) if xv else "(@nil Qc)",
        C.nat_list(idx) if idx else "(@nil nat)")


def plan(b, mode):
    """Coq cases for built configuration b (one per batch element); mode decides the jitter the
    code applies in that mode.  Returns list of (fn, term, meta)."""
    case = b.case
    strat, dist, m, n = case["strat"], case["dist"], case["m"], case["n"]
    bs, K, mu = prior_pieces(b)
    jit = b.jit
    kind = KIND[dist]
    out = []
    B = K.shape[0]
    b.bshape = bs
    for bi in range(B):
        Kb, mub = K[bi].tolist(), mu[bi].tolist()
        if strat == "bdec":
            continue
        pidx = bi
        if strat in ("vs", "unwh", "ciq", "orth", "lmc", "imt") and len(bs) > len(list(b.dist.batch_shape)):
            pidx = bi  # parameters broadcast over x batch: dist_params wraps modulo
        p1, p2 = dist_params(b.dist, dist, pidx)
        Kzz = [[Kb[i][j] + (jit if i == j else 0.0) for j in range(m)] for i in range(m)]
        if case["family"] == "legacy":
            # the loaded parameters are those of an UNWHITENED q(u) = N(m, S): unwhitened closed form with the
            # strategy's jitter on K_zz (predictive and prior of the KL) and on K_xx
            out.append(("run_c14", coq_term(0, m, n, 0, Kb, mub, (jit, jit, jit), kind, p1, p2, [[0.0]], [], []),
                        dict(bi=bi)))
        elif strat in ("vs", "lmc", "imt"):
            out.append(("run_c14", coq_term(1, m, n, 0, Kb, mub, (jit, jit, 0.0), kind, p1, p2, root_of(b, Kzz), [], []),
                        dict(bi=bi)))
            if case["family"] == "crossform":
                out.append(("run_c14", coq_term(4, m, n, 0, Kb, mub, (jit, jit, 0.0), kind, p1, p2, root_of(b, Kzz), [], []),
                            dict(bi=bi, cross=True)))
        elif strat == "ciq":
            jx = jit if dist == "natural" else 2 * jit
            out.append(("run_c14", coq_term(1, m, n, 0, Kb, mub, (jit, jx, 0.0), kind, p1, p2, root_of(b, Kzz), [], []),
                        dict(bi=bi)))
            if case["family"] == "crossform":
                out.append(("run_c14", coq_term(4, m, n, 0, Kb, mub, (jit, jx, 0.0), kind, p1, p2, root_of(b, Kzz), [], []),
                            dict(bi=bi, cross=True)))
        elif strat == "unwh":
            jzz = 0.0 if case["family"] == "x_is_z" else jit
            out.append(("run_c14", coq_term(0, m, n, 0, Kb, mub, (jzz, 0.0, jit), kind, p1, p2, [[0.0]], [], []),
                        dict(bi=bi)))
            # diagnosis only: the KL against a prior carrying linear_operator's DEFAULT add_jitter() value (1e-3)
            out.append(("run_c14", coq_term(0, m, 0, 0, [r[:m] for r in Kb[:m]], mub[:m], (jzz, 0.0, 1e-3), kind, p1, p2,
                                            [[0.0]], [], []), dict(bi=bi, alt=True)))
        elif strat == "grid":
            out.append(("run_c14", coq_term(5 if case["family"] == "grid2d" else 2, m, n, 0, Kb, mub, (0.0, 0.0, 1e-3),
                                            kind, p1, p2, [[0.0]], [], b.grid_idx), dict(bi=bi)))
        elif strat == "orth":
            g = case["g"]
            mg = b.vs._variational_distribution.variational_mean.detach().tolist()
            jg = float(b.vs.jitter_val) if mode == "eval" else 0.0
            out.append(("run_c14", coq_term(3, m, n, g, Kb, mub, (jit, jit, jg), kind, p1, p2, root_of(b, Kzz), mg, []),
                        dict(bi=bi)))
    if strat == "bdec":
        # K has batch [.., 2]: element 0 = mean set, 1 = variance set
        p1, p2 = dist_params(b.dist, dist, 0)
        trip = []
        for e in (0, 1):
            Kb, mub = K[e].tolist(), mu[e].tolist()
            Kzz = [[Kb[i][j] + (jit if i == j else 0.0) for j in range(m)] for i in range(m)]
            trip.append("(%s, %s, %s)" % (C.qc_mat(Kb), C.qc_vec(mub), C.qc_mat(root_of(b, Kzz))))
        term = "((%d%%nat, %d%%nat), %s, %s, %s, %d%%nat, %s, %s)" % (m, n, trip[0], trip[1], C.qc_lit(jit), kind,
                                                                   C.qc_vec(p1), C.qc_mat(p2))
        out.append(("run_c14_dec", term, dict(bi=0)))
        b.bshape = []
    return out


def decode(r, m, n, whitened):
    rd = C.Reader(r)
    if rd.int() != 1:
        return None
    d = dict(qmean=rd.qs(m), qcov=rd.qmat(m, m), mean=rd.qs(n), cov=rd.qmat(n, n))
    d["kl"] = rd.expr()
    if whitened and not rd.done():
        d["root_resid"] = rd.q()
    return d


def maxdiff(a, bq):
    a = np.array(a, dtype=float).reshape(-1)
    bq = np.array([float(v) for v in np.array(bq, dtype=object).reshape(-1)])
    if a.shape != bq.shape:
        return float("inf")
    if not np.all(np.isfinite(a)):
        return float("inf")
    return float(np.max(np.abs(a - bq) / (1.0 + np.abs(bq)))) if a.size else 0.0


def bsel(t, bshape, bi, ev):
    """element bi of tensor t broadcast over batch shape bshape (ev trailing event dims)"""
    evs = list(t.shape[t.dim() - ev:]) if ev else []
    if not bshape:
        return t.reshape(evs) if evs else t.reshape(())
    t = t.expand(*bshape, *evs)
    return t.reshape(-1, *evs)[bi]


def short(case):
    return {k: case[k] for k in ("strat", "dist", "m", "n", "d", "kernel", "mean", "batch", "family", "hseed", "jset", "raw",
                                 "first", "mtbatch") if k in case}


def compare_plain(out, b, impl, dec_by_mode, variant=None):
    """strategies whose output is one MVN per batch element"""
    case = b.case
    strat, dist = case["strat"], case["dist"]
    tol = max(TOL[strat], VARIANT_TOL.get(variant, 0.0) * max(1.0, getattr(b, "cond", 1.0)))
    mean_only_eval = variant == "skip_posterior_variances" and strat == "unwh" and case["family"] != "x_is_z"
    tag = "%s:%s" % (strat, dist)
    desc = short(case)
    ngd_ciq = strat == "ciq" and dist == "natural"
    for mode in ("eval", "train"):
        decs = dec_by_mode[mode]
        r = impl[mode]
        for bi, dm in enumerate(decs):
            if dm is None:
                out.fail("model:rejects:%s" % tag, "the model could not evaluate the case (singular matrix)", desc)
                return
            if "root_resid" in dm and float(dm["root_resid"]) > 1e-12:
                out.fail("harness:root:%s" % tag, "root supplied to the model is not a root of Kzz", desc, no_input=True)
            mean_i = bsel(r["mean"], b.bshape, bi, 1)
            e = maxdiff(mean_i, dm["mean"])
            if e > tol and case["family"] == "grid2d" and grid_lex_pairing(b, dm, mean_i, bsel(r["var"], b.bshape, bi, 1),
                                                                         bsel(r["cov"], b.bshape, bi, 2)
                                                                         if mode == "eval" else None, tol):
                out.fail("grid:index-order:lex-index-into-colmajor-inducing-points:%s" % mode,
                         "q(f) at the inducing point (grid_0[k0], grid_1[k1]) is the marginal of q(u) at the inducing "
                         "point (grid_0[k1], grid_1[k0]): Interpolation.interpolate's flat index (dimension 0 slowest) is "
                         "used on inducing points enumerated with dimension 0 fastest (mean off by %.3g)" % e, desc,
                         impl=mean_i.tolist(), model=[float(v) for v in dm["mean"]])
                continue
            if e > tol:
                out.fail("mean:%s:%s" % (tag, mode), "q(f) mean differs from the closed form by %.3g" % e, desc,
                         impl=mean_i.tolist(), model=[float(v) for v in dm["mean"]])
            diag = [max(float(dm["cov"][i][i]), 0.0) for i in range(len(dm["mean"]))]
            var_i = bsel(r["var"], b.bshape, bi, 1)
            if mode == "eval" and mean_only_eval:
                var_i = torch.tensor(diag)      # documented: no covariance is computed on this shortcut (mean and KL only)
            e = maxdiff(var_i, diag)
            if e > tol:
                out.fail("var:%s:%s" % (tag, mode), "q(f) variance differs from the closed form by %.3g" % e, desc,
                         impl=var_i.tolist(), model=diag)
            if mode == "eval" and not mean_only_eval:
                cov_i = bsel(r["cov"], b.bshape, bi, 2)
                e = maxdiff(cov_i, dm["cov"])
                if e > tol:
                    key = "cov:%s:eval" % tag
                    offd = cov_i - torch.diag(cov_i.diagonal())
                    if ngd_ciq and float(offd.abs().max()) == 0.0 and maxdiff(cov_i.diagonal(), diag) <= tol:
                        key = "cov-diagonal-only:ciq:natural"
                    out.fail(key, "q(f) covariance differs from Kxx - Kxz Kzz^-1 (Kzz - S) Kzz^-1 Kzx by %.3g" % e,
                             desc, impl=cov_i.tolist(), model=[[float(v) for v in row] for row in dm["cov"]])
                if dec_by_mode.get("cross"):   # the same q(f) through the unwhitened closed form (theorem)
                    dc = dec_by_mode["cross"][bi]
                    e2 = max(maxdiff(cov_i, dc["cov"]), maxdiff(mean_i, dc["mean"])) if dc else float("inf")
                    if e2 > max(tol, 1e-7):
                        out.fail("unwhitened-form:%s" % tag, "whitened output differs from the unwhitened closed form "
                                 "of u = mz + L e by %.3g" % e2, desc)
                if "qmean" in r:
                    e = maxdiff(bsel(r["qmean"], b.bshape, bi, 1), dm["qmean"])
                    if e > 1e-8:
                        out.fail("qu-mean:%s" % dist, "variational distribution mean is not what its parameters encode "
                                 "(%.3g)" % e, desc, impl=bsel(r["qmean"], b.bshape, bi, 1).tolist(),
                                 model=[float(v) for v in dm["qmean"]])
                if "qcov" in r:
                    e = maxdiff(bsel(r["qcov"], b.bshape, bi, 2), dm["qcov"])
                    if e > 1e-8:
                        out.fail("qu-cov:%s" % dist, "variational distribution covariance is not what its parameters "
                                 "encode (%.3g)" % e, desc, impl=bsel(r["qcov"], b.bshape, bi, 2).tolist(),
                                 model=[[float(v) for v in row] for row in dm["qcov"]])
            # KL
            if case["family"] == "grid2d" or variant in VARIANT_SKIP_KL:
                continue      # m = 16: beyond the model's determinant; the KL code path is that of the d = 1 cases
            if "kl" not in r:
                out.fail("kl-exception:%s:%s" % (tag, mode), "kl_divergence() raised %s" % r.get("kl_exc"), desc)
                continue
            kl = r["kl"]
            try:
                kl_i = float(bsel(kl, b.bshape, bi, 0))
            except Exception:  # noqa: BLE001
                out.fail("kl-shape:%s:%s" % (tag, mode), "kl_divergence() has shape %s for batch shape %s" %
                         (list(kl.shape), b.bshape), desc)
                continue
            want = float(dm["kl"])
            ktol = max(tol, 1e-8)
            if not abs(kl_i - want) <= ktol * (1 + abs(want)):
                key = "kl:%s:%s" % (tag, mode)
                note = ""
                alt = dec_by_mode.get("alt")
                if alt and alt[bi] is not None and abs(kl_i - float(alt[bi]["kl"])) <= ktol * (1 + abs(want)):
                    key = "kl:unwh:prior-default-jitter:%s" % mode
                    note = (" (it equals the KL against N(mz, Kzz + 1e-3 I): prior_distribution uses add_jitter() with "
                            "the library default instead of jitter_val=%.3g)" % b.jit)
                elif ngd_ciq and kl_i == 0.0:
                    key = "kl-zero:ciq:natural"
                    note = " (NGD-CIQ never computes the KL value in the forward pass)"
                out.fail(key, "kl_divergence() = %.10g but KL(q(u)||p(u)) = %.10g%s" % (kl_i, want, note),
                         desc, impl=kl_i, model=want)
            if case["family"] == "prior":
                pm = bsel(r["mean"], b.bshape, bi, 1)
                if abs(want) > 1e-7:
                    out.fail("harness:prior-family", "model KL at q(u)=p(u) is %.3g, not 0" % want, desc, no_input=True)


def balanced_coq_run(tag, run_def, terms, nshards=16):
    """coq_run_cases with the cases dealt round-robin (heaviest first; cost proxy = size of the term, which grows
    with m and with the bit length of the entries) into nshards files, so that one coqc per core finishes at about
    the same time; results are returned in the original order"""
    k = max(1, min(nshards, len(terms)))
    size = (len(terms) + k - 1) // k
    order = sorted(range(len(terms)), key=lambda i: -len(terms[i]))
    # lay the round-robin hands out one after the other; coq_run_cases cuts contiguous chunks of `size`, which
    # coincide with the hands up to one element
    perm = [i for j in range(k) for i in order[j::k]]
    r = C.coq_run_cases(tag, IMPORTS, run_def, [terms[i] for i in perm], shard=size)
    out = [None] * len(terms)
    for pos, i in enumerate(perm):
        out[i] = r[pos]
    return out


def grid_lex_pairing(b, dm, mean_i, var_i, cov_i, tol):
    """diagnosis for the d >= 2 grid strategy: do ALL outputs equal the marginal of q(u) at the nodes with the two
    grid coordinates exchanged (flat index k0*g + k1 read in the k0 + g*k1 enumeration of the inducing points)?"""
    g = b.case["gsize"]
    alt = [(p % g) * g + p // g for p in b.grid_idx]
    am = [dm["qmean"][p] for p in alt]
    ac = [[dm["qcov"][p][q] for q in alt] for p in alt]
    if maxdiff(mean_i, am) > tol or maxdiff(var_i, [ac[i][i] for i in range(len(alt))]) > tol:
        return False
    return cov_i is None or maxdiff(cov_i, ac) <= tol


def run(out, ctx):
    tier, seed = ctx["tier"], ctx["seed"]
    rng = random.Random(seed * 104729 + 14)
    cases = gen_cases(rng, tier)
    out.rule = ("every strategy {VariationalStrategy, Unwhitened, CIQ (tight tolerances), BatchDecoupled, "
                "OrthogonallyDecoupled, GridInterpolation (inputs at grid nodes; d = 1 and a 4 x 4 grid in d = 2), LMC, IndependentMultitask (all-tasks and one-task-per-input task_indices mode)} x every "
                "variational distribution {Cholesky (garbage above the diagonal, negative diagonal entries), MeanField "
                "(negative stddev), Delta, Natural, TrilNatural}; inducing sets 2..5, d 1..2, 4 kernels x 3 means; batch "
                "patterns none / model / x / both / params-only; families: random q(u), q(u)=p(u), X==Z (unwhitened "
                "shortcut), initialize_variational_distribution round trip for every class; eval mode mean+full "
                "covariance+KL, training mode mean+variance+KL; every configuration is evaluated again under each settings-selected "
                "branch (trace_mode, lazily_evaluate_kernels off, fast_computations off + max_cholesky_size(0), "
                "skip_posterior_variances, for the unwhitened strategy max_cholesky_size(0) = CG solves, for the grid strategy "
                "memory_efficient / use_toeplitz off; CIQ in the quick tier: lazily_evaluate_kernels off + one rotating other) and "
                "compared with the same closed form; cases taking the jitter from settings.variational_cholesky_jitter; every "
                "configuration is also RE-evaluated on a model object that was first evaluated (eval mode, q(f) + KL) with OTHER "
                "parameters (fresh q(u), shifted hyper-parameters / mean / mixing coefficients, translated inducing points): "
                "histories eval -> load_state_dict(parameters) -> eval without leaving eval mode, and eval -> train -> in-place "
                "parameter assignment -> eval; the outputs are compared with the closed form at the parameters in force. "
                "BATCHES of multitask models (LMC / independent multitask with variational batch shape [2, Q] / [2, T], per-model "
                "mixing coefficients): q(f), task_indices mode and kl_divergence() per model of the batch.  Legacy checkpoints: a "
                "state dict without the `updated_strategy` flag (parameters of an unwhitened q(u) = N(m, S); Cholesky / Natural / "
                "TrilNatural, unbatched and batched) loaded into a whitened VariationalStrategy model holding other parameters, "
                "first call in eval mode / in train mode / in eval mode on an already evaluated object: mean, full covariance "
                "and KL against the unwhitened closed form of the original (m, S), then the settings variants and histories on "
                "the converted model.  non-trivial = q(u) != p(u)")
    out.extra["tolerances"] = dict(TOL, kl="same as strategy", qu_moments=1e-8,
                                   settings_variants="same as default settings; unwhitened CG path (max_cholesky_size(0)): "
                                   "1e-5 x cond(Kzz + jitter), cond <= %g, KL not compared (stochastic log-determinant)" % CG_MAX_COND)
    built, jobs = [], {"run_c14": [], "run_c14_dec": []}
    import time as _t
    variant_seconds = [0.0]
    history_seconds = [0.0]
    for case in cases:
        # `jset` cases take the jitter from gpytorch.settings.variational_cholesky_jitter (no explicit jitter_val):
        # construction, planning (reads strategy.jitter_val) and every call happen inside the context
        with (gs.variational_cholesky_jitter(double_value=JIT_SET) if case.get("jset") else contextlib.nullcontext()):
            try:
                b = build(case)
            except Exception as e:  # noqa: BLE001
                out.fail("impl-exception:build:%s:%s:%s" % (case["strat"], case["dist"], type(e).__name__),
                         "constructing the model raised %r" % e, short(case))
                continue
            if case["family"] == "prior":
                try:
                    set_prior(b)
                except Exception as e:  # noqa: BLE001
                    out.fail("harness:set-prior", "could not set q(u)=p(u): %r" % e, short(case), no_input=True)
                    continue
            if case["family"] == "legacy":
                try:
                    legacy_load(out, b)
                except Exception as e:  # noqa: BLE001
                    import traceback
                    out.fail("impl-exception:legacy-load:%s:%s" % (case["dist"], type(e).__name__),
                             "loading a state dict without the updated_strategy flag raised %r\n%s" % (e, traceback.format_exc()[-600:]),
                             short(case))
                    continue
            b.slots = {}
            try:
                for mode in ("eval", "train"):
                    if mode == "train" and case["strat"] != "orth":
                        b.slots[mode] = b.slots["eval"]
                        continue
                    pl = plan(b, mode)
                    b.slots[mode] = []
                    for fn, term, meta in pl:
                        if meta.get("cross") or meta.get("alt"):
                            b.slots.setdefault("cross" if meta.get("cross") else "alt", []).append((fn, len(jobs[fn])))
                        else:
                            b.slots[mode].append((fn, len(jobs[fn])))
                        jobs[fn].append(term)
                b.impl = impl_legacy(b) if case["family"] == "legacy" else impl_outputs(b)
                b.impl_var = {}
                if not ctx.get("only_variant_free"):
                    _tv = _t.time()
                    for vname in variants_for(case, tier):
                        try:
                            if not same_prior_under(b, vname):
                                out.count("excluded: prior pieces differ in the last bits under settings=%s" % vname)
                                continue
                        except Exception as e:  # noqa: BLE001
                            # the model's own kernel cannot be evaluated under this setting (seen: DenseLinearOperator +
                            # RootLinearOperator of an RBF + Linear kernel runs a Lanczos root_inv_decomposition of the
                            # jitter-free kernel matrix under max_cholesky_size(0)): not the strategy's business
                            out.count("excluded: model.forward raises %s under settings=%s" % (type(e).__name__, vname))
                            continue
                        if vname in VARIANT_TOL:
                            b.cond = kzz_cond(b)
                            if b.cond > CG_MAX_COND:
                                out.count("excluded: cond(Kzz + jitter) > %g for the CG path" % CG_MAX_COND)
                                continue
                        try:
                            b.impl_var[vname] = impl_outputs(b, vname)
                        except Exception as e:  # noqa: BLE001
                            import traceback
                            out.case(dict(short(case), settings=vname), True, label="settings=%s" % vname)
                            tb_ = traceback.format_exc()
                            upstream = "add_low_rank" in tb_ and "kernels/kernel.py" in tb_ and vname == "max_cholesky_size_0"
                            # (upstream: evaluating an AdditiveKernel with a LinearKernel term adds a RootLinearOperator to a
                            # DenseLinearOperator; linear_operator then builds Lanczos root decompositions of the dense term,
                            # which break down on a near-identity block depending on the random probe vector)
                            out.fail("upstream:linear_operator:kernel-sum:add_low_rank:%s@%s" % (type(e).__name__, vname) if upstream else
                                     "impl-exception:%s:%s:%s@%s" % (case["strat"], case["dist"], type(e).__name__, vname),
                                     "implementation raised %r under gpytorch.settings %s\n%s" % (e, vname, traceback.format_exc()[-800:]),
                                     dict(short(case), settings=vname))
                    variant_seconds[0] += _t.time() - _tv
                b.impl_hist = {}
                _th = _t.time()
                for hi, hist in enumerate(HISTORIES):
                    try:
                        b.impl_hist[hist] = impl_history(b, hist, random.Random(case["hseed"] * 31 + hi))
                    except Exception as e:  # noqa: BLE001
                        import traceback
                        out.case(dict(short(case), history=hist), True, label="history=%s" % hist)
                        out.fail("impl-exception:%s:%s:%s@history:%s" % (case["strat"], case["dist"], type(e).__name__, hist),
                                 "implementation raised %r in the history %s\n%s" % (e, hist, traceback.format_exc()[-800:]),
                                 dict(short(case), history=hist))
                history_seconds[0] += _t.time() - _th
            except Exception as e:  # noqa: BLE001
                import traceback
                out.fail("impl-exception:%s:%s:%s" % (case["strat"], case["dist"], type(e).__name__),
                         "implementation raised %r\n%s" % (e, traceback.format_exc()[-800:]), short(case))
                continue
            built.append(b)
    res = {}
    import time as _t
    _t0 = _t.time()
    for fn, terms in jobs.items():
        res[fn] = balanced_coq_run("C14_" + fn, "Definition run := %s." % fn, terms) if terms else []
    out.extra["coq_seconds_stage1"] = round(_t.time() - _t0, 1)
    mt_jobs, mt_meta = [], []
    for b in built:
        case = b.case
        strat = case["strat"]
        m = case["m"]
        nn = case["n"] + (case.get("g", 0) if False else 0)
        whitened = strat in ("vs", "ciq", "lmc", "imt")
        dec_by_mode = {mode: [decode(res[fn][k], m, 0 if mode == "alt" else case["n"], whitened and mode != "cross")
                              for fn, k in b.slots[mode]] for mode in b.slots}
        nontrivial = case["family"] != "prior"
        out.case(short(case), nontrivial, label="strat=%s" % strat)
        out.count("dist=" + case["dist"]); out.count("batch=" + case.get("batch", "none")); out.count("m=%d" % m)
        out.count("family=" + case["family"])
        if case["family"] == "legacy":
            out.count("legacy:first-call=%s:%s:batch=%s" % (case["first"], case["dist"], case.get("batch", "none")))
        if strat in ("lmc", "imt"):
            b.dec = dec_by_mode
            nb = case.get("mtbatch") or 1
            Q = len(dec_by_mode["eval"]) // nb
            if case.get("mtbatch"):
                out.count("multitask-batch:%s:models=%d:latents=%d" % (strat, nb, Q))
            for k in range(nb):          # one mixing job per model of the batch
                mt_jobs.append(mt_term(b, dec_by_mode["eval"][k * Q:(k + 1) * Q], k if case.get("mtbatch") else None))
            mt_meta.append((b, nb))
            continue
        compare_plain(out, b, b.impl, dec_by_mode)
        for vname, impl_v in b.impl_var.items():
            out.case(dict(short(case), settings=vname), nontrivial, label="settings=%s" % vname)
            compare_plain(VariantOut(out, vname), b, impl_v, dec_by_mode, variant=vname)
        for hist, impl_h in b.impl_hist.items():
            out.case(dict(short(case), history=hist), True, label="history=%s" % hist)
            compare_plain(HistoryOut(out, hist), b, impl_h, dec_by_mode)
    if mt_jobs:
        r2 = C.coq_run_cases("C14_mt", IMPORTS, "Definition run := run_c14_mt.", mt_jobs,
                             shard=max(1, (len(mt_jobs) + 3) // 4))
        pos = 0
        for b, nb in mt_meta:
            r = r2[pos:pos + nb]
            pos += nb
            compare_mt(out, b, r)
            for vname, impl_v in b.impl_var.items():
                out.case(dict(short(b.case), settings=vname), True, label="settings=%s" % vname)
                compare_mt(VariantOut(out, vname), b, r, impl=impl_v, variant=vname)
            for hist, impl_h in b.impl_hist.items():
                out.case(dict(short(b.case), history=hist), True, label="history=%s" % hist)
                compare_mt(HistoryOut(out, hist), b, r, impl=impl_h)
    out.extra["variant_seconds"] = round(variant_seconds[0], 1)
    out.extra["history_seconds"] = round(history_seconds[0], 1)
    check_refusals(out)
    if not ctx.get("only_cases"):
        check_initialize(out, random.Random(seed * 7919 + 1414), tier)
    out.tested_not_proved = [
        "agreement of torch/linear_operator numerics (Cholesky, CG, contour-integral quadrature) with exact algebra",
        "grid-interpolation strategy away from grid nodes (only the exact limit W one-hot is modelled)"]


# --------------------------------------------------------------------------- families with special handling

def set_prior(b):
    """q(u) := p(u) through the raw parameters (whitened: N(0, I); unwhitened: N(mz, Kzz + jitter I))"""
    case = b.case
    m = case["m"]
    if case["strat"] in ("vs", "ciq"):
        ok = set_dist_to(b.dist, case["dist"], [0.0] * m, np.eye(m).tolist())
    else:
        _, K, mu = prior_pieces(b)
        Kzz = (K[0][:m, :m] + b.jit * torch.eye(m)).tolist()
        ok = set_dist_to(b.dist, case["dist"], mu[0][:m].tolist(), Kzz)
    if not ok:
        raise RuntimeError("distribution cannot represent the prior")


def mt_term(b, decs, bm=None):
    """second-stage Coq case: mix the (Coq-computed, exact) latent q(f_q); bm: index of the model in a batch of
    multitask models (its own mixing coefficients and latents)"""
    case = b.case
    n, T = case["n"], case["T"]
    Q = len(decs)
    mus = "[" + "; ".join(C.qc_vec(d["mean"]) if d else "[]" for d in decs) + "]"
    cs = "[" + "; ".join(C.qc_mat(d["cov"]) if d else "[]" for d in decs) + "]"
    if case["strat"] == "lmc":
        a = b.vs.lmc_coefficients.detach()
        a = (a[bm] if bm is not None else a).tolist()
        aterm = "(Some %s)" % C.qc_mat(a)
        j = float(b.vs.jitter_val)
    else:
        aterm = "(@None (list (list Qc)))"
        j = 0.0
    return "(%d%%nat, %d%%nat, %d%%nat, %s, %s, %s, %s)" % (Q, T, n, aterm, mus, cs, C.qc_lit(j))


def compare_mt(out, b, rs, impl=None, variant=None):
    """rs: one model result (run_c14_mt) per model of the batch (a single one for an unbatched multitask model); the
    implementation's outputs then carry one leading batch dimension and element k is compared with result k"""
    impl = b.impl if impl is None else impl
    tol = 1e-8
    case = b.case
    strat, dist, n, T = case["strat"], case["dist"], case["n"], case["T"]
    tag = "%s:%s" % (strat, dist)
    desc = dict(short(case), T=T, Q=case.get("Q"))
    decs = b.dec["eval"]
    if any(d is None for d in decs):
        out.fail("model:rejects:%s" % tag, "the model could not evaluate a latent case", desc)
        return
    nb = len(rs)
    batched = bool(case.get("mtbatch"))
    Q = len(decs) // nb
    bt = ":model-batch" if batched else ""

    def sel(t, ev):
        """element k of the leading model-batch dimension; None when the shape is not [nb] + event shape"""
        if not batched:
            return [t] if t.dim() == ev else None
        if t.dim() != ev + 1 or t.shape[0] != nb:
            return None
        return [t[k] for k in range(nb)]
    for mode in ("eval", "train"):
        ri = impl[mode]
        shapes_ok = True
        for name, ev in (("mean", 2), ("var", 2)) + ((("cov", 2),) if mode == "eval" else ()):
            if sel(ri[name], ev) is None:
                shapes_ok = False
                out.fail("shape:%s:%s:%s%s" % (name, tag, mode, bt), "multitask %s has shape %s for %d model(s), %d inputs, %d tasks"
                         % (name, list(ri[name].shape), nb, n, T), desc)
        for k in range(nb if shapes_ok else 0):
            rd = C.Reader(rs[k])
            mean = rd.qs(n * T)
            cov = rd.qmat(n * T, n * T)
            e = maxdiff(sel(ri["mean"], 2)[k].reshape(-1), mean)     # [n, T] row-major = interleaved
            if e > tol:
                out.fail("mean:%s:%s%s" % (tag, mode, bt), "multitask mean differs from the mixed latent means by %.3g" % e, dict(desc, model_index=k),
                         impl=sel(ri["mean"], 2)[k].tolist(), model=[float(v) for v in mean])
            e = maxdiff(sel(ri["var"], 2)[k].reshape(-1), [cov[i][i] for i in range(n * T)])
            if e > tol:
                out.fail("var:%s:%s%s" % (tag, mode, bt), "multitask variance differs from the mixed latent covariances by %.3g"
                         % e, dict(desc, model_index=k))
            if mode == "eval":
                e = maxdiff(sel(ri["cov"], 2)[k], cov)
                if e > tol:
                    out.fail("cov:%s:eval%s" % (tag, bt), "multitask covariance differs from sum_q a_q a_q^T (x) C_q by %.3g" % e,
                             dict(desc, model_index=k), impl=sel(ri["cov"], 2)[k].tolist(), model=[[float(v) for v in row] for row in cov])
            # task_indices mode: input i on task ti[i] = the marginal of the all-tasks joint at rows i*T + ti[i]
            idx = [i * T + t for i, t in enumerate(case["ti"])]
            if "ti_exc" in ri:
                if k == 0:
                    out.fail("task-indices-exception:%s:%s%s" % (tag, mode, bt), "model(X, task_indices=...) raised %s" % ri["ti_exc"],
                             desc)
                continue
            tm, tv = sel(ri["ti_mean"], 1), sel(ri["ti_var"], 1)
            tc = sel(ri["ti_cov"], 2) if mode == "eval" else []
            if tm is None or tv is None or tc is None:
                if k == 0:
                    out.fail("task-indices:shape:%s:%s%s" % (tag, mode, bt), "one-task-per-input output has mean shape %s for %d "
                             "model(s) and %d inputs" % (list(ri["ti_mean"].shape), nb, n), desc)
                continue
            e = maxdiff(tm[k], [mean[p] for p in idx])
            if e > tol:
                out.fail("task-indices:mean:%s:%s%s" % (tag, mode, bt), "one-task-per-input mean differs from the marginal of "
                         "the all-tasks q(f) at (x_i, task_i) by %.3g" % e, dict(desc, model_index=k), impl=tm[k].tolist(),
                         model=[float(mean[p]) for p in idx])
            e = maxdiff(tv[k], [cov[p][p] for p in idx])
            if e > tol:
                out.fail("task-indices:var:%s:%s%s" % (tag, mode, bt), "one-task-per-input variance differs from the marginal "
                         "of the all-tasks q(f) by %.3g" % e, dict(desc, model_index=k))
            if mode == "eval":
                e = maxdiff(tc[k], [[cov[p][q] for q in idx] for p in idx])
                if e > tol:
                    out.fail("task-indices:cov:%s:eval%s" % (tag, bt), "one-task-per-input covariance differs from the marginal "
                             "of the all-tasks q(f) at rows i*T + task_i by %.3g" % e, dict(desc, model_index=k),
                             impl=tc[k].tolist(), model=[[float(cov[p][q]) for q in idx] for p in idx])
        # KL: one value per model = the sum of the KLs of that model's latents
        want = [float(sum(d["kl"] for d in decs[k * Q:(k + 1) * Q])) for k in range(nb)]
        if variant in VARIANT_SKIP_KL:
            pass
        elif "kl" not in ri:
            out.fail("kl-exception:%s:%s%s" % (tag, mode, bt), "kl_divergence() raised %s" % ri.get("kl_exc"), desc)
        elif (list(ri["kl"].shape) != [nb]) if batched else (ri["kl"].numel() != 1):
            out.fail("kl-shape:%s:%s%s" % (tag, mode, bt), "kl_divergence() has shape %s (value %s) for a batch of %d multitask "
                     "model(s); per-model sums of latent KLs are %s" % (list(ri["kl"].shape), ri["kl"].tolist(), nb, want), desc,
                     impl=ri["kl"].tolist(), model=want)
        elif any(abs(g - w) > tol * (1 + abs(w)) for g, w in zip(ri["kl"].reshape(-1).tolist(), want)):
            out.fail("kl:%s:%s%s" % (tag, mode, bt), "kl_divergence() = %s but the sum of latent KLs is %s" %
                     (ri["kl"].tolist(), want if batched else "%.10g" % want[0]), desc, impl=ri["kl"].tolist(), model=want if batched else want[0])
    # the latent q(u) moments
    q = impl["eval"]
    for bi, d in enumerate(decs):
        if "qmean" in q and maxdiff(bsel(q["qmean"], b.bshape, bi, 1), d["qmean"]) > tol:
            out.fail("qu-mean:%s" % dist, "variational distribution mean is not what its parameters encode", desc)
        if "qcov" in q and maxdiff(bsel(q["qcov"], b.bshape, bi, 2), d["qcov"]) > tol:
            out.fail("qu-cov:%s" % dist, "variational distribution covariance is not what its parameters encode", desc)


def check_initialize(out, rng, tier):
    """initialize_variational_distribution(N(m, S)) is the inverse of the parameters -> (m, S) map (theorems
    c14_moment_to_natural_roundtrip / c14_natural_to_moment_roundtrip): afterwards the distribution must BE
    N(m, S) (mean-field: the diagonal of S; delta: a point mass at m).  The parameters -> moments direction is compared
    with the Coq model by every other family (keys qu-mean / qu-cov)."""
    for dist in DISTS:
        for rep in range(3 if tier == "quick" else 12):
            m = rng.randint(2, 5)
            bs = [2] if rep % 3 == 2 else []
            nb = 2 if bs else 1
            mean = torch.tensor([[dy(rng, -1.5, 1.5) for _ in range(m)] for _ in range(nb)])
            cov = torch.tensor(np.array([rand_spd(m, rng) for _ in range(nb)]))
            if not bs:
                mean, cov = mean[0], cov[0]
            out.case(dict(family="initialize", dist=dist, m=m, batch=bs), True, label="initialize:" + dist)
            try:
                vd = make_dist(dist, m, bs)
                vd.mean_init_std = 0.0
                with torch.no_grad():
                    vd.initialize_variational_distribution(gpytorch.distributions.MultivariateNormal(mean, cov))
                    q = vd()
                    qm = q.mean
                    qc = None if dist == "delta" else q.covariance_matrix
            except Exception as e:  # noqa: BLE001
                out.fail("initialize-exception:%s:%s" % (dist, type(e).__name__),
                         "initialize_variational_distribution raised %r" % e, dict(dist=dist, m=m, batch=bs))
                continue
            desc = dict(family="initialize", dist=dist, m=m, batch=bs, mean=mean.tolist(), cov=cov.tolist())
            e = float((qm - mean).abs().max())
            if not e <= 1e-8:
                out.fail("initialize:mean:%s" % dist, "after initialize_variational_distribution(N(m,S)) the mean is off by "
                         "%.3g" % e, desc, impl=qm.tolist(), model=mean.tolist())
            if qc is not None:
                want = torch.diag_embed(cov.diagonal(dim1=-1, dim2=-2)) if dist == "meanfield" else cov
                e = float((qc - want).abs().max())
                if not e <= 1e-8:
                    out.fail("initialize:cov:%s" % dist, "after initialize_variational_distribution(N(m,S)) the covariance "
                             "is off by %.3g" % e, desc, impl=qc.tolist(), model=want.tolist())


def check_refusals(out):
    """documented refusals stay refusals (so that the grid above is the complete grid)"""
    try:
        V.BatchDecoupledVariationalStrategy(None, torch.zeros(2, 1), V.DeltaVariationalDistribution(2))
        out.fail("refusal:bdec:delta", "BatchDecoupledVariationalStrategy accepted a DeltaVariationalDistribution", {})
    except NotImplementedError:
        pass
    out.case(dict(refusal="bdec:delta"), False, label="refusal")


def replay(path):
    d = json.load(open(path))
    case = d["case"]
    if case.get("family") == "initialize":
        dist, m = case["dist"], case["m"]
        vd = make_dist(dist, m, case["batch"])
        vd.mean_init_std = 0.0
        mean, cov = torch.tensor(case["mean"]), torch.tensor(case["cov"])
        with torch.no_grad():
            vd.initialize_variational_distribution(gpytorch.distributions.MultivariateNormal(mean, cov))
            q = vd()
        print("wanted mean", mean.tolist(), "\n   got mean", q.mean.tolist())
        bad = float((q.mean - mean).abs().max()) > 1e-8
        if dist != "delta":
            want = torch.diag_embed(cov.diagonal(dim1=-1, dim2=-2)) if dist == "meanfield" else cov
            print("wanted cov", want.tolist(), "\n   got cov", q.covariance_matrix.tolist())
            bad = bad or float((q.covariance_matrix - want).abs().max()) > 1e-8
        print("FAILS" if bad else "agrees")
        return 1 if bad else 0
    full = None
    # the stored case is the short description; regenerate the full one from the same seed/tier
    rng = random.Random(d["seed"] * 104729 + 14)
    for c in gen_cases(rng, d.get("tier", "quick")):
        if all(c.get(k) == v for k, v in case.items() if k in c):
            full = c
            break
    if full is None:
        print("case not found in the generator stream; stored description:", case)
        return 1
    out = C.Outcome("C14", "quick", d["seed"])
    run_cases(out, [full])
    for f in out.failures:
        print(f["key"], "|", f["what"]); print("  impl ", f.get("impl")); print("  model", f.get("model"))
    print("FAILS" if out.failures else "agrees")
    return 1 if out.failures else 0


def run_cases(out, cases):
    """run() on an explicit case list (used by replay)"""
    global gen_cases
    saved = gen_cases
    try:
        gen_cases = lambda rng, tier: cases  # noqa: E731
        run(out, dict(tier="quick", seed=out.seed, only_cases=True))
    finally:
        gen_cases = saved
